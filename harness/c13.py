"""C13 — EDF, FIFO and LSF honour their priority order (no priority inversion).

spec/Greedy.tla is the oracle.  An *instance* is [now, tasks (offer order), pools
(availability of partially occupied single-worker pools)], an *answer* is the
order in which Placements were returned plus (placed?, pool, strategy) per task.

M  TLC enumerates every instance of a bound as an initial state (one JVM per
   part of the bound) and checks `Theorem` (Plan has no inversion, is feasible and
   in key order) and `CodedIsPlan` (LSF's strategy-less virtual place_task
   allocates the reported strategy).
R  the same bound is enumerated here from the same constants (quick: a seeded
   sample; thorough: all of the quick bound + a sample of the larger bound); each
   instance becomes real RELEASED tasks / Workload / partially occupied
   WorkerPools, is given to the real EDF/FIFO/LSF `schedule()`, and the call
   record (instance, returned answer, pool availability before / after) goes back
   to TLC which evaluates InBound, NoInversion, SameAsPlan, OrderKey, ... on it.
T  larger seeded-random instances (<= 8 tasks, two resource names, several
   strategies, ties) -> call records -> the same TLC evaluation.
X  (thorough, notes only) pools with several workers, outside the gating bound.

Only `C13.no_inversion` produces a VIOLATION.  `C13.plan_eq`, `C13.order_key`,
`side.*` are stricter than the statement: they are counted (`resync`) and shown
in the detail of a no_inversion violation, never reported on their own.
"""
from __future__ import annotations

import contextlib
import itertools
import json
import os
import tempfile
import time

from . import mcgen, tlaval, tlc
from .common import CheckResult, Scratch, parallel, rng, seed
from .mcgen import Raw
from .realobj import ns, us

KINDS = ("EDF", "FIFO", "LSF")
RES_NAMES = ("r1", "r2")
GATING = "C13.no_inversion"
STAT_NAMES = [
    "records",
    "some_task_unplaced",
    "lower_priority_placed_while_higher_unplaced",
    "key_ties",
    "order_differs_from_offer_order",
    "fallback_strategy_used",
    "pool_other_than_first_used",
    "all_placed",
    "unplaced_task_fits_initial_cluster",
    "answer_equals_plan",
]


# ---------------------------------------------------------------------------
# bounds (one source of truth for TLC and for the enumeration below)


def _st(dem, rt):
    return {"dem": list(dem), "rt": rt}


def _pool(av, cap=None):
    """single-worker pool"""
    return {"cap": [list(cap or [2] * len(av))], "av": [list(av)]}


def _profiles(deadlines, releases, graphs):
    return [{"deadline": d, "release": r, "graph": g} for d in deadlines for r in releases for g in graphs]


def _pool_seqs(avs, lens, cap=None):
    out = []
    for n in lens:
        for combo in itertools.product(avs, repeat=n):
            out.append([_pool(a, cap) for a in combo])
    return out


def slices(size: str) -> dict:
    """size: 'small' (quick M, R) or 'large' (thorough M, sampled in R)."""
    big = size == "large"
    n = 4 if big else 3
    one = [[1], [2]] if not big else [[0], [1], [2]]
    s = {}
    # --- the policy key varies over 0..3 (ties abound); the other key fields vary over
    # two values chosen against the key so that reading the wrong field shows
    s["edf"] = dict(
        Kinds=["EDF"], Now=3, MaxTasks=n,
        KeyProfiles=_profiles(range(4), (0, 2), (0, 1)),
        StratLists=[[_st([1], 1)], [_st([2], 2)]],
        PoolSeqs=_pool_seqs(one, (1,)) + _pool_seqs([[1]], (2,)) + (_pool_seqs([[1], [2]], (2,))[1:3] if big else []),
    )
    s["fifo"] = dict(
        Kinds=["FIFO"], Now=3, MaxTasks=n,
        KeyProfiles=_profiles((3, 6), range(4), (0, 1)),
        StratLists=[[_st([1], 1)], [_st([2], 2)]],
        PoolSeqs=s["edf"]["PoolSeqs"],
    )
    s["lsf"] = dict(
        Kinds=["LSF"], Now=2, MaxTasks=n,
        KeyProfiles=_profiles((5, 6, 7), (0, 2), (0,)),
        StratLists=[[_st([1], 1)], [_st([1], 2)], [_st([2], 1), _st([1], 3)], [_st([1], 3), _st([2], 1)]]
        + ([[_st([2], 2), _st([1], 1)]] if big else []),
        PoolSeqs=s["edf"]["PoolSeqs"],
    )
    # --- the fit side: two resource names, 1-2 strategies, 1-3 pools, all three policies;
    # two key profiles ordered one way by deadline and the other way by release
    lists = [
        [_st([1, 0], 1)],
        [_st([0, 1], 2)],
        [_st([1, 1], 1)],
        [_st([2, 0], 1), _st([0, 1], 2)],
        [_st([1, 1], 2), _st([1, 0], 1)],
        [_st([0, 2], 1), _st([1, 0], 3)],
    ]
    avs = [[0, 1], [1, 0], [1, 1], [2, 1], [1, 2]]
    if big:
        lists += [[_st([2, 1], 1)], [_st([2, 1], 2), _st([0, 1], 1)]]
        avs += [[0, 0], [2, 2]]
    three = [[_pool(a), _pool(b), _pool(c)] for a, b, c in (([1, 0], [0, 1], [1, 1]), ([0, 1], [0, 1], [2, 0]), ([0, 0], [1, 0], [1, 2]))]
    s["fit"] = dict(
        Kinds=list(KINDS), Now=2, MaxTasks=3,
        KeyProfiles=[{"deadline": 5, "release": 1, "graph": 0}, {"deadline": 6, "release": 0, "graph": 0}]
        + ([{"deadline": 6, "release": 1, "graph": 1}] if big else []),
        StratLists=lists,
        PoolSeqs=_pool_seqs(avs, (1, 2)) + three,
    )
    return s


def shapes_of(b):
    return [
        {"deadline": kp["deadline"], "release": kp["release"], "graph": kp["graph"], "strats": sl}
        for kp in b["KeyProfiles"]
        for sl in b["StratLists"]
    ]


def grouped(graphs) -> bool:
    seen, last = set(), None
    for g in graphs:
        if g != last:
            if g in seen:
                return False
            seen.add(g)
            last = g
    return True


def enumerate_bound(b):
    """every instance of the bound (the set Greedy!InBound describes)"""
    sh = shapes_of(b)
    for n in range(1, b["MaxTasks"] + 1):
        for ts in itertools.product(sh, repeat=n):
            if not grouped([t["graph"] for t in ts]):
                continue
            for ps in b["PoolSeqs"]:
                yield {"now": b["Now"], "tasks": list(ts), "pools": ps}


def count_bound(b) -> int:
    graphs = [kp["graph"] for kp in b["KeyProfiles"]]
    per_graph = {g: graphs.count(g) * len(b["StratLists"]) for g in set(graphs)}
    total = 0
    for n in range(1, b["MaxTasks"] + 1):
        for gs in itertools.product(sorted(per_graph), repeat=n):
            if grouped(gs):
                c = 1
                for g in gs:
                    c *= per_graph[g]
                total += c
    return total * len(b["PoolSeqs"])


def sample_bound(b, k, r):
    sh = shapes_of(b)
    weights = [len(sh) ** n for n in range(1, b["MaxTasks"] + 1)]
    out = []
    while len(out) < k:
        n = r.choices(range(1, b["MaxTasks"] + 1), weights)[0]
        ts = [r.choice(sh) for _ in range(n)]
        if not grouped([t["graph"] for t in ts]):
            continue
        out.append({"now": b["Now"], "tasks": ts, "pools": r.choice(b["PoolSeqs"])})
    return out


def _set(lst):
    return Raw("{" + ", ".join(tlaval.to_tla(x) for x in lst) + "}")


def _dedupe(lst):
    seen, out = set(), []
    for x in lst:
        k = json.dumps(x, sort_keys=True)
        if k not in seen:
            seen.add(k)
            out.append(x)
    return out


def constants(b, first=None, records=None, nrecords=0):
    """`first`: 1-based shape indices of the first task (None: the whole bound)"""
    sh = shapes_of(b)
    pools = _dedupe(b["PoolSeqs"])
    assert len(pools) == len(b["PoolSeqs"]) and len(_dedupe(sh)) == len(sh), "bound lists must not repeat"
    return {
        "Kinds": _set(b["Kinds"]),
        "Now": b["Now"],
        "MaxTasks": b["MaxTasks"],
        "Shapes": sh,
        "PoolSeqs": pools,
        "NShapes": len(sh),
        "NPools": len(pools),
        "GraphOf": [x["graph"] for x in sh],
        "FirstIx": _set(list(range(1, len(sh) + 1)) if first is None else list(first)),
        "Records": Raw(records) if records else [],
        "NRecords": nrecords,
    }


def instance_of(b, sel, pix):
    sh = shapes_of(b)
    return {"now": b["Now"], "tasks": [sh[i - 1] for i in sel], "pools": b["PoolSeqs"][pix - 1]}


@contextlib.contextmanager
def _tmp_in(scratch):
    """tlc.run_tlc makes its -metadir with tempfile.mkdtemp(): keep it inside our own
    scratch directory (several checks share /tmp)."""
    old = tempfile.tempdir
    tempfile.tempdir = scratch
    try:
        yield
    finally:
        tempfile.tempdir = old


NO_BOUND = dict(Kinds=list(KINDS), Now=0, MaxTasks=1, KeyProfiles=[], StratLists=[], PoolSeqs=[])  # records that claim no bound

# ---------------------------------------------------------------------------
# M: enumeration runs

REG_INIT = "ASSUME \\A r \\in 1..(NStats + 1) : TLCSet(r, 0)\nASSUME BoundOK\nPost == StatsLine\n"


def _stats_from(out: str):
    for line in out.splitlines():
        if line.startswith('"@@stats '):
            return tlaval.parse(line[len('"@@stats ') : -1])
    return None


def _enum_job(tag, b, first, invariants, allow_violation=False):
    """one JVM: the part of bound `b` whose first task is in `first`"""
    with Scratch() as scratch:
        extra = REG_INIT
        if tag.startswith("edf") or tag.startswith("fit"):
            extra += 'ASSUME VectorModelOK(<<"r1", "r2">>, 2)\n'
        mod, cf = mcgen.write_mc(
            scratch, "Greedy", constants(b, first), name="MC_GreedyEnum", init_next=("EnumInit", "NoNext"),
            invariants=invariants, extra_defs=extra, postcondition="Post",
        )
        with _tmp_in(scratch):
            r = tlc.run_tlc(mod, cf, workers=1, java_opts=mcgen.LIB_OPT, timeout=7200)
    cex = None
    if not r.ok and r.trace and "sel" in r.trace[0][1]:
        st = r.trace[0][1]
        cex = {"kind": st["kind"], "inst": instance_of(b, st["sel"], st["pix"])}
    return {
        "tag": tag, "ok": r.ok, "distinct": r.distinct, "generated": r.generated, "wall_s": r.wall_s,
        "coverage": r.coverage, "stats": _stats_from(r.stdout), "violation": r.violation_name,
        "cex": cex, "tail": "" if r.ok else r.stdout[-1500:],
    }


def _chunks(lst, n):
    n = max(1, min(n, len(lst)))
    k, m = divmod(len(lst), n)
    out, i = [], 0
    for j in range(n):
        step = k + (1 if j < m else 0)
        out.append(lst[i : i + step])
        i += step
    return out


def run_enumeration(res, bounds, parts_for, invariants, label, procs):
    jobs = []
    for tag, b in bounds.items():
        for ci, first in enumerate(_chunks(list(range(1, len(shapes_of(b)) + 1)), parts_for(tag, b))):
            jobs.append((f"{tag}/{ci}", b, first, invariants))
    outs = parallel(_enum_job, jobs, procs=procs)
    by_slice = {}
    for o in outs:
        by_slice.setdefault(o["tag"].split("/")[0], []).append(o)
    counts = {}
    for tag, parts in by_slice.items():
        agg = tlc.TLCResult(ok=all(p["ok"] for p in parts), stdout="")
        agg.distinct = sum(p["distinct"] for p in parts)
        agg.generated = sum(p["generated"] for p in parts)
        agg.wall_s = max(p["wall_s"] for p in parts)
        agg.depth = 1
        for p in parts:
            for k, (d, t) in p["coverage"].items():
                od, ot = agg.coverage.get(k, (0, 0))
                agg.coverage[k] = (od + d, ot + t)
        res.add_tlc(f"Greedy/{label}/{tag} ({len(parts)} JVMs)", agg)
        res.extra["tlc_runs"][-1]["never_taken"] = []  # NoNext is disabled on purpose: instances are initial states
        st = [0] * len(STAT_NAMES)
        for p in parts:
            if p["stats"]:
                st = [a + b for a, b in zip(st, p["stats"])]
        res.extra.setdefault("enumeration_stats", {})[f"{label}/{tag}"] = dict(zip(STAT_NAMES[:-1], st[:-1]))
        counts[tag] = agg.distinct
        for p in parts:
            if not p["ok"]:
                res.violate(
                    GATING,
                    f"TLC: {p['violation']} fails for the specified algorithm on an instance of bound {label}/{tag}",
                    {**(p["cex"] or {}), "tlc_tail": p["tail"]},
                    key=f"spec:{label}/{tag}:{p['violation']}",
                )
    return counts


# ---------------------------------------------------------------------------
# real objects

_SCHED = {}


def scheduler(kind):
    if kind not in _SCHED:
        N = ns()
        import schedulers

        zero = N.EventTime.zero()
        if kind == "EDF":
            _SCHED[kind] = schedulers.EDFScheduler(preemptive=False, runtime=zero, enforce_deadlines=False)
        elif kind == "FIFO":
            _SCHED[kind] = schedulers.FIFOScheduler(preemptive=False, runtime=zero, enforce_deadlines=False)
        else:
            _SCHED[kind] = schedulers.LSFScheduler(preemptive=False, runtime=zero)
    return _SCHED[kind]


def _request(dem):
    N = ns()
    return N.Resources(resource_vector={N.Resource(name=RES_NAMES[k], _id="any"): q for k, q in enumerate(dem) if q > 0})


def build_pools(inst):
    """Real WorkerPools: each worker owns cap[k] of resource name k (one instance per
    name); a dummy task holds cap - av."""
    N = ns()
    pools = []
    for pi, p in enumerate(inst["pools"]):
        workers = []
        for wi, cap in enumerate(p["cap"]):
            vec = {N.Resource(name=RES_NAMES[k]): c for k, c in enumerate(cap) if c > 0 or (pi + wi + k) % 2 == 0}
            workers.append(N.Worker(name=f"w{pi}_{wi}", resources=N.Resources(resource_vector=vec)))
        pool = N.WorkerPool(name=f"pool{pi}", workers=workers)
        for wi, (cap, av) in enumerate(zip(p["cap"], p["av"])):
            occ = [c - a for c, a in zip(cap, av)]
            if any(occ):
                st = N.ExecutionStrategy(resources=_request(occ), batch_size=1, runtime=us(1000))
                prof = N.WorkProfile(name=f"occ{pi}_{wi}", execution_strategies=N.ExecutionStrategies([st]))
                dummy = N.Task(
                    name=f"occ{pi}_{wi}", task_graph="occupants", job=N.Job(name=f"occ{pi}_{wi}", profile=prof),
                    profile=prof, deadline=us(10**6), timestamp=0, release_time=us(0),
                )
                if not pool.place_task(dummy, execution_strategy=st, worker_id=workers[wi].id):
                    raise tlc.TLCMachineryError(f"could not occupy pool {pi} worker {wi} with {occ}")
        pools.append(pool)
    return pools


def observe(pools, nres):
    N = ns()
    probes = [N.Resource(name=RES_NAMES[k], _id="any") for k in range(nres)]
    return [[[w.resources.get_available_quantity(q) for q in probes] for w in pool.workers] for pool in pools]


def build_workload(inst):
    """Real RELEASED tasks, one TaskGraph per graph number (dict order = first
    appearance).  Returns (workload, tasks in instance order)."""
    N = ns()
    tasks = []
    for ti, t in enumerate(inst["tasks"]):
        strategies = [N.ExecutionStrategy(resources=_request(s["dem"]), batch_size=1, runtime=us(s["rt"])) for s in t["strats"]]
        prof = N.WorkProfile(name=f"t{ti}_p", execution_strategies=N.ExecutionStrategies(strategies))
        task = N.Task(
            name=f"t{ti}", task_graph=f"g{t['graph']}", job=N.Job(name=f"t{ti}", profile=prof), profile=prof,
            deadline=us(t["deadline"]), timestamp=0, release_time=us(t["release"]),
        )
        task.release()
        tasks.append(task)
    graphs = {}
    for task in tasks:
        graphs.setdefault(task.task_graph, []).append(task)
    # an edge-less graph is offered in reverse insertion order (topological_sort)
    tgs = {name: N.TaskGraph(name=name, tasks={t: [] for t in reversed(ts)}) for name, ts in graphs.items()}
    return N.Workload.from_task_graphs(tgs), tasks


def realize(kind, inst):
    """Run the real scheduler on the instance.  Returns (inst as offered, ans, before,
    after, info)."""
    N = ns()
    nres = len(inst["pools"][0]["av"][0])
    info = {}
    pools = build_pools(inst)
    workload, tasks = build_workload(inst)
    now = us(inst["now"])
    offered = workload.get_schedulable_tasks(time=now)
    idx = {id(t): i for i, t in enumerate(tasks)}
    perm = [idx[id(t)] for t in offered if id(t) in idx]
    if perm != list(range(len(tasks))):
        if sorted(perm) != list(range(len(tasks))) or len(offered) != len(tasks):
            info["not_offered"] = [len(tasks), perm]
            return None, None, None, None, info
        # describe the instance in the order the code offers it
        info["offer_reordered"] = perm
        inst = dict(inst, tasks=[inst["tasks"][i] for i in perm])
        tasks = [tasks[i] for i in perm]
        idx = {id(t): i for i, t in enumerate(tasks)}
    wps = N.WorkerPools(pools)
    pool_ix = {p.id: i + 1 for i, p in enumerate(pools)}
    before = observe(pools, nres)
    order, place = [], [{"placed": False, "pool": 0, "strat": 0} for _ in tasks]
    seen = set()
    try:
        placements = scheduler(kind).schedule(now, workload, wps)
        for pl in placements:
            ptype = pl.placement_type
            if ptype not in (N.Placement.PlacementType.PLACE_TASK, N.Placement.PlacementType.CANCEL_TASK):
                info.setdefault("other_placements", []).append(str(ptype))
                continue
            ti = idx.get(id(pl.task))
            if ti is None:
                info.setdefault("foreign_task", []).append(pl.task.unique_name)
                continue
            order.append(ti + 1)
            if ti in seen:
                info.setdefault("duplicate", []).append(ti + 1)
                continue
            seen.add(ti)
            if ptype == N.Placement.PlacementType.PLACE_TASK and pl.is_placed():
                sts = list(tasks[ti].available_execution_strategies)
                es = pl.execution_strategy
                si = next((k + 1 for k, s in enumerate(sts) if s is es), 0)
                if si == 0 and es is not None:
                    si = next((k + 1 for k, s in enumerate(sts) if s.id == es.id), 0)
                place[ti] = {"placed": True, "pool": pool_ix.get(pl.worker_pool_id, 0), "strat": si}
                if pl.worker_id is not None:
                    info["worker_id_reported"] = True
    except Exception as ex:  # the call has no answer: nothing is placed (TLC judges that)
        info["raised"] = f"{type(ex).__name__}: {ex}"[:300]
        order, place = [], [{"placed": False, "pool": 0, "strat": 0} for _ in tasks]
    after = observe(pools, nres)
    return inst, {"order": order, "place": place}, before, after, info


def make_records(items, id0=0):
    """items: [(kind, inst, bound?)] -> records, skipped infos"""
    recs, infos = [], []
    for k, (kind, inst, bound) in enumerate(items):
        inst2, ans, before, after, info = realize(kind, inst)
        if inst2 is None:
            infos.append({"kind": kind, "inst": inst, **info})
            continue
        rec = {
            "id": id0 + k, "kind": kind, "inst": inst2, "ans": ans,
            "bound": bool(bound) and "offer_reordered" not in info, "before": before, "after": after,
        }
        if info:
            rec["_info"] = info
        recs.append(rec)
    return recs, infos


# ---------------------------------------------------------------------------
# records -> TLC


def check_records(recs, b):
    """One TLC run over the records.  Returns (failures {id: {clause: expected}}, stats)."""
    if not recs:
        return {}, [0] * len(STAT_NAMES), 0.0
    with Scratch() as scratch:
        path = os.path.join(scratch, "records.json")
        with open(path, "w") as f:
            json.dump([{k: v for k, v in r.items() if not k.startswith("_")} for r in recs], f)
        mod, cf = mcgen.write_mc(
            scratch, "Greedy", constants(b, None, f'JsonDeserialize("{path}")', len(recs)), name="MC_GreedyRec",
            init_next=("RecInit", "NoNext"), invariants=["RecChecked"], extra_defs=REG_INIT,
            postcondition="Post", extends="Json",
        )
        with _tmp_in(scratch):
            r = tlc.run_tlc(mod, cf, workers=1, java_opts=mcgen.LIB_OPT, coverage=False, timeout=7200)
    if not r.ok:
        raise tlc.TLCMachineryError(f"record run failed: {r.violation_kind} {r.violation_name}\n{r.stdout[-3000:]}")
    if r.distinct != len(recs):
        raise tlc.TLCMachineryError(f"TLC looked at {r.distinct} records, {len(recs)} were written")
    fails = {}
    for line in r.stdout.splitlines():
        if line.startswith('"@@ '):
            rid, clause, exp = line[4:-1].split(" ", 2)
            try:
                val = tlaval.parse(exp)
            except tlaval.ParseError:
                val = exp
            fails.setdefault(int(rid), {})[clause] = val
    st = _stats_from(r.stdout)
    if st is None:
        raise tlc.TLCMachineryError("no statistics line from the record run")
    return fails, st, r.wall_s


def _plain(v):
    if isinstance(v, dict):
        return {str(k): _plain(x) for k, x in v.items()}
    if isinstance(v, (set, frozenset)):
        return sorted(_plain(x) for x in v)
    if isinstance(v, (list, tuple)):
        return [_plain(x) for x in v]
    return v


def inst_key(kind, inst):
    return kind + ":" + json.dumps(inst, sort_keys=True, separators=(",", ":"))


def inst_size(inst):
    return (len(inst["tasks"]), len(inst["pools"]), sum(len(t["strats"]) for t in inst["tasks"]), json.dumps(inst))


def judge(part, recs, fails, phase, gating=True):
    """Turn TLC's per-record findings into verdicts / counted notes."""
    by_id = {r["id"]: r for r in recs}
    for rid, cl in sorted(fails.items()):
        rec = by_id[rid]
        harness = sorted(c for c in cl if c.startswith("harness."))
        if harness:
            raise tlc.TLCMachineryError(f"{phase}: record {rid} fails {harness}: {json.dumps(rec)[:1500]}")
        detail = {
            "phase": phase, "kind": rec["kind"], "inst": rec["inst"], "call": f"{rec['kind']}Scheduler.schedule(now={rec['inst']['now']})",
            "got": rec["ans"], "failed_clauses": sorted(cl), "expected": _plain(cl.get(GATING) or cl.get("C13.plan_eq")),
            "info": rec.get("_info", {}),
        }
        if GATING in cl and gating:
            part["viol"].append(detail)
        for c in cl:
            if c == GATING and gating:
                continue
            name = c if gating else f"explore:{c}"
            n = part["resync"].setdefault(name, {"count": 0, "samples": []})
            n["count"] += 1
            if len(n["samples"]) < 2:
                n["samples"].append(detail)
    for rec in recs:
        for k in rec.get("_info", {}):
            part["info"][k] = part["info"].get(k, 0) + 1


def _new_part():
    return {"viol": [], "resync": {}, "info": {}, "stats": [0] * len(STAT_NAMES), "n": 0, "tlc_s": 0.0, "real_s": 0.0, "skipped": [], "samples": []}


def _records_job(phase, tag, b, items, id0, gating=True):
    """worker process: realize the items, have TLC judge the records"""
    part = _new_part()
    t0 = time.time()
    recs, skipped = make_records(items, id0)
    part["real_s"] = time.time() - t0
    part["skipped"] = skipped[:3]
    part["info"]["not_offered"] = len(skipped)
    fails, st, wall = check_records(recs, b)
    part["stats"] = list(st)
    part["n"] = len(recs)
    part["tlc_s"] = wall
    judge(part, recs, fails, f"{phase}/{tag}", gating)
    interesting = [r for r in recs if any(not p["placed"] for p in r["ans"]["place"]) and any(p["placed"] for p in r["ans"]["place"])]
    for r in interesting[:1]:
        part["samples"].append({"phase": f"{phase}/{tag}", "kind": r["kind"], "inst": r["inst"], "answer": r["ans"], "verdict": sorted(fails.get(r["id"], {})) or "all clauses hold"})
    return part


def run_records(res, phase, jobs, procs):
    """jobs: [(tag, bound, items, gating)] ; items are split into batches per process."""
    arglist, id0 = [], 0
    for tag, b, items, gating in jobs:
        nb = max(1, min(procs, len(items) // 400 + 1))
        for chunk in _chunks(items, nb):
            if chunk:
                arglist.append((phase, tag, b, chunk, id0, gating))
                id0 += len(chunk)
    parts = parallel(_records_job, arglist, procs=procs)
    tot = _new_part()
    per_tag = {}
    for (ph, tag, *_), p in zip(arglist, parts):
        tot["viol"] += p["viol"]
        tot["n"] += p["n"]
        tot["tlc_s"] += p["tlc_s"]
        tot["real_s"] += p["real_s"]
        tot["skipped"] += p["skipped"]
        tot["samples"] += p["samples"][:1] if tag not in per_tag else []
        per_tag.setdefault(tag, [0] * len(STAT_NAMES))
        per_tag[tag] = [a + b for a, b in zip(per_tag[tag], p["stats"])]
        for k, v in p["info"].items():
            tot["info"][k] = tot["info"].get(k, 0) + v
        for c, n in p["resync"].items():
            t = tot["resync"].setdefault(c, {"count": 0, "samples": []})
            t["count"] += n["count"]
            t["samples"] = (t["samples"] + n["samples"])[:2]
    res.traces_validated += tot["n"]
    ev = res.extra.setdefault("records", {})
    ev[phase] = {
        "records": tot["n"],
        "by_slice": {t: dict(zip(STAT_NAMES, s)) for t, s in per_tag.items()},
        "real_s_cpu": round(tot["real_s"], 1),
        "tlc_s_cpu": round(tot["tlc_s"], 1),
        "harness_info": {k: v for k, v in tot["info"].items() if v},
    }
    for c, n in tot["resync"].items():
        e = res.extra.setdefault("resync", {}).setdefault(c, {"count": 0, "samples": []})
        e["count"] += n["count"]
        e["samples"] = (e["samples"] + n["samples"])[:2]
    res.samples += tot["samples"][:3]
    if tot["skipped"]:
        res.notes.append(f"{phase}: {tot['info'].get('not_offered', 0)} instances were not offered completely by get_schedulable_tasks (C18 territory), e.g. {tot['skipped'][0]}")
    # smallest failing instances first, one violation per distinct input
    seen = set()
    for d in sorted(tot["viol"], key=lambda d: inst_size(d["inst"])):
        k = inst_key(d["kind"], d["inst"])
        if k in seen:
            continue
        seen.add(k)
        if len(seen) > 25:
            break
        inv = (d["expected"] or {}).get("inverted") if isinstance(d["expected"], dict) else None
        res.violate(
            GATING,
            f"{d['kind']}Scheduler left task(s) {inv} unplaced although a strategy fits a pool once the placed tasks of higher-or-equal priority are accounted for ({d['phase']})",
            d, key=k,
        )
    res.extra["violating_records"] = res.extra.get("violating_records", 0) + len(tot["viol"])
    return tot


# ---------------------------------------------------------------------------
# T: larger random instances


def random_instance(r, max_tasks=8, workers=(1,), nres=None):
    nres = nres or r.choice((1, 2, 2, 2))
    now = r.randint(2, 5)
    pools = []
    for _ in range(r.randint(1, 4)):
        cap, av = [], []
        for _w in range(r.choice(workers)):
            c = [r.randint(0, 3) for _ in range(nres)]
            cap.append(c)
            av.append([r.randint(0, x) for x in c])
        pools.append({"cap": cap, "av": av})
    n = r.randint(2, max_tasks)
    graphs, g_used = [], []
    while len(graphs) < n:
        g = r.choice([x for x in range(6) if x not in g_used])
        g_used.append(g)
        graphs += [g] * r.randint(1, 3)
    graphs = graphs[:n]
    dl = r.choice((2, 3, 5))
    tasks = []
    for g in graphs:
        strats = []
        for _ in range(r.choice((1, 1, 2, 2, 3))):
            dem = [r.choice((0, 1, 1, 2)) for _ in range(nres)]
            if not any(dem):
                dem[r.randrange(nres)] = 1
            strats.append(_st(dem, r.randint(1, 4)))
        tasks.append({"deadline": now + r.randint(0, dl), "release": r.randint(max(0, now - dl), now), "graph": g, "strats": strats})
    return {"now": now, "tasks": tasks, "pools": pools}


# ---------------------------------------------------------------------------
# X: pools with several workers (outside the gating bound; notes only)


def explore_bound():
    st = [
        [_st([1, 0], 1)],
        [_st([0, 1], 1)],
        [_st([1, 0], 1), _st([0, 2], 2)],
        [_st([2, 0], 1), _st([1, 0], 2)],
    ]
    two = [{"cap": [[2, 2], [2, 2]], "av": [a, b]} for a, b in (([0, 2], [1, 0]), ([1, 0], [2, 0]), ([1, 1], [0, 1]))]
    return dict(
        Kinds=["LSF"], Now=2, MaxTasks=2,
        KeyProfiles=[{"deadline": 5, "release": 0, "graph": 0}, {"deadline": 6, "release": 0, "graph": 0}],
        StratLists=st, PoolSeqs=[[p] for p in two],
    )


def explore(res, tier, procs):
    """LSF calls place_task(task) without a strategy.  With several workers per pool
    the pool may allocate another strategy (on another worker) than the one reported."""
    b = explore_bound()
    outs = parallel(
        _enum_job,
        [("x/coded_is_plan", b, None, ["CodedIsPlan"]), ("x/coded_no_inversion", b, None, ["CodedNoInversion"]), ("x/coded_feasible", b, None, ["CodedFeasible"])],
        procs=3,
    )
    found = []
    for o in outs:
        entry = {"run": o["tag"], "instances": o["distinct"], "holds": o["ok"]}
        if not o["ok"] and o["cex"]:
            inst = _plain(o["cex"]["inst"])
            entry["tlc_counterexample"] = inst
            # confirm on the real scheduler: the real answer must be the coded plan and must fail the clause
            recs, _ = make_records([("LSF", inst, False)], 0)
            fails, _, _ = check_records(recs, NO_BOUND)
            cl = sorted(fails.get(0, {}))
            entry["real_answer"] = recs[0]["ans"]
            entry["real_answer_fails"] = cl
            entry["real_answer_is_coded_plan"] = "model.coded_eq" not in cl
        found.append(entry)
    res.extra["multi_worker_exploration"] = {"bound": "LSF, <=2 tasks, one pool of two workers", "tlc": found}
    # random instances with 1-2 workers per pool on all three policies
    r = rng("c13-explore")
    items = [(KINDS[i % 3], random_instance(r, 5, workers=(1, 2, 2)), False) for i in range(1500 if tier == "thorough" else 300)]
    tot = run_records(res, "X-multi-worker", [("random", NO_BOUND, items, False)], procs)
    by = {c: n["count"] for c, n in tot["resync"].items()}
    bad = [e for e in found if not e["holds"]]
    if bad:
        res.notes.append(
            "outside the gating bound (pools with several workers): LSFScheduler allocates virtually with "
            "worker_pool.place_task(task) (workers outer, strategies inner) but reports the loop's strategy; TLC finds "
            f"instances where the allocated strategy differs ({[e['run'] for e in bad]}), confirmed on the real scheduler: "
            + json.dumps(bad[0])[:900]
        )
    res.notes.append(f"multi-worker random records (notes only, not gated): clause failures {by}")


# ---------------------------------------------------------------------------


def run(tier: str) -> CheckResult:
    res = CheckResult("C13", tier)
    q = tier == "quick"
    procs = 12
    res.assumptions = [
        "gating instances have single-worker pools whose worker owns one resource instance per name; demands use the "
        "wildcard id ('any'); Greedy!VectorModelOK ties this vector model to LedgerOps (FitsEach = CanAllocMulti = pointwise >=)",
        "tasks are RELEASED with release <= now; the offer order is what Workload.get_schedulable_tasks returns (read back "
        "from the real workload for every instance)",
        "task-graph names are g<digit>, so string order equals the numeric order the spec uses in EDF's secondary key",
        "M is exhaustive only for the bounds in harness/c13.py:slices(); R replays a seeded sample of them in quick and all "
        "instances of the small bound in thorough",
        "priority ties: a placed task of equal key counts as 'higher or equal priority' for an unplaced one (statement)",
        "C13.plan_eq / C13.order_key / side.* are stricter than the statement: counted under coverage.resync, never a violation",
    ]
    small = slices("small")
    inv = ["Theorem", "CodedIsPlan"]
    t0 = time.time()
    # ---- M
    counts = run_enumeration(res, small, lambda tag, b: 4 if tag == "fit" else 3 if tag != "lsf" else 2, inv, "small", procs)
    if not q:
        large = slices("large")
        run_enumeration(res, large, lambda tag, b: 16 if tag in ("edf", "fifo") else 12, inv, "large", 16)
    for tag, b in small.items():
        want = count_bound(b) * len(b["Kinds"])
        if counts.get(tag) != want:
            raise tlc.TLCMachineryError(f"bound {tag}: TLC enumerated {counts.get(tag)} states, the harness counts {want}")
    res.extra["wall_M_s"] = round(time.time() - t0, 1)
    if res.violations:
        return res
    # ---- R
    t0 = time.time()
    jobs = []
    for tag, b in small.items():
        if q:
            k = 700 if tag == "fit" else 1000
            insts = sample_bound(b, k, rng(f"c13-R-{tag}"))
        else:
            insts = list(enumerate_bound(b))
        jobs.append((tag, b, [(kind, i, True) for i in insts for kind in b["Kinds"]], True))
    if not q:
        for tag, b in slices("large").items():
            insts = sample_bound(b, 25000, rng(f"c13-RL-{tag}"))
            jobs.append((f"large-{tag}", b, [(kind, i, True) for i in insts for kind in b["Kinds"]], True))
    tot = run_records(res, "R", jobs, procs if q else 16)
    res.extra["R_instances"] = sum(len(j[2]) // len(j[1]["Kinds"]) for j in jobs)
    if not q:
        for tag, b in small.items():
            if res.extra["records"]["R"]["by_slice"][tag]["records"] != counts[tag]:
                raise tlc.TLCMachineryError(f"R replayed {res.extra['records']['R']['by_slice'][tag]['records']} records of bound {tag}, TLC enumerated {counts[tag]}")
    res.extra["wall_R_s"] = round(time.time() - t0, 1)
    # ---- T
    t0 = time.time()
    r = rng("c13-T")
    n = 1500 if q else 60000
    items = [(KINDS[i % 3], random_instance(r), False) for i in range(n)]
    run_records(res, "T", [("random", NO_BOUND, items, True)], procs if q else 16)
    res.extra["wall_T_s"] = round(time.time() - t0, 1)
    # ---- X
    if not q:
        t0 = time.time()
        explore(res, tier, 16)
        res.extra["wall_X_s"] = round(time.time() - t0, 1)
    rs = res.extra.get("resync", {})
    if rs:
        res.notes.append(
            "spec.resync (stricter than the statement, not violations): "
            + ", ".join(f"{c} x{n['count']}" for c, n in sorted(rs.items()))
        )
    res.extra["seed"] = seed()
    return res


def replay(d) -> int:
    """run.py --replay: run the stored instance again on the real scheduler and let TLC judge it."""
    det = d.get("detail", {})
    if not det.get("inst") or not det.get("kind"):
        return 0
    recs, _ = make_records([(det["kind"], det["inst"], False)], 0)
    fails, _, _ = check_records(recs, NO_BOUND)
    print(json.dumps({"answer_now": recs[0]["ans"], "failed_clauses_now": _plain(fails.get(0, {}))}, indent=1, default=str))
    return 1 if GATING in fails.get(0, {}) else 0
