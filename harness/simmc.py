"""Leg M for the simulator-side properties: exhaustive TLC exploration of SimMC.tla
(the simulator loop with an arbitrary scheduling policy) on small worlds."""
from __future__ import annotations

import os

from . import mcgen, tlc
from .common import Scratch, parallel

R = lambda n, i, q: {"name": n, "id": i, "q": q}  # noqa: E731
I = lambda n, i, c: {"name": n, "id": i, "cap": c}  # noqa: E731


def strat(q, rt):
    return {"dem": [R("gpu", "any", q)], "rt": rt, "bs": 1, "bid": 0}


def task(t, g, name, par, ch, strats, cond=False, term=False, sink=False, src=False, p0=1000000):
    return {"t": t, "g": g, "nk": [ord(c) for c in name], "par": par, "ch": ch, "cond": cond, "term": term,
            "strats": strats, "sink": sink, "src": src, "prof": 0, "p0": p0}


NOSD = {"dem": [], "rt": -1, "bs": 0, "bid": 0}
NOPLAN = {"pool": 0, "wk": 0, "sd": NOSD, "tm": -1}


def dyn(rel, dl, prob=1000000):
    return {"st": 1, "pss": 1, "rel": rel, "irel": rel, "dl": dl, "start": -1, "rem": -1, "last": -1, "fin": -1,
            "cat": -1, "pool": 0, "plan": NOPLAN, "prob": prob, "ppool": 0}


def flags(**kw):
    f = {"frequency": -1, "delay": 0, "at_worker_free": False, "drop_skipped": False, "timeout": 12, "variance": 0,
         "update_interval": -1, "expect_all_done": False, "sched_rt": 0, "no_plan_ahead": False,
         "resolve_conditionals": False}
    f.update(kw)
    return f


def cfgs(tier):
    out = []
    # A: chain a->b plus an independent c contending for one gpu
    tk = [task(1, 1, "a@G", [], [2], [strat(1, 2)], src=True), task(2, 1, "b@G", [1], [], [strat(1, 1)], sink=True),
          task(3, 2, "c@H", [], [], [strat(1, 2)], src=True, sink=True)]
    gr = [{"g": 1, "name": [71], "tasks": [1, 2], "closed": False, "jg": "G", "cp": 3, "conc": 0, "ninv": 0, "init": True},
          {"g": 2, "name": [72], "tasks": [3], "closed": False, "jg": "H", "cp": 2, "conc": 0, "ninv": 0, "init": True}]
    out.append(("chain_contention", dict(
        MCW={"pools": [[[I("gpu", "g1", 1)]]], "fl": flags(timeout=10)}, MCTasks=tk, MCGraphs=gr,
        MCInit=[dyn(0, 6), dyn(-1, 6), dyn(1, 5)], SchedRt=0, Frontier={"la": 0, "rtg": False, "retract": False}, Delays={0, 1}, MaxInvocations=3, AllowCancel=True)))
    # B: plan-ahead: the policy is offered not-yet-released tasks (TASK_NOT_READY deferral), scheduler runtime 1
    out.append(("plan_ahead", dict(
        MCW={"pools": [[[I("gpu", "g1", 2)]]], "fl": flags(timeout=10, sched_rt=1)}, MCTasks=tk[:2], MCGraphs=gr[:1],
        MCInit=[dyn(0, 6), dyn(-1, 6)], SchedRt=1, Frontier={"la": 6, "rtg": True, "retract": True}, Delays={0, 2}, MaxInvocations=2, AllowCancel=True)))
    # C: conditional a -> {b | c} -> d(terminal), drop_skipped: cancellations by the policy and by the branch
    tkc = [task(1, 1, "a@G", [], [2, 3], [strat(1, 1)], cond=True, src=True),
           task(2, 1, "b@G", [1], [4], [strat(1, 1)]), task(3, 1, "c@G", [1], [4], [strat(1, 2)]),
           task(4, 1, "d@G", [2, 3], [], [strat(1, 1)], term=True, sink=True)]
    grc = [{"g": 1, "name": [71], "tasks": [1, 2, 3, 4], "closed": False, "jg": "G", "cp": 4, "conc": 0, "ninv": 0, "init": True}]
    out.append(("conditional", dict(
        MCW={"pools": [[[I("gpu", "g1", 1)]]], "fl": flags(timeout=12, drop_skipped=True)}, MCTasks=tkc, MCGraphs=grc,
        MCInit=[dyn(0, 8), dyn(-1, 8, 500000), dyn(-1, 8, 500000), dyn(-1, 8)], SchedRt=0, Frontier={"la": 0, "rtg": False, "retract": False},
        Delays={0}, MaxInvocations=4, AllowCancel=True)))
    # C2: the same conditional resolved at submission (branch b fixed when the graph was created), plan-ahead policy
    tkr = [dict(t) for t in tkc]
    tkr[1]["p0"], tkr[2]["p0"] = 1000000, 0
    out.append(("conditional_resolved", dict(
        MCW={"pools": [[[I("gpu", "g1", 1)]]], "fl": flags(timeout=12, resolve_conditionals=True)}, MCTasks=tkr, MCGraphs=grc,
        MCInit=[dyn(0, 8), dyn(-1, 8, 1000000), dyn(-1, 8, 0), dyn(-1, 8)], SchedRt=0, Frontier={"la": 4, "rtg": False, "retract": False},
        Delays={0, 1} if tier == "thorough" else {0}, MaxInvocations=3 if tier == "thorough" else 2, AllowCancel=False)))
    # E: closed loop: three invocations of a one-task job graph, concurrency 2 (refill on completion)
    tke = [task(1, 1, "r@J0", [], [], [strat(1, 2)], src=True, sink=True), task(2, 2, "r@J1", [], [], [strat(1, 1)], src=True, sink=True),
           task(3, 3, "r@J2", [], [], [strat(1, 2)], src=True, sink=True)]
    gre = [{"g": i + 1, "name": [74, 48 + i], "tasks": [i + 1], "closed": True, "jg": "J", "cp": 2, "conc": 2, "ninv": 3, "init": i < 2}
           for i in range(3)]
    out.append(("closed_loop", dict(
        MCW={"pools": [[[I("gpu", "g1", 1)]]], "fl": flags(timeout=14)}, MCTasks=tke, MCGraphs=gre,
        MCInit=[dyn(1, 9), dyn(1, 9), dyn(-1, 12)], SchedRt=0, Frontier={"la": 0, "rtg": False, "retract": False},
        Delays={0, 1}, MaxInvocations=4, AllowCancel=False)))
    # F: trace-replay style graph (no JobGraph): Cam -> Det over two timestamps, Cam non-pipelined (Cam@1 hangs on Cam@0
    # only and carries its own release time), a policy that plans ahead
    tkf = [task(1, 1, "Cam@T@0", [], [2, 3], [strat(1, 2)], src=True), task(2, 1, "Det@T@0", [1], [], [strat(1, 1)], sink=True),
           task(3, 1, "Cam@T@1", [1], [4], [strat(1, 2)], src=True), task(4, 1, "Det@T@1", [3], [], [strat(1, 1)], sink=True)]
    grf = [{"g": 1, "name": [84], "tasks": [1, 2, 3, 4], "closed": False, "jg": "", "cp": 6, "conc": 0, "ninv": 0, "init": True}]
    (out if tier == "thorough" else []).append(("multi_timestamp", dict(
        MCW={"pools": [[[I("gpu", "g1", 2)]]], "fl": flags(timeout=12)}, MCTasks=tkf, MCGraphs=grf,
        MCInit=[dyn(0, 9), dyn(-1, 9), dyn(1, 10), dyn(-1, 10)], SchedRt=0, Frontier={"la": 3, "rtg": False, "retract": False},
        Delays={0, 1}, MaxInvocations=3 if tier == "thorough" else 2, AllowCancel=False)))
    # G: the workload arrives in two UPDATE_WORKLOAD batches added to the same workload (second update one microsecond
    # after the latest release of the first batch; a third update finds nothing and the loader answers None)
    tkg = [task(1, 1, "a@G", [], [], [strat(1, 2)], src=True, sink=True), task(2, 2, "b@H", [], [], [strat(1, 1)], src=True, sink=True),
           task(3, 3, "c@K", [], [], [strat(1, 1)], src=True, sink=True)]
    grg = [{"g": 1, "name": [71], "tasks": [1], "closed": False, "jg": "G", "cp": 2, "conc": 0, "ninv": 0, "init": True, "batch": 1},
           {"g": 2, "name": [72], "tasks": [2], "closed": False, "jg": "H", "cp": 1, "conc": 0, "ninv": 0, "init": True, "batch": 2},
           {"g": 3, "name": [75], "tasks": [3], "closed": False, "jg": "K", "cp": 1, "conc": 0, "ninv": 0, "init": True, "batch": 2}]
    out.append(("batched_updates", dict(
        MCW={"pools": [[[I("gpu", "g1", 1)]]], "fl": flags(timeout=12)}, MCTasks=tkg, MCGraphs=grg,
        MCInit=[dyn(1, 8), dyn(3, 8), dyn(2, 8)], SchedRt=0, Frontier={"la": 0, "rtg": False, "retract": False},
        Delays={0, 1} if tier == "thorough" else {0}, MaxInvocations=3 if tier == "thorough" else 2, AllowCancel=tier == "thorough")))
    if tier == "thorough":
        # D: two heterogeneous pools, two strategies, frequency 2, scheduler runtime 1
        tkd = [task(1, 1, "a@G", [], [3], [strat(1, 2), strat(2, 1)], src=True),
               task(2, 1, "b@G", [], [3], [strat(1, 1)], src=True),
               task(3, 1, "c@G", [1, 2], [], [strat(2, 1)], sink=True)]
        grd = [{"g": 1, "name": [71], "tasks": [1, 2, 3], "closed": False, "jg": "G", "cp": 3, "conc": 0, "ninv": 0, "init": True}]
        out.append(("two_pools", dict(
            MCW={"pools": [[[I("gpu", "g1", 1)]], [[I("gpu", "g2", 2)]]], "fl": flags(timeout=12, frequency=2, sched_rt=1)},
            MCTasks=tkd, MCGraphs=grd, MCInit=[dyn(0, 7), dyn(1, 7), dyn(-1, 7)], SchedRt=1, Frontier={"la": 0, "rtg": False, "retract": False},
            Delays={0, 1}, MaxInvocations=3, AllowCancel=True)))
        out.append(("plan_ahead_diamond", dict(
            MCW={"pools": [[[I("gpu", "g1", 2)]]], "fl": flags(timeout=14)},
            MCTasks=[task(1, 1, "a@G", [], [2, 3], [strat(1, 1)], src=True), task(2, 1, "b@G", [1], [4], [strat(1, 2)]),
                     task(3, 1, "c@G", [1], [4], [strat(1, 1)]), task(4, 1, "d@G", [2, 3], [], [strat(1, 1)], sink=True)],
            MCGraphs=[{"g": 1, "name": [71], "tasks": [1, 2, 3, 4], "closed": False, "jg": "G", "cp": 4, "conc": 0, "ninv": 0, "init": True}],
            MCInit=[dyn(0, 9), dyn(-1, 9), dyn(-1, 9), dyn(-1, 9)], SchedRt=0, Frontier={"la": 6, "rtg": True, "retract": True}, Delays={0, 1},
            MaxInvocations=2, AllowCancel=True)))
    return out


INVARIANTS = ["MC_C19", "MC_C18", "MC_C01", "MC_C02", "MC_C03", "MC_C04", "MC_C06", "MC_C07", "MC_C08", "MC_C05_End", "MC_NoCrash", "MC_TimeBound"]
PROPERTIES = ["MC_Clock", "MC_Legal", "MC_ExactRuntime", "MC_Terminates"]

OWN = {
    "MC_C19": ["C19"], "MC_C18": ["C18"], "MC_C01": ["C01"], "MC_C02": ["C02"], "MC_C03": ["C03"], "MC_C04": ["C04"], "MC_C06": ["C06"], "MC_C07": ["C07"],
    "MC_C08": ["C08"], "MC_C05_End": ["C05"], "MC_NoCrash": ["C05"], "MC_TimeBound": ["C05"], "MC_Clock": ["C03"],
    "MC_Legal": ["C06"], "MC_ExactRuntime": ["C03"], "MC_Terminates": ["C05"], "temporal": ["C05", "C03", "C06"],
}


def tier_dev():
    return bool(os.environ.get("SIMMC_DEV"))


def _run(name, consts):
    with Scratch() as scratch:
        mod, cfg = mcgen.write_mc(scratch, "SimMC", consts, name=f"MC_SimMC_{name}", invariants=INVARIANTS, properties=PROPERTIES)
        # -coverage 1 makes TLC exhaust its heap on the deeply recursive handler operators: run without it
        r = tlc.run_tlc(mod, cfg, workers=8, coverage=False, java_opts=mcgen.LIB_OPT, timeout=600 if tier_dev() else 3000)
    return {
        "name": name, "ok": r.ok, "distinct": r.distinct, "generated": r.generated, "depth": r.depth, "wall": round(r.wall_s, 1),
        "coverage": {k: list(v) for k, v in r.coverage.items()}, "kind": r.violation_kind, "viol": r.violation_name,
        "trace": [[h, {k: (v if k != "S" else {kk: vv for kk, vv in v.items() if kk in ("now", "q", "ts", "cl", "fut", "sch")})
                       for k, v in st.items()}] for h, st in r.trace[-6:]],
    }


def run_all(tier):
    return parallel(_run, cfgs(tier), procs=4)


def cached_runs(tier):
    import hashlib
    import json

    from .common import VERIF
    from .simprops import CACHE_DIR

    h = hashlib.sha1()
    for fn in ("spec/Simulator.tla", "spec/SimMC.tla", "spec/LedgerOps.tla", "harness/simmc.py"):
        with open(os.path.join(VERIF, fn), "rb") as f:
            h.update(f.read())
    os.makedirs(CACHE_DIR, exist_ok=True)
    path = os.path.join(CACHE_DIR, f"simmc_{h.hexdigest()[:16]}_{tier}.json")
    if os.path.exists(path):
        with open(path) as f:
            return json.load(f)
    runs = run_all(tier)
    with open(path, "w") as f:
        json.dump(runs, f, default=str)
    return runs


def check(pid, tier, res):
    """Add the verdicts of the exhaustive runs owned by `pid`."""
    for r in cached_runs(tier):
        res.states += r["distinct"]
        res.transitions += r["generated"]
        res.extra.setdefault("tlc_runs", []).append(
            {"name": f"SimMC/{r['name']}", "distinct_states": r["distinct"], "states_generated": r["generated"],
             "depth": r["depth"], "wall_s": r["wall"], "coverage": r["coverage"]})
        if not r["ok"]:
            owners = OWN.get(r["viol"], ["C05"])
            if pid in owners:
                res.violate(f"{pid}.{r['viol']}", f"TLC: {r['kind']} {r['viol']} violated in SimMC/{r['name']}",
                            {"trace_tail": r["trace"]}, key=f"simmc:{r['name']}:{r['viol']}")
            else:
                res.notes.append(f"SimMC/{r['name']} stopped early on {r['viol']} (owned by {owners}); exploration incomplete")
    return res


if __name__ == "__main__":
    import sys

    for r in run_all(sys.argv[1] if len(sys.argv) > 1 else "quick"):
        print(r["name"], r["ok"], r["distinct"], r["generated"], r["depth"], r["wall"], r["kind"], r["viol"])
        if not r["ok"]:
            for h, st in r["trace"]:
                print("  ", h, {k: v for k, v in st.items() if k != "S"}, st.get("S", {}).get("now"),
                      [(e["ty"], e["tm"], e["t"]) for e in st.get("S", {}).get("q", [])],
                      [d["st"] for d in st.get("S", {}).get("ts", [])])


# ---------------------------------------------------------------------------
# Leg R for the simulator: behaviours simulated by TLC on SimMC become decision scripts that are played into the real
# Simulator (ScriptedScheduler); the resulting traces are validated by SimTrace like any other corpus world.


def mc_world(name, consts, script):
    """MC constants -> world description for harness/worlds.py (one job graph per MC graph, released once)."""
    tk, gr, init = consts["MCTasks"], consts["MCGraphs"], consts["MCInit"]
    tname = {t["t"]: "".join(chr(c) for c in t["nk"]).split("@")[0] for t in tk}
    profiles, graphs = [], []
    jgs = {}
    for g in gr:
        jgs.setdefault(g["jg"], []).append(g)
    for jg, gl in jgs.items():
        g0 = gl[0]
        jobs = []
        for t in g0["tasks"]:
            st = tk[t - 1]
            profiles.append({"name": f"P{len(profiles)}", "strats": [{"dem": s["dem"], "rt": s["rt"], "bs": s["bs"]} for s in st["strats"]]})
            job = {"name": tname[t], "profile": len(profiles) - 1, "children": [tname[c] for c in st["ch"]],
                   "cond": st["cond"], "term": st["term"]}
            if init[t - 1]["prob"] != 1000000:
                job["prob"] = init[t - 1]["prob"] / 1000000.0
            jobs.append(job)
        rel = min(init[t - 1]["rel"] for t in g0["tasks"] if tk[t - 1]["src"])
        if g0["closed"]:
            pol = {"type": "closed_loop", "conc": g0["conc"], "n": g0["ninv"], "start": rel}
        else:
            pol = {"type": "fixed", "period": 1, "n": 1, "start": rel}
        graphs.append({"name": jg, "jobs": jobs, "policy": pol, "dv": [0, 0]})
    fl = consts["MCW"]["fl"]
    fr = consts["Frontier"]
    return {
        "name": f"mc_{name}", "profiles": profiles, "graphs": graphs, "pools": consts["MCW"]["pools"],
        "sched": {"kind": "scripted", "runtime": consts["SchedRt"], "lookahead": fr["la"], "rtg": fr["rtg"], "retract": fr["retract"],
                  "script": script},
        "flags": {k: fl[k] for k in ("frequency", "delay", "at_worker_free", "drop_skipped", "timeout", "variance", "resolve_conditionals")},
        "seed": 1,
    }


def _scripts_of(name, consts, n, depth, sd):
    import glob

    tk, gr = consts["MCTasks"], consts["MCGraphs"]
    gname = {g["g"]: g["jg"] for g in gr}
    # invocation index of a graph inside its job graph (closed loop: J@0, J@1, ...)
    ginv, seen = {}, {}
    for g in gr:
        ginv[g["g"]] = seen.get(g["jg"], 0)
        seen[g["jg"]] = ginv[g["g"]] + 1
    tref = {t["t"]: "".join(chr(c) for c in t["nk"]).split("@")[0] + f"@{gname[t['g']]}@{ginv[t['g']]}" for t in tk}
    out = []
    with Scratch() as scratch:
        mod, cfg = mcgen.write_mc(scratch, "SimMC", consts, name=f"MC_SimMC_{name}_sim")
        base = os.path.join(scratch, "beh")
        tlc.run_tlc(mod, cfg, workers=1, simulate=f"file={base},num={n}", depth=depth, seed=sd, coverage=False,
                    java_opts=mcgen.LIB_OPT, timeout=900, allow_timeout=True)
        for f in sorted(glob.glob(base + "*")):
            beh = tlc.load_behaviour(f)
            script = []
            for (_, a), (_, b) in zip(beh, beh[1:]):
                Sa, Sb = a["S"], b["S"]
                if Sa["sch"]["pend"] == 0 and Sb["sch"]["pend"] == 1:
                    decs = []
                    for d in Sb["pd"]["decs"]:
                        t = d["t"]
                        if d["kind"] == 3:
                            decs.append({"task": tref[t], "do": "cancel"})
                        elif not d["placed"]:
                            decs.append({"task": tref[t], "do": "unplaced"})
                        else:
                            strats = tk[t - 1]["strats"]
                            si = next((i + 1 for i, s in enumerate(strats) if s["rt"] == d["sd"]["rt"] and s["dem"] == d["sd"]["dem"]), 1)
                            decs.append({"task": tref[t], "do": "place", "pool": d["pool"], "strategy": si, "time": d["tm"]})
                    script.append({"at": Sb["now"], "decs": decs})
            if any(e["decs"] for e in script):
                out.append(script)
    return out


def script_worlds(tier, sd=0):
    """Worlds whose decision scripts come from TLC-simulated behaviours of SimMC."""
    n, depth = (10, 60) if tier == "quick" else (150, 90)
    # configurations mc_world() cannot express as a JobGraph world (trace-replay graphs, batched loader) are left out
    jobs = [(name, consts, n, depth, sd + i) for i, (name, consts) in enumerate(cfgs("thorough"))
            if name not in ("multi_timestamp", "batched_updates")]
    worlds = []
    for (name, consts, *_), scripts in zip(jobs, parallel(_scripts_of, jobs, procs=6)):
        seen = set()
        for sc in scripts:
            key = repr(sc)
            if key in seen:
                continue
            seen.add(key)
            worlds.append(mc_world(name, consts, sc))
    return worlds
