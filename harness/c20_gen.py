"""C20: generators of STRL expression DAGs (inputs only -- no semantics here).

A tree is a JSON-able dict
  {"id", "partitions": [{"id","name","quantity"}], "nodes": [node...], "root", "now", "H"}
with nodes in the vocabulary of strl_driver/driver.cpp.  Leaf names are unique (they
are the task names under which the library reports placements).
"""
from __future__ import annotations

import itertools
import json
import re


class B:
    """Small builder: every method returns the id of the node it created."""

    def __init__(self, quantities, now=0, H=6, tid="t"):
        self.parts = [{"id": i + 1, "name": f"p{i+1}", "quantity": q} for i, q in enumerate(quantities)]
        self.nodes = []
        self.now = now
        self.H = H
        self.tid = tid
        self._k = 0

    def _add(self, typ, prefix, **kw):
        self._k += 1
        nid = f"n{self._k}"
        n = {"id": nid, "type": typ, "name": f"{prefix}{self._k}", "children": []}
        n.update(kw)
        self.nodes.append(n)
        return nid

    def _ps(self, ps):
        return list(ps) if ps is not None else [p["id"] for p in self.parts]

    def choose(self, start, dur, num=1, util=1, ps=None, name=None):
        nid = self._add("Choose", "t", partitions=self._ps(ps), num=num, start=start, duration=dur, utility=util)
        if name is not None:
            # the Python caller names every option of a task after the task: several leaves, one name
            self.nodes[-1]["name"] = name
        return nid

    def wchoose(self, start, end, dur, num=1, util=1, gran=1, ps=None):
        return self._add("WindowedChoose", "t", partitions=self._ps(ps), num=num, start=start, duration=dur, end=end, granularity=gran, utility=util)

    def mchoose(self, start, end, slots, util=1, gran=1, ps=None):
        return self._add("MalleableChoose", "t", partitions=self._ps(ps), slots=slots, start=start, end=end, granularity=gran, utility=util)

    def alloc(self, start, dur, alloc):
        return self._add("Allocation", "a", alloc=[list(a) for a in alloc], start=start, duration=dur)

    def max(self, *ch):
        return self._add("Max", "max", children=list(ch))

    def min(self, *ch):
        return self._add("Min", "min", children=list(ch))

    def lt(self, a, b):
        return self._add("LessThan", "lt", children=[a, b])

    def scale(self, factor, c, disregard=False):
        return self._add("Scale", "sc", children=[c], factor=factor, disregard=disregard)

    def obj(self, *ch):
        return self._add("Objective", "obj", children=list(ch))

    def tree(self, root, tid=None, tags=()):
        return {
            "id": tid or self.tid,
            "partitions": self.parts,
            "nodes": self.nodes,
            "root": root,
            "now": self.now,
            "H": self.H,
            "tags": list(tags),
        }


def canonical(tree: dict) -> str:
    """Stable text of a tree (used for de-duplication and for finding keys)."""
    t = {k: tree[k] for k in ("partitions", "nodes", "root", "now")}
    return json.dumps(t, sort_keys=True, separators=(",", ":"))


def leaves(tree):
    return [n for n in tree["nodes"] if n["type"] in ("Choose", "WindowedChoose", "MalleableChoose")]


def sexpr(tree: dict, nid=None, seen=None) -> str:
    """Compact human-readable rendering, shared nodes shown as #id on later visits."""
    byid = {n["id"]: n for n in tree["nodes"]}
    seen = set() if seen is None else seen
    nid = nid or tree["root"]
    n = byid[nid]
    if nid in seen:
        return f"#{n['name']}"
    seen.add(nid)
    t = n["type"]
    if t == "Choose":
        return f"Choose[{n['name']} p{n['partitions']} n{n['num']} s{n['start']} d{n['duration']} u{n['utility']}]"
    if t == "WindowedChoose":
        return f"WChoose[{n['name']} p{n['partitions']} n{n['num']} s{n['start']}..{n['end']} d{n['duration']} g{n['granularity']} u{n['utility']}]"
    if t == "MalleableChoose":
        return f"MChoose[{n['name']} p{n['partitions']} slots{n['slots']} s{n['start']} e{n['end']} g{n['granularity']} u{n['utility']}]"
    if t == "Allocation":
        return f"Alloc[{n['name']} {n['alloc']} s{n['start']} d{n['duration']}]"
    inner = ", ".join(sexpr(tree, c, seen) for c in n["children"])
    if t == "Scale":
        return f"Scale{'!' if n.get('disregard') else ''}({n['factor']}, {inner})"
    return f"{t}({inner})"


# ---------------------------------------------------------------------------
# systematic families (quick tier): every operator, alone and combined, in
# situations where capacity, ordering or the choice structure actually bind


def _fam(out, name, b, root, tags=()):
    out.append(b.tree(root, tid=f"{name}_{len(out)}", tags=(name,) + tuple(tags)))


def systematic():
    out = []
    # --- single leaves and plain contention -------------------------------------
    for q in ([1], [2], [1, 1], [2, 1]):
        for num in (1, 2, 3):
            b = B(q)
            _fam(out, "choose", b, b.obj(b.choose(0, 2, num=num, util=2)))
    for q in ([1], [2], [1, 1]):
        b = B(q)
        _fam(out, "choose2", b, b.obj(b.choose(0, 2, util=2), b.choose(1, 2, util=3)))
        b = B(q)
        _fam(out, "choose2", b, b.obj(b.choose(0, 2, num=2, util=2), b.choose(2, 2, num=2), b.choose(1, 1)))
        b = B(q)
        _fam(out, "choose_ps", b, b.obj(b.choose(0, 3, ps=[1], util=2), b.choose(2, 2, ps=[len(q)]), b.choose(0, 1)))
    # --- Max ---------------------------------------------------------------------
    for q in ([1], [2], [1, 1]):
        b = B(q)
        _fam(out, "max", b, b.obj(b.max(b.choose(0, 2, util=1), b.choose(1, 2, util=3), b.choose(3, 2, util=2))))
        b = B(q)
        m1 = b.max(b.choose(0, 2, util=2), b.choose(2, 2, util=1))
        m2 = b.max(b.choose(0, 3, util=2), b.choose(2, 2, util=1))
        m3 = b.max(b.choose(1, 2, util=2), b.choose(3, 1, util=1))
        _fam(out, "max3", b, b.obj(m1, m2, m3))
        b = B(q)
        _fam(out, "max_num", b, b.obj(b.max(b.choose(0, 2, num=2, util=3), b.choose(1, 1, num=1, util=1)), b.max(b.choose(1, 2, util=2))))
    # --- Min ---------------------------------------------------------------------
    for q in ([1], [2], [1, 2]):
        b = B(q)
        _fam(out, "min", b, b.obj(b.min(b.choose(0, 2, util=2), b.choose(1, 2, util=1))))
        b = B(q)
        _fam(out, "min", b, b.obj(b.min(b.choose(0, 2), b.choose(2, 2, num=2)), b.choose(1, 2, util=3)))
        b = B(q)
        a = b.max(b.choose(0, 2), b.choose(2, 2))
        c = b.max(b.choose(0, 2, util=2), b.choose(3, 2))
        _fam(out, "min_max", b, b.obj(b.min(a, c), b.max(b.choose(1, 3, util=2))))
        b = B(q)
        _fam(out, "min_min", b, b.obj(b.min(b.min(b.choose(0, 1), b.choose(1, 1)), b.max(b.choose(0, 2), b.choose(2, 2)))))
    # --- LessThan (children with variable times, as the Python caller builds them) --
    for q in ([1], [2]):
        b = B(q)
        a = b.max(b.choose(0, 2), b.choose(1, 2))
        c = b.max(b.choose(2, 1), b.choose(3, 1))
        _fam(out, "lt", b, b.obj(b.lt(a, c)))
        b = B(q)
        a = b.max(b.choose(0, 2, util=2), b.choose(2, 2))
        c = b.max(b.choose(1, 2, util=3), b.choose(3, 2))
        _fam(out, "lt", b, b.obj(b.lt(a, c), b.max(b.choose(0, 4))))
        b = B(q)
        a = b.max(b.choose(0, 1), b.choose(1, 1))
        m = b.max(b.choose(1, 1), b.choose(2, 1))
        c = b.max(b.choose(2, 1), b.choose(3, 1))
        _fam(out, "lt_chain", b, b.obj(b.lt(a, b.lt(m, c))))
        b = B(q)
        a = b.max(b.choose(0, 2), b.choose(1, 2))
        c = b.max(b.choose(2, 2), b.choose(3, 1))
        d = b.max(b.choose(2, 1, util=2), b.choose(4, 1))
        _fam(out, "lt_shared", b, b.obj(b.min(b.lt(a, c), b.lt(a, d))), tags=("dag",))
        b = B(q)
        a = b.max(b.choose(1, 2), b.choose(0, 2))
        _fam(out, "lt_min", b, b.obj(b.lt(b.min(a, b.max(b.choose(0, 1))), b.max(b.choose(2, 1), b.choose(3, 1)))))
        b = B(q)
        _fam(out, "lt_impossible", b, b.obj(b.lt(b.max(b.choose(2, 2)), b.max(b.choose(0, 2), b.choose(3, 1))), b.choose(0, 1)))
    # --- orderings whose best option sits exactly on the bound (critical-path pruning) ----
    for q in ([1], [2]):
        b = B(q)
        _fam(out, "lt_tight", b, b.obj(b.lt(b.max(b.choose(0, 2)), b.max(b.choose(1, 1, util=2), b.choose(2, 1, util=3), b.choose(3, 1)))))
        b = B(q)
        _fam(out, "lt_tight", b, b.obj(b.lt(b.max(b.choose(0, 2), b.choose(1, 2, util=3), b.choose(2, 2, util=2)), b.max(b.choose(3, 1)))))
        b = B(q)
        _fam(out, "lt_tight_w", b, b.obj(b.lt(b.wchoose(0, 0, 2), b.wchoose(0, 3, 1)), b.choose(3, 1, util=5)))
        b = B(q)
        _fam(out, "lt_tight_w", b, b.obj(b.lt(b.wchoose(0, 3, 2), b.wchoose(3, 3, 1)), b.choose(0, 1, util=5)))
    # --- Scale -------------------------------------------------------------------
    for q in ([1], [1, 1]):
        b = B(q)
        _fam(out, "scale", b, b.obj(b.scale(3, b.max(b.choose(0, 2, util=2), b.choose(1, 2))), b.choose(1, 1, util=4)))
        b = B(q)
        _fam(out, "scale", b, b.obj(b.scale(2, b.min(b.choose(0, 2), b.choose(2, 1))), b.scale(0, b.choose(0, 1))))
        b = B(q)
        _fam(out, "scale_disregard", b, b.obj(b.scale(5, b.max(b.choose(0, 2, util=2), b.choose(1, 2)), disregard=True), b.choose(1, 2, util=3)))
        b = B(q)
        _fam(out, "scale_scale", b, b.obj(b.scale(2, b.scale(3, b.choose(0, 1))), b.choose(0, 1, util=5)))
    # --- Allocation ----------------------------------------------------------------
    for q in ([1], [2], [1, 1]):
        b = B(q)
        _fam(out, "alloc", b, b.obj(b.alloc(0, 2, [(1, 1)]), b.max(b.choose(0, 2), b.choose(2, 1))))
        b = B(q)
        _fam(out, "alloc_lt", b, b.obj(b.lt(b.alloc(0, 2, [(1, 1)]), b.max(b.choose(1, 1), b.choose(2, 1), b.choose(3, 1)))))
        b = B(q)
        _fam(out, "alloc_min", b, b.obj(b.min(b.alloc(0, 1, [(1, 1)]), b.max(b.choose(0, 2), b.choose(1, 2)))))
    b = B([2])
    _fam(out, "alloc_only", b, b.obj(b.min(b.alloc(0, 2, [(1, 1)]))))
    # --- shared sub-expressions ---------------------------------------------------
    for q in ([1], [2]):
        b = B(q)
        a = b.max(b.choose(0, 2), b.choose(2, 2))
        _fam(out, "shared", b, b.obj(b.scale(2, a), b.min(a, b.max(b.choose(0, 1), b.choose(4, 1)))), tags=("dag",))
        b = B(q)
        c = b.choose(0, 2, util=2)
        _fam(out, "shared_leaf", b, b.obj(b.min(c, b.choose(2, 1)), b.min(c, b.choose(3, 1))), tags=("dag",))
    # --- WindowedChoose -------------------------------------------------------------
    for q in ([1], [2], [1, 1]):
        b = B(q)
        _fam(out, "windowed", b, b.obj(b.wchoose(0, 3, 2, util=2)))
        b = B(q)
        _fam(out, "windowed2", b, b.obj(b.wchoose(0, 2, 2, util=2), b.wchoose(0, 2, 2, util=1), b.choose(1, 1)))
        b = B(q)
        _fam(out, "windowed_lt", b, b.obj(b.lt(b.wchoose(0, 2, 2), b.wchoose(0, 3, 1))))
        b = B(q)
        _fam(out, "windowed_min", b, b.obj(b.min(b.wchoose(0, 2, 1, num=2), b.wchoose(0, 2, 2)), b.max(b.choose(0, 1, util=3))))
        b = B(q)
        _fam(out, "windowed_max", b, b.obj(b.max(b.wchoose(0, 2, 2, util=2), b.choose(3, 1, util=1)), b.choose(0, 3)))
    # --- MalleableChoose ------------------------------------------------------------
    for q in ([1], [2], [1, 1]):
        b = B(q)
        _fam(out, "malleable", b, b.obj(b.mchoose(0, 3, 2, util=2)))
        b = B(q)
        _fam(out, "malleable2", b, b.obj(b.mchoose(0, 3, 3, util=2), b.choose(1, 1, util=1)))
        b = B(q)
        _fam(out, "malleable_lt", b, b.obj(b.lt(b.mchoose(0, 3, 2), b.max(b.choose(1, 1), b.choose(2, 1), b.choose(3, 1)))))
        b = B(q)
        _fam(out, "malleable_min", b, b.obj(b.min(b.mchoose(0, 2, 2), b.max(b.choose(0, 1), b.choose(1, 1)))))
    # --- now > 0: expressions in the past -------------------------------------------
    for q in ([1], [2]):
        b = B(q, now=2)
        _fam(out, "past", b, b.obj(b.max(b.choose(0, 2, util=5), b.choose(2, 2), b.choose(3, 1)), b.choose(1, 3, util=4)))
        b = B(q, now=2)
        _fam(out, "past_min", b, b.obj(b.min(b.choose(1, 2, util=5), b.choose(2, 2)), b.choose(2, 1)))
        b = B(q, now=2)
        _fam(out, "past_alloc", b, b.obj(b.alloc(0, 3, [(1, 1)]), b.max(b.choose(2, 2), b.choose(3, 1))))
    # --- grid-aligned trees (run at discretisation 1, 2 and 3) ----------------------
    for g in (2, 3):
        for q in ([1], [2], [1, 1]):
            b = B(q)
            _fam(out, f"grid{g}", b, b.obj(b.max(b.choose(0, 1), b.choose(g, 2)), b.max(b.choose(0, g + 1, util=2), b.choose(g, 1)), b.choose(g, g)))
            b = B(q)
            a = b.max(b.choose(0, 1), b.choose(g, 1))
            c = b.max(b.choose(g, 2), b.choose(2 * g, 1))
            _fam(out, f"grid{g}_lt", b, b.obj(b.lt(a, c), b.choose(0, g - 1, util=2)))
            b = B(q)
            _fam(out, f"grid{g}_w", b, b.obj(b.wchoose(0, 2 * g, 2, util=2), b.choose(g, 1), b.alloc(0, 1, [(1, 1)])))
            b = B(q)
            _fam(out, f"grid{g}_min", b, b.obj(b.min(b.choose(0, g - 1), b.choose(g, 1)), b.min(b.choose(0, 1, util=2), b.choose(2 * g, 1))))
    # --- the options of one task carry the task's name (what the Python caller builds) ----
    for q in ([1], [2]):
        b = B(q)
        ta = b.max(b.choose(0, 2, name="taskA", util=2), b.choose(1, 2, name="taskA"), b.choose(3, 1, name="taskA"))
        tb = b.max(b.choose(0, 2, name="taskB"), b.choose(2, 2, name="taskB", util=2))
        _fam(out, "same_name", b, b.obj(ta, tb))
        b = B(q)
        ta = b.max(b.choose(0, 2, name="taskA"), b.choose(1, 2, name="taskA"))
        tb = b.max(b.choose(2, 1, name="taskB"), b.choose(3, 1, name="taskB"))
        tc = b.max(b.choose(2, 2, name="taskC"), b.choose(4, 1, name="taskC"))
        _fam(out, "same_name_graph", b, b.obj(b.lt(ta, b.min(tb, tc))))
    # --- a running task (Allocation) ordered before options that cannot all follow it -----
    for q in ([1], [2]):
        b = B(q)
        _fam(out, "alloc_lt_blocked", b, b.obj(b.lt(b.alloc(0, 2, [(1, 1)]), b.max(b.choose(1, 1))), b.choose(2, 1, util=3)))
        b = B(q)
        _fam(out, "alloc_lt_blocked", b, b.obj(b.lt(b.alloc(0, 3, [(1, 1)]), b.max(b.choose(1, 1), b.choose(3, 1, num=3))), b.max(b.choose(3, 1, util=2))))
    # --- an ordering that cannot be met, first child a WindowedChoose ----------------------
    b = B([2])
    _fam(out, "lt_impossible_w", b, b.obj(b.lt(b.wchoose(0, 2, 1), b.max(b.choose(0, 1, util=3))), b.choose(1, 1)))
    b = B([2])
    _fam(out, "lt_impossible_w", b, b.obj(b.lt(b.wchoose(0, 2, 2), b.max(b.choose(0, 1, util=3))), b.choose(2, 1)))
    # --- critical-path pruning leaves a Max with nothing but an option in the past ----------
    b = B([1, 1], now=1)
    _fam(out, "past_lt", b, b.obj(b.lt(b.max(b.choose(0, 2, num=2, util=3), b.choose(3, 2)), b.max(b.choose(3, 2, ps=[2], util=3)))))
    # --- a window that opens before `now` --------------------------------------------------
    b = B([1], now=2)
    _fam(out, "past_windowed", b, b.obj(b.wchoose(0, 3, 1, util=2)))
    # --- LessThan over children with constant times (not built by the Python caller) --
    b = B([1])
    _fam(out, "lt_const", b, b.obj(b.lt(b.choose(0, 2), b.choose(2, 2))), tags=("lt_const",))
    b = B([2])
    _fam(out, "lt_const", b, b.obj(b.min(b.lt(b.choose(0, 2), b.choose(2, 2)), b.max(b.choose(0, 1)))), tags=("lt_const",))
    return out


# ---------------------------------------------------------------------------
# seeded random DAGs


def random_tree(rng, k, max_leaves=4, max_depth=3, kinds=("Choose", "WindowedChoose", "MalleableChoose", "Allocation")):
    nparts = rng.choice([1, 1, 2])
    q = [rng.choice([1, 2]) for _ in range(nparts)]
    align = rng.choice([1, 1, 2, 3])
    now = rng.choice([0, 0, 0, align])
    H = 6
    b = B(q, now=now, H=H)
    budget = [rng.randint(1, max_leaves)]
    wide = [0]  # WindowedChoose / MalleableChoose leaves so far (at most two: Best(tree) is brute force)
    pool = []  # finished shareable sub-expressions

    def starts():
        # callers never hand the library options in the past (directed families cover them)
        return [s for s in range(now, H - 1) if s % align == 0]

    def ps():
        allp = list(range(1, nparts + 1))
        if nparts > 1 and rng.random() < 0.3:
            return [rng.choice(allp)]
        return allp

    def choose(task=None):
        budget[0] -= 1
        s = rng.choice(starts())
        return b.choose(s, rng.randint(1, min(3, H - s)), num=rng.choice([1, 1, 2]), util=rng.randint(1, 3), ps=ps(), name=task)

    def leafish(allow_const=True):
        r = rng.random()
        if r < 0.12 and "WindowedChoose" in kinds and wide[0] < 2:
            budget[0] -= 1
            wide[0] += 1
            s = rng.choice(starts())
            e = rng.choice([x for x in starts() if x >= s])
            return b.wchoose(s, e, rng.randint(1, 2), num=rng.choice([1, 1, 2]), util=rng.randint(1, 3), ps=ps())
        if r < 0.20 and "MalleableChoose" in kinds and align == 1 and wide[0] < 2:
            budget[0] -= 1
            wide[0] += 1
            s = rng.randint(now, max(now, 2))
            e = rng.randint(s + 1, min(s + 3, H))
            return b.mchoose(s, e, rng.randint(1, 3), util=rng.randint(1, 3), ps=ps())
        if r < 0.26 and allow_const and "Allocation" in kinds:
            s = rng.choice(starts())
            return b.alloc(s, rng.randint(1, 2), [(rng.randint(1, nparts), 1)])
        n = rng.randint(1, max(1, min(3, budget[0])))
        task = f"task{len(b.nodes)}" if rng.random() < 0.5 else None
        used = set()
        kids = []
        for _ in range(n):
            c = choose(task)
            key = (b.nodes[-1]["start"], b.nodes[-1]["duration"])
            if task and b.nodes[-1]["start"] in used:
                b.nodes[-1]["name"] = f"t{len(b.nodes)}"  # two options of a task never share a start time
            used.add(b.nodes[-1]["start"])
            kids.append(c)
        return b.max(*kids)

    def expr(depth):
        if pool and rng.random() < 0.15:
            return rng.choice(pool)
        if depth >= max_depth - 1 or budget[0] <= 1 or rng.random() < 0.3:
            e = leafish()
        else:
            r = rng.random()
            if r < 0.35:
                x, y = expr(depth + 1), expr(depth + 1)
                e = b.min(x, y) if x != y else b.min(x)
            elif r < 0.75:
                x, y = expr(depth + 1), expr(depth + 1)
                if x == y:
                    e = b.scale(rng.randint(2, 3), x)
                else:
                    e = b.lt(x, y)
            else:
                e = b.scale(rng.randint(1, 3), expr(depth + 1), disregard=rng.random() < 0.25)
        pool.append(e)
        return e

    tops = []
    for _ in range(rng.choice([1, 1, 2, 3])):
        e = expr(1)
        if e not in tops:
            tops.append(e)
        if budget[0] <= 0:
            break
    t = b.tree(b.obj(*tops), tid=f"rnd{k}", tags=("random",))
    # drop nodes that ended up unreachable (created but replaced by a shared one)
    reach, stack = set(), [t["root"]]
    byid = {n["id"]: n for n in t["nodes"]}
    while stack:
        x = stack.pop()
        if x in reach:
            continue
        reach.add(x)
        stack += byid[x].get("children", [])
    t["nodes"] = [n for n in t["nodes"] if n["id"] in reach]
    return t


# ---------------------------------------------------------------------------
# exhaustive bound (thorough tier)


def bounded(bound="B3"):
    """All trees Objective(e1[, e2]) with
         e ::= Max(c{1..2}) | Min(e, e) | LessThan(e, e) | Scale(2, e)      (depth <= 2 below the root)
         c ::= Choose(start in 0..2, duration in 1..2, num in 1..2, utility in 1..2 by position)
       over one partition of quantity 1 or 2, at most 3 Choose leaves in total; children of the
       commutative operators are taken up to order."""
    starts, durs, nums = (0, 1, 2), (1, 2), (1, 2)
    leaf_params = [(s, d, n) for s in starts for d in durs for n in nums]

    def maxes(nleaves):
        # a Max over 1..2 chooses (unordered), described by parameter tuples
        out = []
        if nleaves >= 1:
            out += [(("max", (p,)), 1) for p in leaf_params]
        if nleaves >= 2:
            out += [(("max", (p, r)), 2) for p, r in itertools.combinations(leaf_params, 2)]
        return out

    def exprs(depth, nleaves):
        out = list(maxes(nleaves))
        if depth < 2:
            for (a, la) in exprs(depth + 1, nleaves - 1):
                out.append((("scale", a), la))
                for (c, lc) in exprs(depth + 1, nleaves - la):
                    out.append((("lt", a, c), la + lc))
                    if repr(a) <= repr(c):
                        out.append((("min", a, c), la + lc))
        return out

    def build(b, e, util):
        kind = e[0]
        if kind == "max":
            return b.max(*[b.choose(s, d, num=n, util=next(util)) for (s, d, n) in e[1]])
        if kind == "scale":
            return b.scale(2, build(b, e[1], util))
        if kind == "lt":
            return b.lt(build(b, e[1], util), build(b, e[2], util))
        return b.min(build(b, e[1], util), build(b, e[2], util))

    trees = []
    k = 0
    for q in ([1], [2]):
        for (e1, l1) in exprs(1, 3):
            tops = [[e1]]
            if l1 < 3:
                tops += [[e1, e2] for (e2, l2) in exprs(1, 3 - l1) if repr(e1) <= repr(e2)]
            for tp in tops:
                b = B(q, H=5)
                util = itertools.cycle([1, 2])
                roots = [build(b, e, util) for e in tp]
                trees.append(b.tree(b.obj(*roots), tid=f"{bound}_{k}", tags=("bounded",)))
                k += 1
    return trees


# ---------------------------------------------------------------------------


def alloc_consistent(tree):
    """Input well-formedness: the running tasks (Allocations) alone fit the partitions."""
    use = {}
    for n in tree["nodes"]:
        if n["type"] == "Allocation":
            for p, q in n["alloc"]:
                for t in range(n["start"], n["start"] + n["duration"]):
                    use[(p, t)] = use.get((p, t), 0) + q
    cap = {p["id"]: p["quantity"] for p in tree["partitions"]}
    return all(v <= cap[p] for (p, _), v in use.items())


def _maps(tree):
    byid = {n["id"]: n for n in tree["nodes"]}
    desc = {}

    def d(nid):
        if nid not in desc:
            out = {nid}
            for c in byid[nid].get("children", []):
                out |= d(c)
            desc[nid] = out
        return desc[nid]

    for n in tree["nodes"]:
        d(n["id"])
    return byid, desc


def _cond(byid, nid):
    """Does the satisfaction of the node depend on the placement (anything but Allocation-only)?"""
    n = byid[nid]
    if n["type"] == "Allocation":
        return False
    if n["type"] in ("Choose", "WindowedChoose", "MalleableChoose", "Max"):
        return True
    return any(_cond(byid, c) for c in n.get("children", []))


def well_formed(tree):
    """Input domain of the random / bounded generators (the directed families are hand-made):
      * the running tasks (Allocations) alone fit the partitions;
      * orderings are acyclic: no sub-expression is ordered before itself
        (a node below both sides of one LessThan);
      * an Allocation-only composite (Min / LessThan / Scale over nothing but Allocations)
        hangs directly under the Objective: the library gives such a node a constant utility
        (ConvTrivialMinBonus, Scale-with-disregard) that is not conditioned on its parents."""
    if not alloc_consistent(tree):
        return False
    byid, desc = _maps(tree)
    root = byid[tree["root"]]
    for n in tree["nodes"]:
        if n["type"] == "LessThan":
            a, b = n["children"]
            if desc[a] & desc[b]:
                return False
        if n["type"] in ("Min", "LessThan", "Scale") and not _cond(byid, n["id"]) and n["id"] not in root["children"]:
            return False
    return True


def features(tree):
    """Coarse traits of a tree, used to name findings (never to judge them)."""
    byid, desc = _maps(tree)
    f = set()
    parents = {}
    for n in tree["nodes"]:
        for c in n.get("children", []):
            parents[c] = parents.get(c, 0) + 1
    const_leaf = ("Choose", "Allocation")
    for n in tree["nodes"]:
        t = n["type"]
        if t == "MalleableChoose":
            f.add("M")
        if t == "Choose" and n["start"] < tree["now"]:
            f.add("past")
        if t == "LessThan":
            kinds = {byid[x]["type"] for x in desc[n["id"]]}
            if "Allocation" in kinds:
                f.add("ltA")
            if "WindowedChoose" in kinds:
                f.add("ltW")
            if all(byid[c]["type"] in const_leaf for c in n["children"]):
                f.add("ltCC")
            if any(parents.get(x, 0) > 1 for x in desc[n["id"]] if x != n["id"]):
                f.add("ltShared")
    return "+".join(sorted(f)) if f else "plain"


def corpus(tier, rng, cfg):
    trees = systematic()
    seen = {canonical(t) for t in trees}
    k = 0
    attempts = 0
    want = cfg["random"]
    max_leaves = 4 if tier == "quick" else 6
    while k < want and attempts < want * 20:
        attempts += 1
        t = random_tree(rng, k, max_leaves=max_leaves, max_depth=3 if tier == "quick" else 4)
        c = canonical(t)
        if c in seen or not leaves(t) or len(leaves(t)) > max_leaves or not well_formed(t):
            continue
        seen.add(c)
        trees.append(t)
        k += 1
    if cfg.get("bound"):
        for t in bounded(cfg["bound"]):
            c = canonical(t)
            if c not in seen:
                seen.add(c)
                trees.append(t)
    return trees


def describe(trees):
    fams = {}
    kinds = {}
    for t in trees:
        fam = t["tags"][0] if t["tags"] else "?"
        fam = re.sub(r"\d+$", "", fam) if fam.startswith("grid") else fam
        fams[fam] = fams.get(fam, 0) + 1
        for n in t["nodes"]:
            kinds[n["type"]] = kinds.get(n["type"], 0) + 1
    return {
        "trees": len(trees),
        "families": dict(sorted(fams.items())),
        "node_kinds": dict(sorted(kinds.items())),
        "max_leaves": max(len(leaves(t)) for t in trees),
        "shared_subexpression_trees": sum(1 for t in trees if _has_sharing(t)),
    }


def _has_sharing(t):
    cnt = {}
    for n in t["nodes"]:
        for c in n.get("children", []):
            cnt[c] = cnt.get(c, 0) + 1
    return any(v > 1 for v in cnt.values())
