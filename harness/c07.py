"""C07 — decided by (M) exhaustive TLC exploration of the simulator loop under an arbitrary policy
(SimMC.tla, harness/simmc.py) and (T) validation of recorded traces of the real Simulator against
Simulator.tla (SimTrace.tla, harness/simprops.py)."""
from . import simmc, simprops
from .common import CheckResult


def run(tier):
    res = CheckResult("C07", tier)
    simmc.check("C07", tier, res)
    simprops.check("C07", tier, res)
    res.assumptions += simprops.ASSUMPTIONS
    return res
