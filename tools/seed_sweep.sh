#!/bin/bash
# stability of the quick tier over seeds: every quick command must exit 0 on the unchanged tree for every seed
for sd in ${SEEDS:-1 0 2 3 4 5}; do
  for i in $(seq -w 1 20); do
    p=C$i; s=$(date +%s)
    VERIF_SEED=$sd PYTHONPATH=/repo PYTHONHASHSEED=0 timeout 3600 /venv/bin/python run.py --property $p --tier quick > sweep_${sd}_$p.log 2>&1; rc=$?
    e=$(date +%s)
    echo "seed=$sd $p rc=$rc $((e-s))s known=$(grep -c KNOWN-FINDING sweep_${sd}_$p.log) viol=$(grep -c '^VIOLATION' sweep_${sd}_$p.log)"
    if [ $rc -ne 0 ]; then grep -A1 "^VIOLATION" sweep_${sd}_$p.log | grep clause | cut -c1-240 | head -6; grep "MACHINERY\|Error" sweep_${sd}_$p.log | head -3; fi
  done
done
