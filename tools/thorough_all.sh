#!/bin/bash
# run every thorough command once, sequentially; print verdict lines only
for i in 20 14 11 10 12 13 15 16 17 19 09 04 01 02 03 05 06 07 08 18; do
  p=C$i; s=$(date +%s)
  PYTHONPATH=/repo PYTHONHASHSEED=0 timeout 7200 /venv/bin/python run.py --property $p --tier thorough > thorough_$p.log 2>&1; rc=$?
  e=$(date +%s)
  echo "== $p rc=$rc $((e-s))s known=$(grep -c KNOWN-FINDING thorough_$p.log) viol=$(grep -c '^VIOLATION' thorough_$p.log)"
  grep -A1 "^VIOLATION" thorough_$p.log | grep clause | cut -c1-260 | head -40
  grep "MACHINERY" thorough_$p.log | head -3
done
