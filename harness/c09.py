"""C09 — runs are reproducible from the random seed  (level: exploration).

A sampled 2-safety comparison.  Worlds that use randomness on purpose (deadline variance,
Poisson / Gamma arrivals, conditional branches, runtime variance, closed loop, pools with
>= 3 resource names) are written as workload / worker description files + a flagfile into a
scratch directory and

    cd <repo> && PYTHONHASHSEED=<h> python main.py --flagfile=F --random_seed=N --csv=.. --log=..

is run in FRESH processes: twice with the same seed and different PYTHONHASHSEED (the
property pairs), for some worlds a third time with the same hash seed (control: whatever
differs there does not depend on hash order) and once with another --random_seed (negative
control: the comparator must see a difference).

The same is done for every other workload mode that can run offline (harness/c09_modes.py):
`--execution_mode=replay --replay_trace=alibaba` with generated pickled traces (DAGs whose joins
are listed before their parents, multi-parent tasks, several jobs and files, every release
policy of the loader), and - through harness/c09_driver.py, which performs main.main's steps -
the loaders main.py constructs but then refuses to run (TaskLoaderPylot,
WorkloadLoaderClockworkBursty).  The execution modes / policies of main.py that end before
anything is simulated (synthetic, benchmark, replay/pylot, an Alibaba trace directory, Clockwork
on an Alibaba trace) are run once each so that the evidence says how they end.  Per mode TLC reports
how far the runs got (RunShape); a mode whose runs did not simulate is a machinery failure,
and every mode has its own equal-hash-seed control and negative control.

The two CSV files of a pair are split into
columns (no interpretation) and handed to TLC: `spec/Determinism.tla` walks both row sequences
in lock-step, knows which columns are observable (`Obs`), checks `C09_SameChoices` and names
position, clause and differing columns of every divergence.  Python only generates inputs,
starts processes, ships rows and formats TLC's verdicts.  Every TLC batch run also evaluates a
dozen synthetic pairs (one perturbation of a hand-written trace per clause): the classifier
must name each of them as intended, otherwise the run is a machinery failure.
"""
from __future__ import annotations

import json
import os
import re
import resource
import subprocess
import time
from concurrent.futures import ThreadPoolExecutor

from . import c09_modes, c19, mcgen, tlaval, tlc
from .common import PY, REPO, CheckResult, Scratch, rng, seed

ABSENT = c19.ABSENT
MASKED_FLAGS = {"log", "log_file_name", "csv", "csv_file_name"}
WINDOW = 48  # longest permuted block looked for (rows)
CPU_LIMIT_S = 900  # CPU seconds of one main.py process (not wall clock)
WALL_LIMIT_S = 4 * 3600  # generous: exceeding it is a machinery failure, never a verdict
JAVA_OPTS = mcgen.LIB_OPT + ["-XX:TieredStopAtLevel=1", "-Xss16m", "-XX:ParallelGCThreads=2"]
PAIRS_PER_TLC = {"quick": 6, "thorough": 16}
CLAUSES = ["C09.length", "C09.order", "C09.ids", "C09.times", "C09.placement", "C09.summary", "C09.rows"]

ASSUMPTIONS = [
    "the CSV file of a run is its trace: every row, in file order, split at commas (input_flag rows: name, value)",
    "Obs hides only: the last column of SCHEDULER_FINISHED (true_runtime, measured with time.time()) and the echoed "
    "values of the flags naming the output files of the run (" + ", ".join(sorted(MASKED_FLAGS)) + "); negative-control "
    "pairs additionally hide the echo of --random_seed itself",
    "a PROCESS_EXIT row (exit class, exception type) is appended to every trace by the harness",
    "policies with a fixed scheduler runtime only (--scheduler_runtime=0): with a measured runtime every later "
    "simulated time is wall-clock derived and the property statement exempts it",
    "json.dump / yaml.safe_dump write the generated descriptions faithfully (generators of harness/c19.py)",
    "a sampled comparison cannot prove the absence of hidden nondeterminism (level: exploration); both traces being "
    "behaviours of Simulator.tla is SimTrace's subject (C01-C08), not re-checked here",
    "two processes on one machine: different machines / Python builds are not sampled",
    "modes lib_pylot / lib_clockwork_bursty: harness/c09_driver.py performs the steps of main.main (flag definitions "
    "imported from main.py, random.seed, csv logger and flag echo, loader built from the flags, policy and WorkerLoader "
    "as in main.main, Simulator.simulate) around the NotImplementedError main.py raises after constructing these "
    "loaders; their runs end with an AttributeError at the first completed task graph (Workload.from_task_graphs "
    "graphs have no JobGraph): the rows written until then are the trace",
    "Alibaba traces are generated (format of the loader's Task dataclass; 100 < critical path < 1000 as the loader "
    "requires for a release); the real cluster trace is not available offline",
    "child processes run with OPENBLAS_NUM_THREADS=1 / OMP_NUM_THREADS=1 (both runs of a pair alike)",
]


class MachineryError(Exception):
    pass


# ---------------------------------------------------------------------------
# worlds

RES = ["CPU", "GPU", "RAM", "Slot", "Disk"]
POLICY_CYCLE = ["EDF", "FIFO", "LSF", "Clockwork"]
VARIANCES = [(0, 20), (10, 50), (0, 300), (), (5, 100), (0, 20), (30, 60)]
RT_VARIANCE = [0, 20, 0, 50, 10]
RATES = [20000, 50000, 100000, 200000]  # ppm: mean inter-arrival 50 / 20 / 10 / 5 us
COEFS = [500000, 1000000, 2000000]


def _strategy(r, names, clockwork):
    if clockwork:
        return c19.S(r.randint(3, 25), batch=1, res=[("GPU", "any", 1)])
    k = r.choice([1, 1, 2])
    ns = r.sample(names, k)
    return c19.S(r.randint(2, 30), batch=r.choice([ABSENT, 1]), res=[(n, "any", r.randint(1, 2)) for n in ns])


def _graph(r, gi, policy, profiles, variance, want_cond):
    for _ in range(200):
        shape, raw = c19.gen_shape(r, "")
        if want_cond is None or (shape.startswith("cond") == want_cond):
            break
    nodes = []
    for (nm, ch, cd, tm, pb) in raw:
        nodes.append(c19.N(nm, r.choice(profiles)["name"], ch, cd, tm, pb))
    g = c19.G(f"G{gi}", nodes, policy, variance=variance)
    if r.random() < 0.5:
        g["start"] = r.randint(0, 20)
    if policy in ("fixed", "periodic"):
        g["period"] = r.randint(3, 25)
    if policy == "fixed":
        g["invocations"] = r.randint(2, 5)
    if policy in ("poisson", "gamma"):
        g["invocations"] = r.randint(3, 6)
        g["rate"] = r.choice(RATES)
    if policy == "gamma":
        g["coefficient"] = r.choice(COEFS)
    if policy == "closed_loop":
        g["concurrency"] = r.randint(1, 3)
        g["invocations"] = r.randint(2, 6)
    return shape, g


def gen_world(k):
    """world k (deterministic given VERIF_SEED): description files + flags + feature list"""
    r = rng(f"c09-world-{k}")
    policy = POLICY_CYCLE[k % len(POLICY_CYCLE)]
    clockwork = policy == "Clockwork"
    # half of the worlds have no Poisson / Gamma graph at all: whatever else differs is not hidden behind them
    stochastic = ((k // 4) + (k % 4)) % 2 == 0
    if stochastic:
        arrival = ["poisson", "gamma"][(k // 8) % 2]
    else:
        arrival = ["closed_loop", "fixed", "closed_loop", "periodic", "fixed"][(k // 4) % 5]
    # pools with >= 3 resource names (set iteration order matters), a few with 4 or 5
    names = r.sample(RES, r.choice([3, 3, 4, 5]))
    if clockwork:
        names = ["GPU", "RAM"] + r.sample(["CPU", "Slot", "Disk"], r.choice([1, 2]))
    nprof = r.randint(2, 3)
    profiles = []
    for pi in range(nprof):
        ex = [_strategy(r, names, clockwork) for _ in range(r.choice([1, 1, 2]))]
        ld = [c19.S(r.randint(2, 9), batch=1, res=[("RAM", "any", r.randint(1, 2))])] if clockwork else []
        profiles.append(c19.P(f"P{pi+1}", ex, ld))
    ngraphs = r.choice([1, 2, 2, 3])
    graphs, shapes = [], []
    for gi in range(1, ngraphs + 1):
        pol = arrival if gi == 1 else r.choice(["fixed", "poisson", "gamma", "closed_loop", "fixed"] if stochastic
                                               else ["fixed", "closed_loop"])
        var = VARIANCES[(k + gi - 1) % len(VARIANCES)] if gi == 1 else r.choice(VARIANCES)
        want_cond = (k % 3 != 2) if gi == 1 else None
        if clockwork:
            want_cond = False if gi > 1 else (k % 8 == 3)
        shape, g = _graph(r, gi, pol, profiles, var, want_cond)
        graphs.append(g)
        shapes.append(shape)
    wfmt = ["json", "yaml", "json", "yml"][k % 4]
    desc = c19.D(f"c09w{k:04d}", profiles, graphs, fmt=wfmt, spell=r.randint(0, 10**6))
    workload = c19.concrete_workload(desc["desc"], desc["spell"])
    # cluster: every worker carries every resource name in a shuffled order, capacity >= 2 (every strategy fits)
    pools, wn = [], 0
    for pi in range(r.choice([1, 1, 2])):
        workers = []
        for _ in range(r.choice([1, 1, 2])):
            wn += 1
            ns = list(names)
            r.shuffle(ns)
            workers.append({"name": f"W{pi+1}_{wn}",
                            "resources": [{"name": n, "id": r.choice(["", "", "", "r1"]),
                                           "q": r.randint(2, 6) if n != "RAM" else r.randint(4, 9)} for n in ns]})
        pools.append({"name": f"Pool{pi+1}", "workers": workers})
    cfmt = ["json", "json", "yaml"][k % 3]
    cluster = c19.concrete_cluster({"pools": pools})
    flags = {"scheduler": policy, "scheduler_runtime": 0,
             "execution_mode": "yaml" if wfmt != "json" else "json"}
    rtv = RT_VARIANCE[k % len(RT_VARIANCE)]
    if rtv:
        flags["runtime_variance"] = rtv
    if any(g["policy"] == "periodic" for g in graphs):
        flags["loop_timeout"] = r.randint(60, 140)
    if k % 5 == 4:
        flags["resolve_conditionals_at_submission"] = True
    if policy == "EDF" and k % 8 == 4:
        flags["enforce_deadlines"] = True
    if k % 7 == 5:
        flags["scheduler_frequency"] = r.choice([3, 5, 10])
    if k % 9 == 7:
        flags["scheduler_run_at_worker_free"] = True
    if k % 11 == 6 and not clockwork:
        flags["replication_factor"] = 2
    if clockwork:
        flags["scheduler_run_load"] = bool(k % 8 != 7)
    flags["workload_profile_path"] = f"{{DIR}}/workload.{wfmt}"
    flags["worker_profile_path"] = f"{{DIR}}/workers.{cfmt}"
    return {"k": k, "id": f"w{k:04d}", "mode": "workload_file", "entry": "main.py", "expect_exit": "legacy",
            "files": [{"name": f"workload.{wfmt}", "fmt": wfmt, "content": workload},
                      {"name": f"workers.{cfmt}", "fmt": cfmt, "content": cluster}],
            "policy": policy, "stochastic_arrivals": stochastic, "shapes": shapes, "wfmt": wfmt, "cfmt": cfmt,
            "workload": workload, "cluster": cluster, "flags": flags,
            "graphs": [{"name": g["name"], "policy": g["policy"], "variance": list(g["variance"]),
                        "invocations": g["invocations"],
                        "conditional": [n["name"] for n in g["nodes"] if n["conditional"]]} for g in graphs],
            "n_resource_names": len(names)}


def flag_lines(world, d):
    """flagfile lines of a world whose files live in directory d"""
    lines = []
    for k, v in world["flags"].items():
        if isinstance(v, bool):
            lines.append(f"--{k}" if v else f"--no{k}")
        else:
            lines.append(f"--{k}={v}".replace("{DIR}", d))
    return lines


def write_world(world, scratch):
    d = os.path.join(scratch, world["id"])
    os.makedirs(d, exist_ok=True)
    for f in world["files"]:
        c09_modes.write_file(os.path.join(d, f["name"]), f["fmt"], f["content"])
    ff = os.path.join(d, "flags.conf")
    with open(ff, "w") as f:
        f.write("\n".join(flag_lines(world, d)) + "\n")
    return d, ff


# ---------------------------------------------------------------------------
# running main.py in fresh processes

_UUID = re.compile(r"[0-9a-f]{8}-[0-9a-f]{4}-[0-9a-f]{4}-[0-9a-f]{4}-[0-9a-f]{12}")


def _limit(cpu_s):
    def f():
        resource.setrlimit(resource.RLIMIT_CPU, (cpu_s, cpu_s + 5))
    return f


def run_main(job):
    """job = (run id, dir, flagfile, random seed, hash seed[, program, CPU limit]) -> dict(rows, exit signature, ...)

    program: `main.py` of the repository or harness/c09_driver.py (loaders main.py constructs but does not run)"""
    rid, d, ff, rseed, hseed = job[:5]
    entry = job[5] if len(job) > 5 else "main.py"
    cpu_s = job[6] if len(job) > 6 else CPU_LIMIT_S
    csv = os.path.join(d, f"{rid}.csv")
    log = os.path.join(d, f"{rid}.log")
    env = {k: v for k, v in os.environ.items() if k not in ("PYTHONHASHSEED", "PYTHONPATH", "ERDOS_VERIF_TRACE")}
    # one BLAS / OpenMP thread: numpy starts a thread pool per process that this workload never uses
    env.update(PYTHONHASHSEED=str(hseed), PYTHONPATH=REPO, PYTHONDONTWRITEBYTECODE="1", OPENBLAS_NUM_THREADS="1",
               OMP_NUM_THREADS="1")
    cmd = [PY, entry, f"--flagfile={ff}", f"--random_seed={rseed}", f"--csv={csv}", f"--log={log}",
           "--log_level=info"]
    t0 = time.time()
    try:
        p = subprocess.run(cmd, cwd=REPO, env=env, capture_output=True, text=True, timeout=WALL_LIMIT_S,
                           preexec_fn=_limit(cpu_s))
    except subprocess.TimeoutExpired:
        raise MachineryError(f"main.py exceeded the wall limit of {WALL_LIMIT_S}s: {' '.join(cmd)}")
    out = {"rid": rid, "seed": rseed, "hash": hseed, "rc": p.returncode, "wall_s": round(time.time() - t0, 2),
           "cmd": f"cd {REPO} && PYTHONHASHSEED={hseed} " + " ".join(cmd)}
    if p.returncode == 0:
        out["exit"] = ["ok", ""]
    elif p.returncode in (-24, -9):  # SIGXCPU / SIGKILL after the CPU limit
        out["exit"] = ["cpu_limit", f"{cpu_s}s"]
    else:
        tail = [ln for ln in p.stderr.strip().splitlines() if ln.strip()]
        last = tail[-1] if tail else f"rc={p.returncode}"
        out["exit"] = ["crash", _UUID.sub("<uuid>", last)[:300]]
        out["stderr_tail"] = "\n".join(tail[-12:])[-2500:]
    rows = []
    if os.path.exists(csv):
        with open(csv) as f:
            for ln in f:
                rows.append(ln.rstrip("\n"))
    out["raw"] = rows
    return out


def split_row(line):
    """CSV line -> {ty, t, f}: columns as strings, nothing interpreted (the schema lives in Determinism.tla)"""
    c = line.split(",")
    if c[0] == "input_flag":
        return {"ty": "input_flag", "t": -1, "f": [c[0], c[1] if len(c) > 1 else "", ",".join(c[2:])]}
    ty = c[1] if len(c) > 1 else "?"
    try:
        t = int(c[0])
        t = t if abs(t) < 2**31 - 1 else (2**31 - 1 if t > 0 else -(2**31 - 1))  # TLC ints are 32 bit
    except ValueError:
        t = -1
    return {"ty": ty, "t": t, "f": c}


def trace_of(run):
    rows = [split_row(ln) for ln in run["raw"]]
    ex = run["exit"]
    rows.append({"ty": "PROCESS_EXIT", "t": -1, "f": ["-", "PROCESS_EXIT", ex[0], ex[1].split(":")[0][:80]]})
    return rows


# ---------------------------------------------------------------------------
# TLC


_TUP = re.compile(r'^<<\s*"@@([DE])"')


def parse_output(out):
    divs, ends = {}, {}
    lines = out.splitlines()
    i = 0
    while i < len(lines):
        ln = lines[i]
        m = _TUP.match(ln)
        if m:
            buf, j, val = ln, i, None
            while True:
                try:
                    val = tlaval.parse(buf)
                    break
                except tlaval.ParseError:
                    j += 1
                    if j >= len(lines) or j - i > 2000:
                        raise tlc.TLCMachineryError(f"unparsable @@{m.group(1)} tuple:\n{buf[:2000]}")
                    buf += "\n" + lines[j]
            i = j
            if m.group(1) == "D":  # TLC evaluates an action again when it prints an error trace: keep one copy
                lst = divs.setdefault(val[1], [])
                if not any(x["k"] == val[2] for x in lst):
                    lst.append({"k": val[2], "clause": val[3], "hint": val[4], "a": list(val[5]), "b": list(val[6])})
            else:
                ends[val[1]] = {"compared": val[2], "len_a": val[3], "len_b": val[4], "nord": val[5],
                                "last": val[6], "same": val[7], "shape_a": list(val[8]), "shape_b": list(val[9])}
        i += 1
    return divs, ends


def tlc_batch(args):
    scratch, bno, pairs = args
    d = os.path.join(scratch, f"tlc{bno:03d}")
    os.makedirs(d, exist_ok=True)
    with open(os.path.join(d, "pairs.json"), "w") as f:
        json.dump([{"id": p["id"], "mask": p["mask"], "a": p["a"], "b": p["b"]} for p in pairs], f)
    mod, cf = mcgen.write_mc(
        d, "Determinism", {"PairsFile": "pairs.json", "MaskedFlags": set(MASKED_FLAGS), "Window": WINDOW},
        name=f"MC_Determinism{bno:03d}", invariants=["TypeOK", "C09_SameChoices"])
    for attempt in (0, 1):
        try:
            r = tlc.run_tlc(mod, cf, workers=1, java_opts=JAVA_OPTS, timeout=WALL_LIMIT_S, extra=["-continue"])
            break
        except tlc.TLCMachineryError as ex:  # shared machine: a cleaned metadir / failed JVM start is retried once
            if attempt or not any(s in str(ex) for s in ("Unable to open", "tlcmeta", "OutOfMemory")):
                raise
            time.sleep(1.0)
    if r.violation_kind not in (None, "invariant") or "Invariant TypeOK is violated" in r.stdout:
        raise tlc.TLCMachineryError(f"Determinism batch {bno}: {r.violation_kind} {r.violation_name}\n{r.stdout[-3000:]}")
    divs, ends = parse_output(r.stdout)
    missing = [p["id"] for p in pairs if p["id"] not in ends]
    if missing:
        raise tlc.TLCMachineryError(f"TLC did not report on pairs {missing[:5]}\n{r.stdout[-3000:]}")
    for p in pairs:
        e, dv = ends[p["id"]], divs.get(p["id"], [])
        if e["same"] != (not dv) or (r.violation_kind == "invariant") != bool(divs):
            raise tlc.TLCMachineryError(
                f"state machine and SameChoices disagree on {p['id']}: {e} / {dv[:1]} / {r.violation_kind}")
    r.trace = []  # -continue prints one trace per divergence: not kept
    return r, divs, ends


# ---------------------------------------------------------------------------
# synthetic pairs: perturbations of one hand-written trace, one per clause of Determinism.tla

_BASE = """input_flag,csv,/x/a.csv
input_flag,random_seed,7
0,WORKER_POOL,Pool1,pid,CPU,r1,4,GPU,r2,2
0,WORKER_POOL_UTILIZATION,pid,CPU,0,4
0,WORKER_POOL_UTILIZATION,pid,GPU,0,2
0,SIMULATOR_START
0,UPDATE_WORKLOAD,1,1
0,TASK_GRAPH_RELEASE,0,30,G@0,1,10
0,TASK_RELEASE,a,0,0,0,30,tid1,G@0,10,CPU,any,1
0,SCHEDULER_START,1,0
0,SCHEDULER_FINISHED,0,1,0,200
0,TASK_SCHEDULED,a,G@0,0,tid1,30,0,pid,10
0,TASK_PLACEMENT,a,G@0,0,tid1,pid,10,CPU,r1,1
10,TASK_FINISHED,a,0,G@0,10,30,tid1
10,TASK_GRAPH_FINISHED,G@0,30,-20
11,SIMULATOR_END,1,0,0,1,0,0""".splitlines()


def selftest_pairs():
    def sub(rows, old, new):
        return [r.replace(old, new) for r in rows]

    def ins(rows, before, row):
        k = next(i for i, r in enumerate(rows) if before in r)
        return rows[:k] + [row] + rows[k:]

    A = list(_BASE)
    cases = [
        ("masked_only", A, sub(sub(A, ",200", ",350"), "/x/a.csv", "/y/b.csv"), ""),
        ("ids", A, sub(A, "tid1", "tid2"), "C09.ids"),
        ("times_deadline", A, sub(A, ",30,G@0", ",33,G@0"), "C09.times"),
        ("times_earlier_event", A, ins(A, "TASK_FINISHED", "5,TASK_GRAPH_RELEASE,5,35,G@1,1,10"), "C09.times"),
        ("times_shifted_event", ins(A, "TASK_RELEASE", "0,TASK_GRAPH_RELEASE,0,30,G@1,1,10"),
         ins(A, "TASK_FINISHED", "10,TASK_GRAPH_RELEASE,10,40,G@1,1,10"), "C09.times"),
        ("order", A, A[:3] + [A[4], A[3]] + A[5:], "C09.order"),
        ("placement", A, sub(A, "tid1,pid,10", "tid1,pid2,10"), "C09.placement"),
        ("placement_time", A, sub(A, ",30,0,pid,10", ",30,2,pid,10"), "C09.placement"),
        ("summary", A, sub(A, "SIMULATOR_END,1,0,0,1", "SIMULATOR_END,1,0,1,1"), "C09.summary"),
        ("length", A, A[:-1], "C09.length"),
        ("rows", A, sub(A, "UPDATE_WORKLOAD,1,1", "UPDATE_WORKLOAD,1,2"), "C09.rows"),
        ("flag_value", A, sub(A, "random_seed,7", "random_seed,8"), "C09.rows"),
    ]
    return [{"id": f"selftest/{n}", "kind": "selftest", "mask": [], "expect": e,
             "a": [split_row(r) for r in a], "b": [split_row(r) for r in b]} for n, a, b, e in cases]


# ---------------------------------------------------------------------------
# bookkeeping (no verdicts here)


def key_of(div):
    cl = div["clause"].split(".")[1]
    h = div["hint"]
    if h[0] == "shorter":
        return f"{cl}:next_row={h[2]}"
    if h[0] == "block":
        return f"{cl}:" + "+".join(sorted(h[1]))
    if h[0] == "cols" and h[1] == "input_flag":
        return f"{cl}:input_flag:{div['a'][1] if len(div['a']) > 1 else ''}"
    if h[0] == "cols":
        if cl == "times" and "time" in h[2]:  # the event itself happens at another simulated time
            return f"{cl}:{h[1]}"
        return f"{cl}:{h[1]}:" + "+".join(sorted(h[2]))
    if h[0] == "shifted":  # different events at one time; this one happens at another time in the other run
        return f"{cl}:{h[1]}"
    if h[0] == "lead":  # different events: the one that happens earlier (the other run has nothing at that time)
        return f"{cl}:{h[1]}"
    return f"{cl}:" + "|".join(sorted(str(x) for x in h[1:]))


def random_features(world, run):
    """which random-dependent rows the trace of `run` contains (coverage bookkeeping)"""
    rel, fin, placed = {}, set(), 0
    for ln in run["raw"]:
        c = ln.split(",")
        if len(c) < 2:
            continue
        if c[1] == "TASK_GRAPH_RELEASE" and len(c) > 4:
            g = c[4].split("@")[0]
            rel[g] = rel.get(g, 0) + 1
        elif c[1] == "TASK_FINISHED" and len(c) > 4:
            fin.add((c[4].split("@")[0], c[2]))
        elif c[1] == "TASK_PLACEMENT":
            placed += 1
    feats = set()
    repl = world["flags"].get("replication_factor", 1)
    for g in world["graphs"]:
        gnames = [g["name"]] if repl == 1 else [f"{g['name']}_{x}" for x in range(1, repl + 1)]
        for gn in gnames:
            n = rel.get(gn, 0)
            v = g["variance"]
            if n >= 1 and len(v) == 2 and abs(v[0]) != abs(v[1]):
                feats.add("deadline_variance")
            if g["policy"] in ("poisson", "gamma") and n >= 2:
                feats.add(g["policy"] + "_release")
            if g["policy"] == "closed_loop" and n >= 2:
                feats.add("closed_loop")
            if not world["flags"].get("resolve_conditionals_at_submission") and any((gn, c) in fin for c in g["conditional"]):
                feats.add("conditional_draw")
    if world["flags"].get("runtime_variance", 0) > 0 and placed:
        feats.add("runtime_variance")
    return sorted(feats)


def _spread(n, total, offset):
    """n world indices spread over 0..total-1, walking through the policy cycle"""
    out, stride = set(), max(1, total // max(1, n))
    for j in range(n):
        x = (j * stride + j + offset) % total
        while x in out and len(out) < total:
            x = (x + 1) % total
        out.add(x)
    return out


HASH_PAIRS = [(1, 2), (0, 3), (2, 7), (5, 11), (1, 4242), (3, 1)]

# workload modes: (generator, number of worlds quick / thorough, same-hash controls q / t, negative controls q / t)
EXTRA_MODES = [
    ("alibaba_replay", c09_modes.gen_alibaba_world, (14, 220), (2, 40), (2, 40)),
    ("lib_pylot", c09_modes.gen_pylot_world, (4, 60), (1, 12), (1, 12)),
    ("lib_clockwork_bursty", c09_modes.gen_bursty_world, (3, 40), (1, 8), (1, 8)),
]
NEW_MODE_CPU_LIMIT_S = 300
# a mode counts as exercised only when TLC's RunShape of both traces says that the runs simulated something
MIN_RAN_FRACTION = 0.6


def _seed_for(r, k):
    """boundary seeds 0 and 1 (0 is falsy) in every mode, small and large seeds otherwise"""
    s = r.randint(0, 2**31 - 1) if k % 3 else r.randint(0, 50)
    if k % 12 in (0, 1):
        s = 0  # boundary seed: 0 is falsy, and both a Poisson/Gamma world and a plain one must get it
    elif k % 12 in (2, 3):
        s = 1
    return s


def plan(tier):
    """-> worlds, runs (rid -> (world id, seed, hash)), pairs [(pair id, kind, rid a, rid b)]"""
    q = tier == "quick"
    r = rng("c09-plan")
    nworlds = 12 if q else 260
    n_ctrl = 3 if q else 70
    n_neg = 4 if q else 70
    worlds = [gen_world(k) for k in range(nworlds)]
    runs, pairs = {}, []
    ctrl, negs = _spread(n_ctrl, nworlds, 0), _spread(n_neg, nworlds, 2)

    def add(w, s, h1, h2, is_ctrl, is_neg, rr):
        a, b = f"{w['id']}_s{s}_h{h1}", f"{w['id']}_s{s}_h{h2}"
        runs[a], runs[b] = (w["id"], s, h1), (w["id"], s, h2)
        pairs.append((f"{w['id']}/seed{s}/hash{h1}-{h2}", "property", a, b))
        if is_ctrl:
            c = f"{w['id']}_s{s}_h{h1}_again"
            runs[c] = (w["id"], s, h1)
            pairs.append((f"{w['id']}/seed{s}/hash{h1}-{h1}", "same_hash", a, c))
        if is_neg:
            s2 = s + 1 + rr.randint(0, 1000)
            c = f"{w['id']}_s{s2}_h{h1}"
            runs[c] = (w["id"], s2, h1)
            pairs.append((f"{w['id']}/seed{s}-{s2}/hash{h1}-{h1}", "negative", a, c))

    for w in worlds:
        k = w["k"]
        h1, h2 = HASH_PAIRS[0] if q else HASH_PAIRS[k % len(HASH_PAIRS)]
        add(w, _seed_for(r, k), h1, h2, k in ctrl, k in negs, r)
    # the other workload modes: hash-seed pairs cycle in both tiers (the order of a set of strings under two given hash
    # seeds may coincide for a particular input)
    for mode, gen, nw, nc, nn in EXTRA_MODES:
        n = nw[0] if q else nw[1]
        rm = rng(f"c09-plan-{mode}")
        mctrl, mneg = _spread(nc[0] if q else nc[1], n, 1), _spread(nn[0] if q else nn[1], n, 3)
        for k in range(n):
            w = gen(k)
            worlds.append(w)
            h1, h2 = HASH_PAIRS[k % len(HASH_PAIRS)]
            add(w, _seed_for(rm, k), h1, h2, k in mctrl, k in mneg, rm)
    # BranchPrediction on the YAML / JSON descriptions: the EDF worlds once more under that policy
    n_bp = 2 if q else 32
    for j in range(n_bp):
        k = 4 * j
        w = gen_world(k)
        w.update(id=f"wbp{k:04d}", policy="BranchPrediction",
                 flags=dict(w["flags"], scheduler="BranchPrediction",
                            scheduler_policy=c09_modes.BP_POLICIES[j % 4], branch_prediction_accuracy=[0.5, 0.9][(j // 4) % 2]))
        worlds.append(w)
        h1, h2 = HASH_PAIRS[(j + 1) % len(HASH_PAIRS)]
        add(w, _seed_for(r, k + 2 * (j % 2)), h1, h2, j % 8 == 0, j % 8 == 1, r)
    for w in c09_modes.gen_stub_worlds():
        worlds.append(w)
        add(w, 1, 1, 2, False, False, r)
    return worlds, runs, pairs


def _world_size(w):
    return sum(len(json.dumps(f["content"])) for f in w["files"])


def compare(tier, worlds, runs, pairs, res, procs=None):
    """run everything, hand the pairs to TLC; returns per pair records"""
    procs = procs or min(16, os.cpu_count() or 4)
    byid = {w["id"]: w for w in worlds}
    with Scratch(prefix="erdosverif_c09_") as scratch:
        dirs = {w["id"]: write_world(w, scratch) for w in worlds}
        jobs = [(rid, dirs[wid][0], dirs[wid][1], s, h, byid[wid]["entry"],
                 CPU_LIMIT_S if byid[wid]["mode"] == "workload_file" else NEW_MODE_CPU_LIMIT_S)
                for rid, (wid, s, h) in runs.items()]
        t0 = time.time()
        with ThreadPoolExecutor(procs) as ex:
            results = {o["rid"]: o for o in ex.map(run_main, jobs)}
        t_runs = time.time() - t0
        recs, skipped = [], []
        for pid, kind, ra, rb in pairs:
            A, B = results[ra], results[rb]
            w = byid[runs[ra][0]]
            # YAML / JSON descriptions: some generated worlds run into known crashes of the simulator (C05's subject);
            # in the other modes the rows written before the end are compared however the processes end
            if w["expect_exit"] == "legacy" and A["exit"][0] != "ok" and A["exit"] == B["exit"]:
                skipped.append({"pair": pid, "kind": kind, "exit": A["exit"], "policy": w["policy"], "flags": w["flags"]})
                continue
            recs.append({"id": pid, "kind": kind, "world": w, "ra": A, "rb": B,
                         "mask": ["random_seed"] if kind == "negative" else [],
                         "a": trace_of(A), "b": trace_of(B)})
        per = PAIRS_PER_TLC[tier]
        syn = selftest_pairs()
        allp = recs + syn
        batches = [(scratch, n, allp[x:x + per]) for n, x in enumerate(range(0, len(allp), per))]
        t0 = time.time()
        with ThreadPoolExecutor(max(1, min(procs * 3 // 4, len(batches) or 1))) as ex:  # one TLC worker per JVM
            outs = list(ex.map(tlc_batch, batches))
        t_tlc = time.time() - t0
    for (_, n, prs), (r, divs, ends) in zip(batches, outs):
        res.add_tlc(f"Determinism/batch{n} ({len(prs)} pairs)", r)
        for p in prs:
            p["divs"] = divs.get(p["id"], [])
            p["end"] = ends[p["id"]]
            if p["kind"] != "selftest":
                p["flagfile"] = flag_lines(p["world"], "{DIR}")
    # the classifier itself: every clause is reachable and named as intended (machinery check, no verdict)
    st = {}
    for p in syn:
        got = p["divs"][0]["clause"] if p["divs"] else ""
        st[p["id"].split("/")[1]] = got
        if got != p["expect"]:
            raise MachineryError(f"classifier self-test {p['id']}: expected {p['expect']!r}, TLC reported {got!r} {p['divs'][:1]}")
    res.extra["classifier_selftest"] = st
    res.extra["timing"] = {"main_py_runs": len(jobs), "runs_wall_s": round(t_runs, 1), "tlc_wall_s": round(t_tlc, 1),
                           "mean_run_wall_s": round(sum(o["wall_s"] for o in results.values()) / max(1, len(results)), 2),
                           "parallel_processes": procs}
    return recs, skipped, results


def _detail(p, dv):
    w, A, B = p["world"], p["ra"], p["rb"]
    k = dv["k"]
    return {
        "pair": p["id"], "pair_kind": p["kind"],
        "world": {"mode": w["mode"], "policy": w["policy"], "program": os.path.basename(w["entry"]),
                  "files": w["files"], "flagfile": p["flagfile"], "features": w.get("features", {})},
        "random_seed": [A["seed"], B["seed"]], "hash_seeds": [A["hash"], B["hash"]],
        "commands": [A["cmd"], B["cmd"]], "exit": [A["exit"], B["exit"]],
        "position": k, "clause": dv["clause"], "hint": _plain(dv["hint"]),
        "row_a": ",".join(dv["a"]), "row_b": ",".join(dv["b"]),
        "rows_before": A["raw"][max(0, k - 4):k - 1],
        "next_rows_a": A["raw"][k - 1:k + 5], "next_rows_b": B["raw"][k - 1:k + 5],
        "trace_lengths": [len(A["raw"]), len(B["raw"])],
    }


def _plain(v):
    if isinstance(v, (set, frozenset)):
        return sorted(_plain(x) for x in v)
    if isinstance(v, (list, tuple)):
        return [_plain(x) for x in v]
    return v


def _ran(w, p):
    """did both runs of the pair simulate something?  (RunShape: <<releases, placements, finished, SIMULATOR_END>>, from TLC)"""
    sa, sb = p["end"]["shape_a"], p["end"]["shape_b"]
    if w["mode"] in ("workload_file", "alibaba_replay"):
        return all(x[0] >= 1 and x[1] >= 1 and x[2] >= 1 and x[3] == 1 for x in (sa, sb)) and \
            p["ra"]["exit"][0] == "ok" and p["rb"]["exit"][0] == "ok"
    # static workloads handed to the Simulator end with an AttributeError at the first completed graph (no JobGraph)
    return all(x[0] >= 1 and x[1] >= 1 for x in (sa, sb))


def mode_report(res, recs, skipped, worlds):
    """per workload mode: what ran, how it ended, what was compared; a mode that did not run is a machinery failure"""
    modes = {}
    for w in worlds:
        m = modes.setdefault(w["mode"], {"program": os.path.basename(w["entry"]), "worlds": 0, "policies": {},
                                         "pairs": {"property": 0, "same_hash": 0, "negative": 0},
                                         "pairs_that_simulated": {"property": 0, "same_hash": 0, "negative": 0},
                                         "identical_on_Obs": {"property": 0, "same_hash": 0},
                                         "rows_compared": 0, "exits": {}, "releases": 0, "placements": 0,
                                         "finished_tasks": 0, "features": {}})
        m["worlds"] += 1
        m["policies"][w["policy"]] = m["policies"].get(w["policy"], 0) + 1
        for k, v in w.get("features", {}).items():
            f = m["features"]
            if isinstance(v, bool):
                f[k] = f.get(k, 0) + int(v)
            elif isinstance(v, int):
                f[k] = f.get(k, 0) + v
            elif isinstance(v, str):
                f.setdefault(k, {})
                f[k][v] = f[k].get(v, 0) + 1
            elif isinstance(v, list):
                f.setdefault(k, {})
                for x in v:
                    f[k][x] = f[k].get(x, 0) + 1
    for p in recs:
        w = p["world"]
        m = modes[w["mode"]]
        m["pairs"][p["kind"]] += 1
        ran = _ran(w, p)
        m["pairs_that_simulated"][p["kind"]] += int(ran)
        if p["kind"] != "negative" and not p["divs"]:
            m["identical_on_Obs"][p["kind"]] += 1
        m["rows_compared"] += p["end"]["compared"]
        if p["kind"] == "property":
            sa = p["end"]["shape_a"]
            m["releases"] += sa[0]
            m["placements"] += sa[1]
            m["finished_tasks"] += sa[2]
        for o in (p["ra"], p["rb"]):
            e = f"{o['exit'][0]}:{o['exit'][1].split(':')[0][:80]}" if o["exit"][0] != "ok" else "ok"
            m["exits"][e] = m["exits"].get(e, 0) + 1
    res.extra["modes"] = modes
    res.extra["modes_not_started"] = c09_modes.NOT_STARTED
    problems = []
    for name, m in modes.items():
        if name.startswith("stub_"):
            m["note"] = "main.py cannot simulate in this execution mode / with this policy: see exits"
            continue
        if name == "workload_file":
            # generated descriptions may run into known crashes of the simulator (skipped pairs) or finish nothing
            if m["pairs_that_simulated"]["property"] * 3 < m["worlds"]:
                problems.append(f"mode {name}: {m['pairs_that_simulated']['property']} of {m['worlds']} worlds simulated "
                                f"anything (exits: {m['exits']})")
            continue
        for kind in ("property", "same_hash"):
            n, ok = m["pairs"][kind], m["pairs_that_simulated"][kind]
            if n == 0 or ok < MIN_RAN_FRACTION * n:
                problems.append(f"mode {name}: {ok} of {n} {kind} pairs simulated anything (exits: {m['exits']})")
    if problems:
        raise MachineryError("a workload mode did not run:\n  " + "\n  ".join(problems))


def report(res, recs, skipped, results, worlds):
    prop = [p for p in recs if p["kind"] in ("property", "same_hash")]
    neg = [p for p in recs if p["kind"] == "negative"]
    res.traces_validated = 2 * len(recs)
    groups = {}
    for p in prop:
        exits_differ = p["ra"]["exit"] != p["rb"]["exit"]
        real = [dv for dv in p["divs"] if not (dv["a"][1:2] == ["PROCESS_EXIT"] or dv["b"][1:2] == ["PROCESS_EXIT"])]
        if exits_differ and not real:
            raise MachineryError(
                f"pair {p['id']}: the processes ended differently ({p['ra']['exit']} / {p['rb']['exit']}) although no row "
                f"differs before the end of the traces\n{p['ra'].get('stderr_tail', '')}\n{p['rb'].get('stderr_tail', '')}")
        mode = p["world"]["mode"]
        for dv in real:
            # finding keys of the YAML / JSON mode are unchanged; the other modes carry their name
            key = key_of(dv) if mode == "workload_file" else f"{mode}:{key_of(dv)}"
            groups.setdefault(key, []).append((p, dv))
    keys = {}
    for key, lst in sorted(groups.items()):
        lst.sort(key=lambda x: (_world_size(x[0]["world"]), x[0]["id"]))
        p, dv = lst[0]
        n_diff = sum(1 for q, _ in lst if q["kind"] == "property")
        n_same = sum(1 for q, _ in lst if q["kind"] == "same_hash")
        keys[key] = {"different_hash_seed_pairs": n_diff, "same_hash_seed_pairs": n_same,
                     "modes": sorted({q["world"]["mode"] for q, _ in lst}),
                     "policies": sorted({q["world"]["policy"] for q, _ in lst})}
        det = _detail(p, dv)
        det["other_pairs"] = [q["id"] for q, _ in lst[1:40]]
        det["seen_with_equal_hash_seeds"] = n_same > 0
        res.violate(
            dv["clause"],
            f"[{p['world']['mode']}] same input files, flags and --random_seed, two fresh processes: traces diverge at row "
            f"{dv['k']} [{key}] ({len(lst)} pair(s); {n_same} of them with equal PYTHONHASHSEED)",
            det, key=key)
    res.extra["divergence_keys"] = keys
    # per kind
    def summary(ps):
        return {"pairs": len(ps), "diverging": sum(1 for p in ps if p["divs"]),
                "identical": sum(1 for p in ps if not p["divs"]),
                "rows_compared": sum(p["end"]["compared"] for p in ps),
                "permuted_blocks_skipped": sum(p["end"]["nord"] for p in ps)}
    res.extra["pairs"] = {"property_different_hash_seeds": summary([p for p in prop if p["kind"] == "property"]),
                          "control_equal_hash_seeds": summary([p for p in prop if p["kind"] == "same_hash"]),
                          "negative_control_different_random_seed": summary(neg),
                          "skipped_both_runs_ended_identically_abnormally": len(skipped)}
    res.extra["skipped"] = skipped[:20]
    cl = {}
    for p in neg:
        first = next((dv for dv in p["divs"] if dv["clause"] != "C09.order"), p["divs"][0] if p["divs"] else None)
        if first:
            cl[first["clause"]] = cl.get(first["clause"], 0) + 1
    res.extra["negative_control_clauses"] = cl
    for mode in sorted({p["world"]["mode"] for p in neg}):
        if not any(p["divs"] for p in neg if p["world"]["mode"] == mode):
            raise MachineryError(f"mode {mode}: no negative-control pair (different --random_seed) differs: the "
                                 "comparator is vacuous")
    clause_counts = {c: 0 for c in CLAUSES}
    for p in recs:
        for dv in p["divs"]:
            clause_counts[dv["clause"]] = clause_counts.get(dv["clause"], 0) + 1
    res.extra["clauses_reported_all_pairs"] = clause_counts
    mode_report(res, recs, skipped, worlds)
    # coverage of randomness (YAML / JSON descriptions; the other modes: coverage.modes[...].features)
    feats, nontrivial, seen = {}, 0, set()
    per_policy = {}
    for p in recs:
        w = p["world"]
        if w["id"] in seen:
            continue
        seen.add(w["id"])
        per_policy[w["policy"]] = per_policy.get(w["policy"], 0) + 1
        if w["mode"] != "workload_file":
            nontrivial += int(_ran(w, p))
            continue
        fs = random_features(w, p["ra"])
        if fs:
            nontrivial += 1
        for f in fs:
            feats[f] = feats.get(f, 0) + 1
    res.extra["distinct_nontrivial"] = nontrivial
    res.extra["evaluations"] = len(recs)
    res.extra["worlds_compared"] = len(seen)
    res.extra["worlds_with_random_feature"] = feats
    res.extra["worlds_per_policy"] = per_policy
    res.extra["resource_names_per_pool"] = sorted({p["world"]["n_resource_names"] for p in recs
                                                   if p["world"]["mode"] == "workload_file"})
    crashes = {}
    for o in results.values():
        if o["exit"][0] != "ok":
            crashes[o["exit"][1][:120]] = crashes.get(o["exit"][1][:120], 0) + 1
    res.extra["abnormal_exits"] = crashes
    picked = []
    for p in prop:  # two pairs of every mode, then controls
        m = p["world"]["mode"]
        want = 2 if m in ("workload_file", "alibaba_replay") else 0 if m.startswith("stub_") else 1
        if sum(1 for x in picked if x["world"]["mode"] == m) < want and p["kind"] == "property":
            picked.append(p)
    picked += [x for x in prop if x["kind"] == "same_hash"][:1] + neg[:1]
    for p in picked:
        w = p["world"]
        smp = {"pair": p["id"], "kind": p["kind"], "mode": w["mode"], "policy": w["policy"], "flags": w["flags"],
               "rows": [p["end"]["len_a"], p["end"]["len_b"]], "rows_compared": p["end"]["compared"],
               "run_shape_releases_placements_finished_end": [p["end"]["shape_a"], p["end"]["shape_b"]],
               "exit": [p["ra"]["exit"], p["rb"]["exit"]],
               "verdict": "identical on Obs" if not p["divs"] else
                          "; ".join(f"row {dv['k']}: {key_of(dv)}" for dv in p["divs"])}
        if w["mode"] == "workload_file":
            smp["graphs"] = [f"{g['name']}:{g['policy']}:var{g['variance']}:cond{len(g['conditional'])}" for g in w["graphs"]]
            smp["random_features"] = random_features(w, p["ra"])
        else:
            smp["input_features"] = w.get("features", {})
        res.samples.append(smp)


def run(tier: str) -> CheckResult:
    res = CheckResult("C09", tier)
    res.level = "exploration"
    res.assumptions = list(ASSUMPTIONS)
    worlds, runs, pairs = plan(tier)
    n_file = sum(1 for w in worlds if w["mode"] == "workload_file" and not w["id"].startswith("wbp"))
    res.extra["rule"] = (
        f"mode workload_file: worlds w0000..w{n_file-1:04d} of harness/c09.gen_world (VERIF_SEED={seed()}; policy cycles "
        "EDF/FIFO/LSF/Clockwork with --scheduler_runtime=0 plus the EDF worlds again under BranchPrediction, first graph cycles poisson/gamma/closed_loop/fixed/periodic, "
        "deadline variance, conditional shapes, --runtime_variance, >= 3 resource names per worker); the other workload "
        "modes: generators of harness/c09_modes.py (alibaba_replay: pickled Alibaba traces, DAGs listed in topological / "
        "reverse / shuffled / joins-first order, one file with fixed / periodic / poisson / gamma / fixed_gamma releases or "
        "several labelled files, EDF/FIFO/LSF/BranchPrediction; lib_pylot and lib_clockwork_bursty: the loaders "
        "main.py constructs but does not run, through harness/c09_driver.py; stub_*: execution modes of main.py that end "
        "before simulating); every world: the program twice in fresh processes with one --random_seed and two "
        "PYTHONHASHSEED values; some worlds of every mode a third run with the first hash seed (control) and one with "
        "another --random_seed (negative control); each pair compared row by row by TLC (Determinism.tla, invariant "
        "C09_SameChoices); a mode whose runs did not simulate anything (RunShape) is a machinery failure")
    recs, skipped, results = compare(tier, worlds, runs, pairs, res)
    report(res, recs, skipped, results, worlds)
    if skipped:
        res.notes.append(f"{len(skipped)} pair(s) skipped: both runs ended abnormally in the same way (see coverage.skipped)")
    return res


def replay(d) -> int:
    """re-run one stored divergence (same files, flags, seeds, hash seeds) against the current tree"""
    det = d.get("detail", {})
    w = det.get("world")
    if not w:
        return 0
    if "files" not in w:  # counterexamples stored before the workload modes were added
        w = {"mode": "workload_file", "program": "main.py",
             "files": [{"name": w["workload_file"], "fmt": w["workload_file"].split(".")[-1], "content": w["workload"]},
                       {"name": w["workers_file"], "fmt": w["workers_file"].split(".")[-1], "content": w["workers"]}],
             "flagfile": [ln for ln in w["flagfile"]
                          if not ln.startswith(("--workload_profile_path", "--worker_profile_path"))]
                         + ["--workload_profile_path={DIR}/" + w["workload_file"],
                            "--worker_profile_path={DIR}/" + w["workers_file"]]}
    entry = c09_modes.DRIVER if w.get("program") == os.path.basename(c09_modes.DRIVER) else "main.py"
    with Scratch(prefix="erdosverif_c09r_") as scratch:
        for f in w["files"]:
            c09_modes.write_file(os.path.join(scratch, f["name"]), f["fmt"], f["content"])
        ff = os.path.join(scratch, "flags.conf")
        with open(ff, "w") as f:
            f.write("\n".join(ln.replace("{DIR}", scratch) for ln in w["flagfile"]) + "\n")
        (s1, s2), (h1, h2) = det["random_seed"], det["hash_seeds"]
        with ThreadPoolExecutor(2) as ex:
            A, B = list(ex.map(run_main, [("a", scratch, ff, s1, h1, entry), ("b", scratch, ff, s2, h2, entry)]))
        pair = {"id": "replay", "mask": [], "a": trace_of(A), "b": trace_of(B)}
        _, divs, ends = tlc_batch((scratch, 0, [pair]))
    for dv in divs.get("replay", []):
        print(f"REPRODUCED {dv['clause']} [{key_of(dv)}] at row {dv['k']}:\n  A: {','.join(dv['a'])}\n  B: {','.join(dv['b'])}")
    if not divs:
        print(f"not reproduced: {ends['replay']['compared']} rows identical on Obs")
    return 1 if divs else 0
