----------------------------- MODULE EventQueue -----------------------------
(* simulator.py `EventQueue` (a heapq of `Event` objects) as a state machine.  *)
(*                                                                             *)
(* Event objects are the indices of `Evs` ([ty |-> EventType value 0..14,      *)
(* task |-> name-key of the task's unique_name, 0 = the event has no task]);   *)
(* an object is in the queue at most once.  Its time is given when it is       *)
(* added and may be edited in place afterwards (`Retime` = assignment to       *)
(* `_time` followed by `reheapify()`, which is what the simulator does to its  *)
(* cached placement / scheduler events).  `Pop` may return any EvLess-minimal  *)
(* element (the heap decides between ties), and nothing else.                  *)
(*                                                                             *)
(* One action per public call and outcome; the outcome (which event came       *)
(* back) is a parameter of the action so that the replay can follow the edge   *)
(* matching what the real queue answered.  `*Refused` = the call raises and    *)
(* changes nothing; `*None` = the call returns None.                           *)
EXTENDS Integers, Sequences, FiniteSets, TLC

ET == INSTANCE ErdosTime      \* time values <<count, unit>>: ET!Eq, ET!Lt, ET!Us

CONSTANTS Evs,      \* sequence of event objects [ty, task]
          Times,    \* set of time values <<count, unit>> (mixed units welcome)
          QTypes,   \* event types asked for with get_next_event_of_type
          MaxQ      \* model bound on the queue length

VARIABLES q,        \* set of [id, ty, tm, task]: the events in the queue
          floor,    \* the event popped last if no add / retime happened since, else NoEv
          obs       \* what the public getters must return (function of q)
vars == <<q, floor, obs>>

Ids  == 1..Len(Evs)
NoEv == [id |-> 0, ty |-> 0, tm |-> ET!Zero, task |-> 0]
Ev(i, t) == [id |-> i, ty |-> Evs[i].ty, tm |-> t, task |-> Evs[i].task]
InQ(i) == \E e \in q : e.id = i
Get(i) == CHOOSE e \in q : e.id = i

\* Event.__lt__, transcribed
EvLess(a, b) ==
    IF ET!Eq(a.tm, b.tm)
    THEN IF a.ty = b.ty /\ a.task # 0 /\ b.task # 0
         THEN a.task < b.task
         ELSE a.ty < b.ty
    ELSE ET!Lt(a.tm, b.tm)

MinSet(S) == {e \in S : \A f \in S : ~EvLess(f, e)}
OfType(ty) == {e \in q : e.ty = ty}

\* the documented order: time, then type priority (smaller EventType value first)
KeyLe(a, b) == ET!Lt(a.tm, b.tm) \/ (ET!Eq(a.tm, b.tm) /\ a.ty <= b.ty)
KeyMin(e, S) == \A f \in S : KeyLe(e, f)

\* len: what __len__ must return.  keymin: the events that are first in (time, type priority);
\* it is a superset of MinSet (Event.__lt__ additionally orders same-type task events by task
\* name, a convention of the code the property statement is silent about) and lets the harness
\* tell a breach of that convention from a breach of the documented order.
Observe(qq) == [len |-> Cardinality(qq), keymin |-> {e.id : e \in {x \in qq : KeyMin(x, qq)}}]

Init == q = {} /\ floor = NoEv /\ obs = Observe(q)

\* add_event(Event(type, time, task))
Add(i, t) ==
    /\ ~InQ(i) /\ Cardinality(q) < MaxQ
    /\ q' = q \cup {Ev(i, t)}
    /\ floor' = NoEv
    /\ obs' = Observe(q')

\* remove_event(e)
Remove(i) ==
    /\ InQ(i)
    /\ q' = q \ {Get(i)}
    /\ UNCHANGED floor
    /\ obs' = Observe(q')
RemoveRefused(i) == ~InQ(i) /\ UNCHANGED vars          \* ValueError

\* e._time = t ; reheapify()
Retime(i, t) ==
    /\ InQ(i) /\ Get(i).tm # t
    /\ q' = (q \ {Get(i)}) \cup {Ev(i, t)}
    /\ floor' = NoEv
    /\ obs' = Observe(q')

\* next() returned event i
Pop(i) ==
    /\ InQ(i) /\ Get(i) \in MinSet(q)
    /\ q' = q \ {Get(i)}
    /\ floor' = Get(i)
    /\ obs' = Observe(q')
PopRefused == q = {} /\ UNCHANGED vars                  \* heappop of an empty list: IndexError

\* peek() returned event i / None
Peek(i)  == InQ(i) /\ Get(i) \in MinSet(q) /\ UNCHANGED vars
PeekNone == q = {} /\ UNCHANGED vars

\* get_next_event_of_type(ty) returned event i / None
NextOfType(ty, i)  == InQ(i) /\ Get(i) \in MinSet(OfType(ty)) /\ UNCHANGED vars
NextOfTypeNone(ty) == OfType(ty) = {} /\ UNCHANGED vars

Next ==
    \/ \E i \in Ids, t \in Times : Add(i, t) \/ Retime(i, t)
    \/ \E i \in Ids : Remove(i) \/ RemoveRefused(i) \/ Pop(i) \/ Peek(i)
    \/ PopRefused \/ PeekNone
    \/ \E ty \in QTypes : NextOfTypeNone(ty) \/ \E i \in Ids : NextOfType(ty, i)

Spec == Init /\ [][Next]_vars

----------------------------------------------------------------------------
TypeOK ==
    /\ \A e \in q : e.id \in Ids /\ e = Ev(e.id, e.tm) /\ e.tm \in Times
    /\ \A e, f \in q : e.id = f.id => e = f
    /\ Cardinality(q) <= MaxQ
    /\ floor = NoEv \/ (floor.id \in Ids /\ ~InQ(floor.id))
    /\ obs = Observe(q)

\* a pop is always possible on a non-empty queue, and what Event.__lt__ calls minimal
\* is exactly what is first in (time, type priority)
C16_PopEnabled == q # {} => MinSet(q) # {}
C16_MinIsKeyMin == \A e \in MinSet(q) : KeyMin(e, q)

\* the popped element is first in (time, type priority) among the contents before the pop
C16_PopMin == [][ (floor' # floor /\ floor' # NoEv) => (floor' \in q /\ KeyMin(floor', q)) ]_vars
\* successive pops with no intervening add / retime never go backwards
C16_PopOrder == [][ (floor # NoEv /\ floor' # NoEv /\ floor' # floor) => KeyLe(floor, floor') ]_vars
\* ... because nothing left in the queue is before the element popped last
C16_FloorBelowAll == floor # NoEv => KeyMin(floor, q)
\* equal keys: same-type task events come out in task-name order
C16_TaskNameOrder ==
    [][ (floor # NoEv /\ floor' # NoEv /\ floor' # floor /\ ET!Eq(floor.tm, floor'.tm) /\ floor.ty = floor'.ty
         /\ floor.task # 0 /\ floor'.task # 0) => floor.task <= floor'.task ]_vars
\* the answers of the read-only calls are elements of the queue of the right type
C16_NextOfType == \A ty \in QTypes : \A e \in MinSet(OfType(ty)) : e.ty = ty /\ \A f \in OfType(ty) : KeyLe(e, f)

\* the (time in us, type) key of every possible event, for the harness' evidence
KeyTable == [i \in Ids |-> [t \in Times |-> <<ET!Us(t), Evs[i].ty, Evs[i].task>>]]
=============================================================================
