------------------------------ MODULE SimTrace ------------------------------
(* Code -> spec: validates batches of traces recorded from the real          *)
(* Simulator.simulate() (harness/simrun.py) against Simulator.tla.            *)
(*                                                                          *)
(* Every record carries the complete projected state after the loop action   *)
(* (as a delta), so the behaviour L0 -> L1 -> ... is fully logged; a trace    *)
(* is a behaviour of the specification iff for every record                   *)
(*        L(l+1) = the state the handler operators compute from L(l),         *)
(* the action taken is the one the loop must take (step size / pop order /    *)
(* popped event minimal), and every state invariant holds in L(l+1).          *)
(* Disagreements are *recorded* (printed as `@@V` lines: trace id, record     *)
(* index, set of clause strings) and the next step starts from the logged     *)
(* state, so every trace is examined to its end and every verdict names its   *)
(* clause.  `@@D` lines report the number of records consumed per trace.      *)
EXTENDS Simulator, Json, TLCExt

CONSTANT TraceFile
Traces == JsonDeserialize(TraceFile)

VARIABLES tid,     \* which trace of the batch
          l,       \* number of records consumed
          S,       \* current (logged) state
          expect   \* kind of record the loop must produce next: "ev" | "step"
tvars == <<tid, l, S, expect>>

Tr == Traces[tid]
World == [pools |-> Tr.pools, fl |-> Tr.flags]

EmptyState ==
    [ now |-> 0, q |-> <<>>, fut |-> <<>>,
      sch |-> [last |-> 0, next |-> -1, pend |-> 0],
      ctr |-> [fin |-> 0, can |-> 0, miss |-> 0, gfin |-> 0, gmiss |-> 0],
      wl |-> <<>>, ts |-> <<>>, tk |-> <<>>, gr |-> <<>>, cl |-> <<>>,
      pd |-> [rt |-> 0, decs |-> <<>>] ]

HasNew(d) == "new" \in DOMAIN d
NewTasks(d) == IF HasNew(d) THEN Flatten([i \in 1..Len(d.new) |-> d.new[i].tasks]) ELSE <<>>
NewGraphs(d) == IF HasNew(d) THEN [i \in 1..Len(d.new) |-> d.new[i].graph] ELSE <<>>
NewGraphIds(d) == [i \in 1..Len(NewGraphs(d)) |-> NewGraphs(d)[i].g]

DeltaTs(d, t) == IF \E i \in 1..Len(d.ts) : d.ts[i][1] = t
                 THEN d.ts[CHOOSE i \in 1..Len(d.ts) : d.ts[i][1] = t][2] ELSE [none |-> TRUE]
DeltaCl(d, p, w) == IF \E i \in 1..Len(d.cl) : d.cl[i].p = p /\ d.cl[i].w = w
                    THEN d.cl[CHOOSE i \in 1..Len(d.cl) : d.cl[i].p = p /\ d.cl[i].w = w] ELSE [none |-> TRUE]

\* the state extended with the statically new tasks / graphs of a delta (dynamic part from the delta)
Extend(St, d) ==
    LET tk2 == St.tk \o NewTasks(d)
        gr2 == St.gr \o NewGraphs(d)
    IN  [St EXCEPT !.tk = tk2, !.gr = gr2,
                   !.ts = [t \in 1..Len(tk2) |-> IF t <= Len(St.ts) THEN St.ts[t] ELSE DeltaTs(d, t)]]

ApplyDelta(St, d) ==
    LET X == Extend(St, d) IN
    [X EXCEPT !.now = d.now, !.q = d.q, !.fut = d.fut, !.sch = d.sch, !.ctr = d.ctr, !.wl = d.wl,
              !.ts = [t \in 1..Len(X.ts) |-> IF DeltaTs(d, t) # [none |-> TRUE] THEN DeltaTs(d, t) ELSE X.ts[t]],
              !.cl = IF St.cl = <<>> THEN d.cl
                     ELSE [k \in 1..Len(St.cl) |->
                            IF DeltaCl(d, St.cl[k].p, St.cl[k].w) # [none |-> TRUE]
                            THEN DeltaCl(d, St.cl[k].p, St.cl[k].w) ELSE St.cl[k]]]

Rec(k) == Tr.recs[k]
NRecs == Len(Tr.recs)

----------------------------------------------------------------------------
(* field-wise comparison of the computed and the logged state *)
AsSet(s) == {s[i] : i \in 1..Len(s)}
QDiffTypes(a, b) ==    \* event types on which two queues (bags) differ
    {a[i].ty : i \in {i \in 1..Len(a) : Count(a, a[i]) # Count(b, a[i])}} \cup
    {b[i].ty : i \in {i \in 1..Len(b) : Count(a, b[i]) # Count(b, b[i])}}
TsFields == {"st", "pss", "rel", "irel", "dl", "start", "rem", "last", "fin", "cat", "pool", "plan", "prob", "ppool"}
Diff(E, L) ==
    (IF E.now # L.now THEN {<<"now", "">>} ELSE {}) \cup
    {<<"q", ty>> : ty \in QDiffTypes(E.q, L.q)} \cup
    (IF AsSet(E.fut) # AsSet(L.fut) THEN {<<"fut", "">>} ELSE {}) \cup
    {<<"sch", f>> : f \in {f \in {"last", "next", "pend"} : E.sch[f] # L.sch[f]}} \cup
    {<<"ctr", f>> : f \in {f \in {"fin", "can", "miss", "gfin", "gmiss"} : E.ctr[f] # L.ctr[f]}} \cup
    (IF E.wl # L.wl THEN {<<"wl", "">>} ELSE {}) \cup
    (IF Len(E.ts) # Len(L.ts) THEN {<<"ts.len", "">>}
     ELSE UNION {{<<"ts", f>> : f \in {f \in TsFields : E.ts[t][f] # L.ts[t][f]}} : t \in 1..Len(E.ts)}) \cup
    (IF Len(E.cl) # Len(L.cl) THEN {<<"cl.len", "">>}
     ELSE UNION {
        (IF E.cl[k].av # L.cl[k].av THEN {<<"cl", "av">>} ELSE {}) \cup
        (IF "agg" \in DOMAIN L.cl[k] /\ L.cl[k].agg # 1 THEN {<<"cl", "agg">>} ELSE {}) \cup
        (IF AsSet(E.cl[k].occ) # AsSet(L.cl[k].occ) THEN {<<"cl", "occ">>} ELSE {}) \cup
        (IF AsSet(E.cl[k].inpool) # AsSet(L.cl[k].inpool) THEN {<<"cl", "inpool">>} ELSE {}) \cup
        (IF AsSet(E.cl[k].pend) # AsSet(L.cl[k].pend) THEN {<<"cl", "pend">>} ELSE {}) \cup
        (IF AsSet(E.cl[k].avl) # AsSet(L.cl[k].avl) THEN {<<"cl", "avl">>} ELSE {})
        : k \in 1..Len(E.cl)})

InvViol(W, St) ==
    (IF C01_NoOversub(W, St) THEN {} ELSE {<<"inv", "C01_NoOversub">>}) \cup
    (IF C01_LedgerAgrees(W, St) THEN {} ELSE {<<"inv", "C01_LedgerAgrees">>}) \cup
    (IF C01_Backed(W, St) THEN {} ELSE {<<"inv", "C01_Backed">>}) \cup
    (IF C01_SingleWorker(St) THEN {} ELSE {<<"inv", "C01_SingleWorker">>}) \cup
    (IF C01_AvRange(W, St) THEN {} ELSE {<<"inv", "C01_AvRange">>}) \cup
    (IF C04_IdleMeansFull(W, St) THEN {} ELSE {<<"inv", "C04_IdleMeansFull">>}) \cup
    (IF C02_StartedProperly(St) THEN {} ELSE {<<"inv", "C02_StartedProperly">>}) \cup
    (IF C03_HoldUntilDue(St) THEN {} ELSE {<<"inv", "C03_HoldUntilDue">>}) \cup
    (IF C03_CompletedTiming(St) THEN {} ELSE {<<"inv", "C03_CompletedTiming">>}) \cup
    (IF C03_ExactCompletion(W, St) THEN {} ELSE {<<"inv", "C03_ExactCompletion">>}) \cup
    (IF C03_NotBeforePlan(St) THEN {} ELSE {<<"inv", "C03_NotBeforePlan">>}) \cup
    (IF C06_StarvedNeverRuns(St) THEN {} ELSE {<<"inv", "C06_StarvedNeverRuns">>}) \cup
    (IF C06_CancelClosure(St) THEN {} ELSE {<<"inv", "C06_CancelClosure">>}) \cup
    (IF C07_OneBranch(St) THEN {} ELSE {<<"inv", "C07_OneBranch">>}) \cup
    (IF C07_ResolvedAtSubmission(W, St) THEN {} ELSE {<<"inv", "C07_ResolvedAtSubmission">>}) \cup
    (IF C19_ClosedLoop(St) THEN {} ELSE {<<"inv", "C19_ClosedLoop">>})

EdgeViol(A, Bs) ==
    {<<"edge", A.ts[t].st, Bs.ts[t].st>> : t \in {t \in 1..Len(A.ts) : ~LegalEdge(A.ts[t].st, Bs.ts[t].st)}}

----------------------------------------------------------------------------
(* bindings of the nondeterministic inputs from the record *)
DrawOf(r) == IF \E i \in 1..Len(r.draws) : r.draws[i].fn = "choices"
             THEN r.draws[CHOOSE i \in 1..Len(r.draws) : r.draws[i].fn = "choices"].res ELSE 0
Binding(r, L) ==
    [ draw |-> DrawOf(r),
      upd |-> IF "upd" \in DOMAIN r THEN r.upd ELSE FALSE,
      newg |-> NewGraphIds(r.post),
      fuzz |-> IF r.ty = E_PLACEMENT /\ r.t <= Len(L.ts) THEN L.ts[r.t].rem ELSE 0,
      decs |-> IF "sched" \in DOMAIN r THEN r.sched ELSE [rt |-> 0, decs |-> <<>>],
      offered1 |-> IF r.offers # <<>> THEN r.offers[1].res ELSE <<>>,
      offered2 |-> IF r.offers # <<>> THEN r.offers[Len(r.offers)].res ELSE <<>> ]

\* checks on the drawn branch (C07): drawn among the children, with non-zero weight
DrawViol(St, r) ==
    IF r.k = "ev" /\ r.ty = E_FINISHED /\ r.t <= Len(St.tk) /\ St.tk[r.t].cond
    THEN LET ds == SelectSeq(r.draws, LAMBDA d : d.fn = "choices") IN
         IF ds = <<>> THEN {}
         ELSE (IF Len(ds) > 1 THEN {<<"draw", "several">>} ELSE {}) \cup
              (IF AsSet(ds[1].pop) # AsSet(St.tk[r.t].ch) THEN {<<"draw", "population">>} ELSE {}) \cup
              (IF \E i \in 1..Len(ds[1].pop) : ds[1].pop[i] = ds[1].res /\ ds[1].w[i] = 0
               THEN {<<"draw", "zero_weight">>} ELSE {})
    ELSE {}

----------------------------------------------------------------------------
StepViol(St, r) ==
    LET c == LoopChoice(St) IN
    (IF r.size # c.size THEN {<<"loop", "step_size">>} ELSE {}) \cup
    (IF r.size < 0 THEN {<<"loop", "negative_step">>} ELSE {})

EvOf(r) == [ty |-> r.ty, tm |-> r.tm, t |-> r.t, g |-> r.g, pl |-> r.pl, pr |-> r.pr]
PopViol(St, r) ==
    LET e == EvOf(r) IN
    IF ~InSeq(e, St.q) THEN {<<"pop", "not_in_queue">>}
    ELSE (IF \E j \in 1..Len(St.q) : EvLess(St, St.q[j], e) THEN {<<"pop", "not_minimal">>} ELSE {}) \cup
         (IF e.tm # St.now THEN {<<"pop", "time_ne_now">>} ELSE {})

\* C18: every get_schedulable_tasks call made during the handler
OfferViol(St, o) ==
    (IF C18_NoStarvation(St, o.tm, o.res) THEN {} ELSE {<<"frontier", "C18_NoStarvation">>}) \cup
    (IF C18_NoDead(St, o.res) THEN {} ELSE {<<"frontier", "C18_NoDead">>}) \cup
    (IF C18_ScheduledOnlyIfRetract(St, o.res, o.ret, o.pre) THEN {} ELSE {<<"frontier", "C18_ScheduledOnlyIfRetract">>}) \cup
    (IF C18_RunningOnlyIfPreempt(St, o.res, o.pre) THEN {} ELSE {<<"frontier", "C18_RunningOnlyIfPreempt">>}) \cup
    (IF ~World.fl.no_plan_ahead THEN {}
     ELSE LET off == C18_ParentsDoneOffenders(St, o.res, o.la, o.rtg)
              overdue(t) == OverduePlacementInGraph(St, GraphOf(St, t), o.tm)
              lateSrc(t) == UnreleasedSourceParent(St, t)
              branch(t) == o.pol # "ALL" /\ ParentOnUnpredictedBranch(St, t)
          IN
          (IF \E t \in off : ~overdue(t) /\ ~lateSrc(t) /\ ~branch(t) THEN {<<"frontier", "C18_ParentsDone">>} ELSE {}) \cup
          (IF \E t \in off : ~overdue(t) /\ ~lateSrc(t) /\ branch(t) THEN {<<"frontier", "C18_ParentsDone_parent_on_unpredicted_branch">>} ELSE {}) \cup
          (IF \E t \in off : overdue(t) THEN {<<"frontier", "C18_ParentsDone_after_deferred_placement">>} ELSE {}) \cup
          (IF \E t \in off : ~overdue(t) /\ lateSrc(t) THEN {<<"frontier", "C18_ParentsDone_unreleased_source_parent">>} ELSE {})) \cup
    (IF C18_NoDuplicates(o.res) THEN {} ELSE {<<"frontier", "C18_NoDuplicates">>}) \cup
    (IF ~o.pre /\ FrontierDeterministic(St, o.pol) /\ Schedulable(St, o.tm, o.la, o.ret, o.rtg) # o.res
     THEN {<<"frontier", "C18_Exact">>} ELSE {}) \cup
    UNION {(IF Range(o.res) \subseteq Range(o.probes[k].res) THEN {} ELSE {<<"frontier", "C18_Monotone">>}) \cup
           (IF ~o.pre /\ Schedulable(St, o.tm, o.probes[k].la, o.ret, o.probes[k].rtg) # o.probes[k].res
            THEN {<<"frontier", "C18_ExactProbe">>} ELSE {})
           : k \in 1..Len(o.probes)}
FrontierViol(St, r) == UNION {OfferViol(St, r.offers[i]) : i \in 1..Len(r.offers)}

HasExc(r) == "exc" \in DOMAIN r
RowViol(exp, got) ==
    {<<"row", exp[i].ty>> : i \in {i \in 1..Len(exp) : Count(exp, exp[i]) # Count(got, exp[i])}} \cup
    {<<"row", got[i].ty>> : i \in {i \in 1..Len(got) : Count(exp, got[i]) # Count(got, got[i])}}

Init == /\ tid \in 1..Len(Traces)
        /\ l = 0
        /\ S = ApplyDelta(EmptyState, Traces[tid].init)
        /\ expect = "step"

Next ==
    /\ l < NRecs
    /\ l' = l + 1
    /\ UNCHANGED tid
    /\ LET r == Rec(l + 1)
           L0 == ApplyDelta(S, r.post)
       IN
       IF r.k = "step"
       THEN LET E == DoStep(S, r.size)
                L == [L0 EXCEPT !.pd = S.pd]
                v == (IF expect # "step" THEN {<<"loop", "expected_pop">>} ELSE {})
                     \cup StepViol(S, r)
                     \cup (IF HasExc(r) THEN {<<"exc", "step">>} ELSE Diff(E, L))
                     \cup (IF r.rows # <<>> THEN {<<"row", "in_step">>} ELSE {})
                     \cup InvViol(World, L) \cup EdgeViol(S, L)
            IN  /\ S' = L
                /\ expect' = IF LoopChoice(S).pop THEN "ev" ELSE "step"
                /\ (v = {} \/ PrintT(<<"@@V", tid, l + 1, v>>))
       ELSE LET Sx == Extend(S, r.post)
                e == EvOf(r)
                B == Binding(r, L0)
                h == Handle(World, QRemove(Sx, e), e, B)
                L == [L0 EXCEPT !.pd = h.S.pd]
                v == (IF expect # "ev" THEN {<<"loop", "expected_step">>} ELSE {})
                     \cup PopViol(S, r)
                     \cup (IF h.err # "" /\ ~HasExc(r) THEN {<<"err_expected", h.err>>} ELSE {})
                     \cup (IF h.err = "" /\ HasExc(r)
                           THEN {<<"exc", IF r.ty = E_PLACEMENT THEN "unexpected_in_placement" ELSE "unexpected">>} ELSE {})
                     \cup (IF h.err = "" /\ ~HasExc(r) THEN Diff(h.S, L) ELSE {})
                     \* C18 / C02: the TASK_RELEASE handler releases the task (and nothing else happens to it)
                     \cup (IF r.ty = E_RELEASE /\ h.err = "" /\ ~HasExc(r) /\ Diff(h.S, L) # {} THEN {<<"release", "handler">>} ELSE {})
                     \cup (IF r.ty = E_PLACEMENT /\ r.t <= Len(S.ts) /\ S.ts[r.t].st = SCHEDULED
                              /\ L.ts[r.t].st = RUNNING /\ ~FuzzOK(World, S, r.t, L.ts[r.t].rem)
                           THEN {<<"fuzz", "range">>} ELSE {})
                     \cup (IF h.err = "" /\ ~HasExc(r) THEN RowViol(RowsOf(World, QRemove(Sx, e), e, B, h.S), r.rows) ELSE {})
                     \cup (IF r.ty = E_END /\ ~C08_Counters(L) THEN {<<"inv", "C08_Counters">>} ELSE {})
                     \cup (IF r.ty = E_END /\ ~C05_NoPrematureEnd(World, L) THEN {<<"inv", "C05_NoPrematureEnd">>} ELSE {})
                     \cup (IF r.ty = E_END /\ ~C19_ClosedLoopTotal(World, L) THEN {<<"inv", "C19_ClosedLoopTotal">>} ELSE {})
                     \cup (IF r.ty = E_END /\ ~C05_FeasibleAllDone(World, L) THEN {<<"inv", "C05_FeasibleAllDone">>} ELSE {})
                     \cup (IF C05_ByTimeout(World, L) THEN {}
                           ELSE IF C05_SchedulerOvershoot(World, L) THEN {<<"inv", "C05_ByTimeout_scheduler_runtime_overshoot">>}
                           ELSE {<<"inv", "C05_ByTimeout">>})
                     \cup (IF ~C08_CancelCounter(L) THEN {<<"inv", "C08_CancelCounter">>} ELSE {})
                     \cup (IF h.err = "" /\ ~HasExc(r)
                           THEN FrontierViol(IF r.ty = E_SCHED_FIN THEN [L EXCEPT !.now = S.now] ELSE QRemove(Sx, e), r) ELSE {})
                     \* C07: a conditional that completes releases exactly one child - its own completion never cancels ALL of them
                     \cup (IF r.ty = E_FINISHED /\ r.t <= Len(Sx.tk) /\ Sx.tk[r.t].cond /\ h.err = "" /\ ~HasExc(r)
                              /\ L.ts[r.t].st = COMPLETED /\ Children(Sx, r.t) # <<>>
                              /\ (\A i \in 1..Len(Children(Sx, r.t)) : L.ts[Children(Sx, r.t)[i]].st = CANCELLED)
                              \* (a policy that cancelled the taken branch beforehand leaves nothing to release: not judged)
                              /\ (\A i \in 1..Len(Children(Sx, r.t)) : Sx.ts[Children(Sx, r.t)[i]].st # CANCELLED)
                           THEN {<<"inv", "C07_CompletedConditionalReleasesNone">>} ELSE {})
                     \cup DrawViol(Sx, r)
                     \cup InvViol(World, L) \cup EdgeViol(Sx, L)
            IN  /\ S' = L
                /\ expect' = "step"
                /\ (v = {} \/ PrintT(<<"@@V", tid, l + 1, v>>))

\* C08: what the project's CSVReader reconstructed from the rows of this run
HasReader == "reader" \in DOMAIN Tr
ReaderViol(St) ==
    IF ~HasReader THEN {}
    ELSE LET rd == Tr.reader IN
    IF rd.exc # ""
    THEN \* known deviation: any TASK_CANCEL row marks the whole graph as dropped in the reader, so an unfinished
         \* graph with a cancelled (untaken) branch makes its summary assertion fail
         IF \E i \in 1..Len(St.wl) : LET g == St.wl[i] IN
                ~GComplete(St, g) /\ ~GCancelled(St, g) /\ \E k \in 1..Len(GTasks(St, g)) : St.ts[GTasks(St, g)[k]].st = CANCELLED
         THEN {<<"reader", "rejects_unfinished_graph_with_cancelled_branch">>}
         ELSE {<<"reader", "exception">>}
    ELSE
      (IF \E i \in 1..Len(rd.tasks) : rd.tasks[i].t = 0 THEN {<<"reader", "unknown_task">>} ELSE {}) \cup
      (IF \A t \in 1..NT(St) : St.ts[t].st = COMPLETED =>
            \E i \in 1..Len(rd.tasks) : LET r == rd.tasks[i] IN
                /\ r.t = t /\ r.comp = St.ts[t].fin /\ r.rel = St.ts[t].rel /\ r.dl = St.ts[t].dl
                /\ r.missed = (St.ts[t].fin > St.ts[t].dl) /\ ~r.cancelled /\ r.nplace >= 1
                /\ (r.ptime = St.ts[t].start \/ (St.ts[t].ppool # 0 /\ r.ptime >= St.ts[t].start))   \* migrated: last placement = the migration
       THEN {} ELSE {<<"reader", "completed_task">>}) \cup
      (IF \A i \in 1..Len(rd.tasks) : LET r == rd.tasks[i] IN r.t # 0 =>
            /\ (r.cancelled => St.ts[r.t].st = CANCELLED)
            /\ (r.comp # -1 => St.ts[r.t].st = COMPLETED)
       THEN {} ELSE {<<"reader", "task_status">>}) \cup
      (IF \A i \in 1..Len(rd.graphs) : LET r == rd.graphs[i] IN r.g # 0 =>
            /\ (r.comp # -1) = GComplete(St, r.g)
            /\ (r.comp # -1 => r.comp = SeqMax([k \in 1..Len(Sinks(St, r.g)) |-> St.ts[Sinks(St, r.g)[k]].fin], -1))
            /\ r.dl = GDeadline(St, r.g) /\ r.n = Len(GTasks(St, r.g))
       THEN {} ELSE {<<"reader", "graph_status">>}) \cup
      (IF rd.sim = <<St.ctr.fin, St.ctr.can, St.ctr.miss, St.ctr.gfin,
                     Cardinality({i \in 1..Len(St.wl) : GCancelled(St, St.wl[i])}), St.ctr.gmiss>>
       THEN {} ELSE {<<"reader", "summary">>})

Done == l = NRecs => /\ PrintT(<<"@@D", tid, l>>)
                     /\ (ReaderViol(S) = {} \/ PrintT(<<"@@V", tid, l, ReaderViol(S)>>))

Spec == Init /\ [][Next]_tvars
=============================================================================
