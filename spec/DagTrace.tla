------------------------------ MODULE DagTrace ------------------------------
(* Call-record validation for C17: every recorded call of a public method of *)
(* Graph / TaskGraph / JobGraph is judged against the definitions of Dag.tla. *)
(*                                                                           *)
(* File is a JSON array of SESSIONS.  A session is the life of real objects  *)
(* that are driven through one sequence of states of the graph machine of    *)
(* Dag.tla (EmptyG, AddNodeG, AddChildG, RemoveG) and queried on the way:    *)
(*   { "g": gid, "n": N,                     nodes are taken from 1..N       *)
(*     "init": [ {"v": node, "cs": [children]} ... ]   the mapping handed to *)
(*                                           the constructor ([] = Graph())  *)
(*     "muts": [ {"op": "add_node" | "add_child" | "remove", "a": x, "b": y} *)
(*               ... ]                       the mutator calls, in order     *)
(*     "calls": [ { "id": k, "obj": o, "ver": j, "method": m, "func": f,     *)
(*                  "args": [...], "w": [w1..wN] | [],                       *)
(*                  "result": value | 0, "raised": "" | exception type } ] } *)
(* Every object o of the session receives every mutator call; call k was     *)
(* made on object o when exactly the first j mutator calls had been applied  *)
(* (version j; version 0 = the constructed object).  `calls` is in the order  *)
(* in which the calls were made.  The specification computes the state of    *)
(* the machine at every version and judges EVERY call against the state AT   *)
(* ITS VERSION: the answer of a query is a function of the current graph     *)
(* only -- not of earlier queries on the object (the harness shuffles and    *)
(* repeats them), not of the way the graph was built, not of what the answer *)
(* was before the last mutation.  `w` is the weight vector the call was made  *)
(* with (get_longest_path, critical_path_runtime, completion_time; [] = the  *)
(* default weights of get_longest_path); `func` is "" | "min" | "max", the   *)
(* optional argument of get_node_depth.                                      *)
(*                                                                           *)
(* Pinned convention (conv.cached_property): TaskGraph / JobGraph declare    *)
(* critical_path_runtime (functools.cached_property) and completion_time as  *)
(* computed once.  A read that does not equal the maximum of the current     *)
(* graph but repeats the value an earlier read of the same property on the   *)
(* same object returned at an earlier version is reported under              *)
(* info.cached_property (never a violation); any other value is judged.      *)
(*                                                                           *)
(* The checks are relational: any order / path / enumeration satisfying the  *)
(* definition is accepted.  For n <= BFMax the defining (brute force) forms   *)
(* decide, above that the polynomial forms (DagMC shows they agree; on every  *)
(* recorded graph with n <= BFMax both forms are evaluated and a difference   *)
(* is reported under the clause spec.selfcheck = broken oracle).              *)
(* One TLC state per session; every failing record is reported as            *)
(*   <<"@@", id, clause, reason, expected>>                                  *)
(* and every chain ends with                                                 *)
(*   <<"@@done", chain, sessions judged, clause -> records judged, fails>>.  *)
EXTENDS Dag, Json, Integers

CONSTANTS File,     \* absolute path of the JSON batch
          BFMax,    \* largest n judged with the brute-force definitions
          Chains    \* entries k, k + Chains, k + 2 Chains, ... form one behaviour,
                    \* so that up to `Chains` TLC workers judge in parallel

VARIABLES pos,      \* index of the next graph entry of this chain
          cnt,      \* clause -> number of records judged under it (this chain)
          nfail,    \* number of failing records so far (this chain)
          fin       \* the chain has printed its summary
vars == <<pos, cnt, nfail, fin>>

Batch == JsonDeserialize(File)

V(clause, reason, exp) == [clause |-> clause, reason |-> reason, exp |-> exp]
Pass(clause) == V(clause, "", 0)

\* a method that needs a topological order was called on a cyclic graph
OnCycle(c) ==
    IF c.raised = "RuntimeError" THEN Pass("C17.topo_cycle")
    ELSE IF c.raised = "" THEN V("C17.topo_cycle", "cycle_not_reported", "RuntimeError")
    ELSE V("C17.topo_cycle", "wrong_exception_on_cycle", "RuntimeError")

\* verdict on a listing of a node set (sources / sinks)
SetListing(clause, what, s, expected) ==
    IF ~NoDup(s) THEN V(clause, what \o "_listed_twice", expected)
    ELSE IF expected \ Range(s) # {} THEN V(clause, what \o "_missing", expected)
    ELSE IF Range(s) \ expected # {} THEN V(clause, "non_" \o what \o "_listed", expected)
    ELSE Pass(clause)

NodeSeqMethods == {"topological_sort", "get_sources", "get_source_tasks", "get_sink_tasks",
                   "get_longest_path", "breadth_first", "depth_first_all", "depth_first",
                   "breadth_first_from"}
NodeArgMethods == {"get_node_depth", "are_dependent", "depth_first", "breadth_first_from"}

\* a call record renamed to the node set 1..|V| (Dag.tla, Rank)
Ren(Vs, c) ==
    [c EXCEPT
        !.args   = IF c.method \in NodeArgMethods
                   THEN [i \in 1..Len(c.args) |-> Rank(Vs, c.args[i])] ELSE c.args,
        !.result = IF c.raised = "" /\ c.method \in NodeSeqMethods
                   THEN [i \in 1..Len(c.result) |-> Rank(Vs, c.result[i])] ELSE c.result,
        !.w      = IF Len(c.w) = 0 THEN c.w
                   ELSE [i \in 1..Cardinality(Vs) |-> c.w[Unrank(Vs, i)]]]

\* verdicts <<id, verdict>> for the calls g.calls[k], k \in idx, all made on the
\* state <<V0, E0>> of the graph machine
EvalAt(V0, E0, g, idx) ==
    LET n     == Cardinality(V0)
        same  == IsCompact(V0)
        E     == IF same THEN E0 ELSE CompactE([V |-> V0, E |-> E0])
        Call(k) == IF same THEN g.calls[k] ELSE Ren(V0, g.calls[k])
        cyc   == HasCycle(n, E)
        small == n <= BFMax
        srcs  == Sources(n, E)
        snks  == Sinks(n, E)
        reach == ReachTable(n, E)
        depth == DepthTable(n, E)
        mindepth == MinDepthTable(n, E)
        Wof(c) == IF Len(c.w) = 0 THEN DefaultW(n, E) ELSE c.w
        LW(W)  == IF small THEN LongestWeightDef(n, E, W) ELSE LongestWeight(n, E, W)

        Topo(c) ==
            LET s == c.result
            IN  IF c.raised = "RuntimeError" THEN V("C17.topo_cycle", "cycle_reported_on_dag", "")
                ELSE IF c.raised # "" THEN V("C17.topo_order", "raised_on_dag", "")
                ELSE IF ~IsPerm(n, s) THEN V("C17.topo_order", "not_every_node_once", n)
                ELSE IF TopoOK(n, E, s) THEN Pass("C17.topo_order")
                ELSE V("C17.topo_order", "node_before_predecessor",
                       CHOOSE e \in E : Pos(s, e[1]) >= Pos(s, e[2]))

        LongestPath(c) ==
            LET p  == c.result
                W  == Wof(c)
                lw == LW(W)
                isPath == IF small THEN p \in Paths(n, E) ELSE IsSrcSinkPath(n, E, p)
                tag == IF Len(c.w) = 0 THEN "_default_weights" ELSE ""
            IN  IF small /\ lw # LongestWeight(n, E, W)
                     THEN V("spec.selfcheck", "LongestWeightDef_differs_from_LongestWeight", lw)
                ELSE IF c.raised # "" THEN V("C17.longest_path", "raised_on_dag", lw)
                ELSE IF Len(p) = 0 \/ Range(p) \ Nodes(n) # {}
                          \/ \E k \in 1..(Len(p) - 1) : <<p[k], p[k + 1]>> \notin E
                     THEN V("C17.longest_path", "not_a_path" \o tag, lw)
                ELSE IF p[1] \notin srcs THEN V("C17.longest_path", "does_not_start_at_source" \o tag, lw)
                ELSE IF p[Len(p)] \notin snks THEN V("C17.longest_path", "does_not_end_at_sink" \o tag, lw)
                ELSE IF ~isPath THEN V("C17.longest_path", "not_in_Paths" \o tag, lw)
                ELSE IF Wt(W, p) # lw THEN V("C17.longest_path", "not_maximum_weight" \o tag, lw)
                ELSE Pass("C17.longest_path")

        Critical(c) ==
            LET lw == LW(c.w)
            IN  IF c.raised # "" THEN V("C17.critical_path", "raised_on_dag", lw)
                ELSE IF c.result < lw THEN V("C17.critical_path", "below_maximum_path_weight", lw)
                ELSE IF c.result > lw THEN V("C17.critical_path", "above_maximum_path_weight", lw)
                ELSE Pass("C17.critical_path")

        Dep(c) ==
            LET a == c.args[1]
                b == c.args[2]
                exp == IF small THEN Dependent(E, a, b)
                       ELSE (b \in reach[a]) \/ (a \in reach[b])
            IN  IF c.raised # "" THEN V("C17.dependent", "raised_on_dag", exp)
                ELSE IF c.result = exp THEN Pass("C17.dependent")
                ELSE IF exp THEN V("C17.dependent", "false_for_reachable_pair", exp)
                ELSE V("C17.dependent", "true_for_unreachable_pair", exp)

        \* get_node_depth(v) = get_node_depth(v, func=max): deepest parent + 1;
        \* get_node_depth(v, func=min): shallowest parent + 1
        NodeDepth(c) ==
            LET v == c.args[1]
                mn == c.func = "min"
                tag == IF mn THEN "min_" ELSE ""
                tbl == IF mn THEN mindepth[v] ELSE depth[v]
                exp == IF ~small THEN tbl
                       ELSE IF mn THEN MinDepthDef(E, v) ELSE DepthDef(E, v)
            IN  IF c.func \notin {"", "min", "max"} THEN V("spec.unsupported", "unknown_func", c.func)
                ELSE IF exp # tbl THEN V("spec.selfcheck", "DepthDef_differs_from_DepthTable", exp)
                ELSE IF c.raised # "" THEN V("C17.depth", tag \o "raised_on_dag", exp)
                ELSE IF c.result < exp THEN V("C17.depth", tag \o "depth_too_small", exp)
                ELSE IF c.result > exp THEN V("C17.depth", tag \o "depth_too_large", exp)
                ELSE Pass("C17.depth")

        Bfs(c) ==
            LET s == c.result
            IN  IF c.raised # "" THEN V("C17.bfs", "raised_on_dag", "")
                ELSE IF ~NoDup(s) THEN V("C17.bfs", "node_repeated", n)
                ELSE IF Nodes(n) \ Range(s) # {} THEN V("C17.bfs", "node_missing", Nodes(n) \ Range(s))
                ELSE IF Range(s) \ Nodes(n) # {} THEN V("C17.bfs", "unknown_node", n)
                ELSE IF BfsOK(n, E, s) THEN Pass("C17.bfs")
                ELSE V("C17.bfs", "node_before_parent",
                       CHOOSE e \in E : Pos(s, e[1]) >= Pos(s, e[2]))

        \* depth-first enumeration `s` against the expected node set
        DfsAgainst(s, exp, raised) ==
            IF raised # "" THEN V("C17.dfs", "raised_on_dag", exp)
            ELSE IF ~NoDup(s) THEN
                LET dups == {d \in Range(s) : Cardinality({k \in 1..Len(s) : s[k] = d}) > 1}
                IN  IF \A d \in dups : \E p \in Pred(E, d) \cap exp : SkipEdge(E, p, d)
                    THEN V("C17.dfs", "duplicate_node_on_skip_edge", exp)
                    ELSE V("C17.dfs", "duplicate_node", exp)
            ELSE IF exp \ Range(s) # {} THEN V("C17.dfs", "reachable_node_missing", exp)
            ELSE IF Range(s) \ exp # {} THEN V("C17.dfs", "unreachable_node_yielded", exp)
            ELSE Pass("C17.dfs")

        \* not part of the property statement: breadth-first iteration from a node
        \* (reported under an `info.` clause, never a violation)
        BfsFrom(c) ==
            LET s == c.result
                a == c.args[1]
                exp == {a} \cup reach[a]
            IN  IF c.raised # "" THEN V("info.bfs_from", "raised_on_dag", exp)
                ELSE IF ~NoDup(s) THEN V("info.bfs_from", "node_repeated", exp)
                ELSE IF exp \ Range(s) # {} THEN V("info.bfs_from", "reachable_node_missing", exp)
                ELSE IF Range(s) \ exp # {} THEN V("info.bfs_from", "unreachable_node_yielded", exp)
                ELSE IF \E k \in 1..Len(s) : \E p \in Pred(E, s[k]) \cap exp :
                            ~\E j \in 1..(k - 1) : s[j] = p
                     THEN V("info.bfs_from", "node_before_reachable_parent", exp)
                ELSE Pass("info.bfs_from")

        NeedsTopo(m) == m \in {"topological_sort", "get_longest_path", "critical_path_runtime",
                               "completion_time", "are_dependent", "get_node_depth"}

        Judge(c) ==
            \* the constructor and the mutator calls are only recorded when they raise:
            \* a call the graph machine allows (ok at this version) must succeed
            IF c.method \in {"construct", "add_node", "add_child", "remove"}
                THEN IF c.raised # "" THEN V("C17.mutator", "allowed_call_raised", c.method)
                     ELSE Pass("C17.mutator")
            ELSE IF c.method \in {"get_sources", "get_source_tasks"}
                THEN IF c.raised # "" THEN V("C17.sources", "raised", srcs)
                     ELSE SetListing("C17.sources", "source", c.result, srcs)
            ELSE IF c.method = "get_sink_tasks"
                THEN IF c.raised # "" THEN V("C17.sinks", "raised", snks)
                     ELSE SetListing("C17.sinks", "sink", c.result, snks)
            ELSE IF \E i \in 1..Len(c.args) : c.args[i] \notin Nodes(n)
                THEN V("spec.unsupported", "argument_is_not_a_node_of_this_version", c.args)
            ELSE IF NeedsTopo(c.method) /\ cyc THEN OnCycle(c)
            \* traversals are only judged on DAGs (counted, no verdict)
            ELSE IF cyc THEN Pass("info.traversal_on_cycle")
            ELSE IF c.method = "topological_sort" THEN Topo(c)
            ELSE IF c.method = "get_longest_path" THEN LongestPath(c)
            ELSE IF c.method \in {"critical_path_runtime", "completion_time"} THEN Critical(c)
            ELSE IF c.method = "are_dependent" THEN Dep(c)
            ELSE IF c.method = "get_node_depth" THEN NodeDepth(c)
            ELSE IF c.method = "breadth_first" THEN Bfs(c)
            ELSE IF c.method = "depth_first"
                THEN DfsAgainst(c.result, {c.args[1]} \cup reach[c.args[1]], c.raised)
            ELSE IF c.method = "depth_first_all"
                THEN DfsAgainst(c.result, Closure(E, srcs), c.raised)
            ELSE IF c.method = "breadth_first_from" THEN BfsFrom(c)
            ELSE V("spec.unsupported", "unknown_method", c.method)
    IN  {<<k, Judge(Call(k))>> : k \in idx}

\* the states of the graph machine: version 0 = Graph(init), version j = after
\* the first j mutator calls; `ok` = every call so far was one the machine allows
RECURSIVE InitFold(_, _, _)
InitFold(G, init, k) ==
    IF k > Len(init) THEN G
    ELSE InitFold(AddChildrenG(AddNodeG(G, init[k].v), init[k].v, init[k].cs, 1), init, k + 1)
InitOK(init) ==
    /\ \A i, j \in 1..Len(init) : i # j => init[i].v # init[j].v
    /\ \A i \in 1..Len(init) : NoDup(init[i].cs)

MutOK(G, m) ==
    CASE m.op = "add_node"  -> TRUE
      [] m.op = "add_child" -> CanAddChild(G, m.a, m.b)
      [] m.op = "remove"    -> CanRemove(G, m.a)
      [] OTHER              -> FALSE
MutApply(G, m) ==
    CASE m.op = "add_node"  -> AddNodeG(G, m.a)
      [] m.op = "add_child" -> AddChildG(G, m.a, m.b)
      [] m.op = "remove"    -> RemoveG(G, m.a)
      [] OTHER              -> G

RECURSIVE VersionsFrom(_, _, _)
VersionsFrom(acc, muts, k) ==
    IF k > Len(muts) THEN acc
    ELSE LET last == acc[Len(acc)]
         IN  VersionsFrom(Append(acc, [G  |-> MutApply(last.G, muts[k]),
                                       ok |-> last.ok /\ MutOK(last.G, muts[k])]),
                          muts, k + 1)
Versions(g) == VersionsFrom(<<[G |-> InitFold(EmptyG, g.init, 1), ok |-> InitOK(g.init)]>>, g.muts, 1)

CachedProps == {"critical_path_runtime", "completion_time"}

\* verdicts <<id, verdict>> for all calls of one session
EvalGraph(g) ==
    LET vers == Versions(g)
        K    == 1..Len(g.calls)
        used == {g.calls[k].ver : k \in K}
        At(j) ==
            LET idx == {k \in K : g.calls[k].ver = j}
            IN  IF j \notin 0..Len(g.muts)
                    THEN {<<k, V("spec.unsupported", "no_such_version", j)>> : k \in idx}
                ELSE LET st == vers[j + 1]
                     IN  IF ~st.ok THEN {<<k, V("spec.unsupported", "mutation_outside_the_machine", j)>> : k \in idx}
                         ELSE IF st.G.V = {} \/ ~(st.G.V \subseteq 1..g.n) \/ ~WellFormedG(st.G)
                             THEN {<<k, V("spec.unsupported", "query_on_empty_or_malformed_graph", j)>> : k \in idx}
                         ELSE EvalAt(st.G.V, st.G.E, g, idx)
        raw == UNION {At(j) : j \in used}
        \* conv.cached_property (see the head of the module)
        Final(k, v) ==
            LET c == g.calls[k]
            IN  IF /\ v.reason # ""
                   /\ v.clause \in {"C17.critical_path", "C17.topo_cycle"}
                   /\ c.method \in CachedProps
                   /\ c.raised = ""
                   /\ \E j \in 1..(k - 1) :
                         LET d == g.calls[j]
                         IN  d.obj = c.obj /\ d.method = c.method /\ d.raised = ""
                             /\ d.ver < c.ver /\ d.result = c.result
                THEN V("info.cached_property", "value_of_an_earlier_version", v.exp)
                ELSE v
    IN  {<<g.calls[x[1]].id, Final(x[1], x[2])>> : x \in raw}

AddCounts(old, vs) ==
    LET cls == {x[2].clause : x \in vs}
    IN  [cl \in (DOMAIN old) \cup cls |->
            (IF cl \in DOMAIN old THEN old[cl] ELSE 0)
            + Cardinality({x \in vs : x[2].clause = cl})]

Init == pos \in 1..Chains /\ cnt = <<>> /\ nfail = 0 /\ fin = FALSE

Step ==
    /\ pos <= Len(Batch)
    /\ LET g   == Batch[pos]
           vs  == EvalGraph(g)
           bad == {x \in vs : x[2].reason # ""}
       IN  /\ Cardinality(vs) = Len(g.calls)
           /\ \A x \in bad : PrintT(<<"@@", x[1], x[2].clause, x[2].reason, x[2].exp>>)
           /\ cnt' = AddCounts(cnt, vs)
           /\ nfail' = nfail + Cardinality(bad)
    /\ pos' = pos + Chains
    /\ UNCHANGED fin

\* number of entries of the chain that started at k
ChainLen(k) == IF k > Len(Batch) THEN 0 ELSE (Len(Batch) - k) \div Chains + 1

Done ==
    /\ pos > Len(Batch) /\ ~fin
    /\ LET k == ((pos - 1) % Chains) + 1
       IN  PrintT(<<"@@done", k, ChainLen(k), cnt, nfail>>)
    /\ fin' = TRUE
    /\ UNCHANGED <<pos, cnt, nfail>>

Next == Step \/ Done
Spec == Init /\ [][Next]_vars

\* A malformed entry disables Step; then the chain prints no <<"@@done", ...>> line
\* and the harness reports a machinery failure (never a verdict).
TypeOK == pos \in Nat /\ nfail \in Nat /\ fin \in BOOLEAN
=============================================================================
