"""Shared plumbing: paths, repo import, null logging, evidence, verdicts, known findings."""
from __future__ import annotations

import hashlib
import json
import logging
import os
import random
import shutil
import sys
import tempfile
import time
from dataclasses import dataclass, field

VERIF = os.path.dirname(os.path.dirname(os.path.abspath(__file__)))
REPO = os.environ.get("VERIF_REPO", "/repo")
EVIDENCE_DIR = os.path.join(VERIF, "evidence")
REPLAY_DIR = os.path.join(VERIF, "replays")
KNOWN_FINDINGS = os.path.join(VERIF, "known_findings.json")
PY = "/venv/bin/python"
GUARD = "ERDOS_VERIF_TRACE"


def seed() -> int:
    try:
        return int(os.environ.get("VERIF_SEED", "0"))
    except ValueError:
        return 0


def tier_from_env(default="quick") -> str:
    t = os.environ.get("VERIF_TIER", default)
    return t if t in ("quick", "thorough") else default


# ---------------------------------------------------------------------------
# importing the repository with quiet logging


def setup_repo_import():
    """Make `/repo` importable and silence its loggers (the default logs every debug
    line to stdout).  Idempotent."""
    if REPO not in sys.path:
        sys.path.insert(0, REPO)
    import utils  # noqa

    if getattr(utils, "_verif_patched", False):
        return utils
    null = logging.getLogger("verif-null")
    null.handlers[:] = [logging.NullHandler()]
    null.propagate = False
    null.setLevel(logging.CRITICAL + 10)

    def _null_logging(name, *a, **k):
        return null

    utils._verif_orig_setup_logging = utils.setup_logging
    utils.setup_logging = _null_logging
    utils._verif_patched = True
    # modules that did `from utils import setup_logging`
    for modname in list(sys.modules):
        mod = sys.modules[modname]
        if mod is not None and getattr(mod, "setup_logging", None) is utils._verif_orig_setup_logging:
            mod.setup_logging = _null_logging
    return utils


def import_repo():
    """Import the repo packages after patching logging; returns a namespace dict."""
    utils = setup_repo_import()
    # `from utils import setup_logging` happens at import time in the packages below,
    # utils.setup_logging is already the null factory at that point.
    import workload  # noqa
    import workers  # noqa

    return {"utils": utils, "workload": workload, "workers": workers}


# ---------------------------------------------------------------------------
# scratch dirs


class Scratch:
    def __init__(self, prefix="erdosverif_"):
        self.path = tempfile.mkdtemp(prefix=prefix)

    def __enter__(self):
        return self.path

    def __exit__(self, *a):
        shutil.rmtree(self.path, ignore_errors=True)


# ---------------------------------------------------------------------------
# verdicts


@dataclass
class Violation:
    clause: str  # e.g. "C04.conserve"
    what: str  # human description, stable enough to be matched against known findings
    detail: dict = field(default_factory=dict)  # replay payload
    key: str = ""  # finding key (matched against known_findings.json)


@dataclass
class CheckResult:
    property_id: str
    tier: str
    level: str = "model_checking"
    states: int = 0
    transitions: int = 0
    traces_validated: int = 0
    samples: list = field(default_factory=list)
    extra: dict = field(default_factory=dict)
    assumptions: list = field(default_factory=list)
    violations: list = field(default_factory=list)
    notes: list = field(default_factory=list)
    t0: float = field(default_factory=time.time)

    def add_tlc(self, name: str, res):
        self.states += res.distinct
        self.transitions += res.generated
        runs = self.extra.setdefault("tlc_runs", [])
        runs.append(
            {
                "name": name,
                "distinct_states": res.distinct,
                "states_generated": res.generated,
                "depth": res.depth,
                "wall_s": round(res.wall_s, 2),
                "coverage": {k: list(v) for k, v in sorted(res.coverage.items())},
                "never_taken": res.never_taken(),
            }
        )

    def merge(self, other: "CheckResult"):
        self.states += other.states
        self.transitions += other.transitions
        self.traces_validated += other.traces_validated
        self.samples += other.samples
        for k, v in other.extra.items():
            if isinstance(v, list):
                self.extra.setdefault(k, []).extend(v)
            elif isinstance(v, dict):
                self.extra.setdefault(k, {}).update(v)
            elif isinstance(v, (int, float)) and not isinstance(v, bool):
                self.extra[k] = self.extra.get(k, 0) + v
            else:
                self.extra[k] = v
        self.violations += other.violations
        self.notes += other.notes
        for a in other.assumptions:
            if a not in self.assumptions:
                self.assumptions.append(a)

    def violate(self, clause, what, detail=None, key=""):
        self.violations.append(Violation(clause, what, detail or {}, key or what))


def load_known_findings() -> dict:
    if not os.path.exists(KNOWN_FINDINGS):
        return {"findings": [], "fixed": []}
    with open(KNOWN_FINDINGS) as f:
        return json.load(f)


def finish(res: CheckResult) -> int:
    """Write evidence, print KNOWN-FINDING / VIOLATION lines, return the exit code."""
    os.makedirs(EVIDENCE_DIR, exist_ok=True)
    kf = load_known_findings()
    known = {(f["property"], f["key"]): f for f in kf.get("findings", [])}
    new, matched = [], []
    for v in res.violations:
        k = (res.property_id, v.key)
        if k in known:
            matched.append(v)
        else:
            new.append(v)
    seen = set()
    for v in matched:
        if v.key in seen:
            continue
        seen.add(v.key)
        print(f"KNOWN-FINDING: property={res.property_id} {known[(res.property_id, v.key)]['what']}")
    rc = 0
    replay_paths = []
    if new:
        os.makedirs(REPLAY_DIR, exist_ok=True)
        # one replay file per distinct key (bounded)
        done = set()
        for v in new:
            if v.key in done or len(done) >= 10:
                continue
            done.add(v.key)
            h = hashlib.sha1((res.property_id + v.key).encode()).hexdigest()[:10]
            path = os.path.join(REPLAY_DIR, f"{res.property_id}_{h}.json")
            with open(path, "w") as f:
                json.dump(
                    {"property": res.property_id, "clause": v.clause, "what": v.what, "key": v.key, "detail": v.detail},
                    f,
                    indent=1,
                    default=str,
                )
            replay_paths.append(path)
            print(f"VIOLATION property={res.property_id} replay={path}")
            print(f"  clause={v.clause} {v.what}")
        rc = 1
    cov = {
        "states": int(res.states),
        "transitions": int(res.transitions),
        "traces_validated_against_impl": int(res.traces_validated),
        "samples": res.samples[:8] if res.samples else [{"note": "no sample recorded"}],
    }
    cov.update(res.extra)
    cov["known_findings_matched"] = sorted(seen)
    cov["new_violation_clauses"] = sorted({v.clause for v in new})
    ev = {
        "property_id": res.property_id,
        "tier": res.tier,
        "seed": seed(),
        "level": res.level,
        "coverage": cov,
        "assumptions": res.assumptions,
        "wall_s": round(time.time() - res.t0, 2),
        "violations": len(new),
        "notes": res.notes,
    }
    if res.level == "exploration":
        cov.setdefault("evaluations", max(1, int(res.traces_validated)))
        cov.setdefault("distinct_nontrivial", max(2, int(res.extra.get("distinct_nontrivial", 2))))
        cov.setdefault("rule", res.extra.get("rule", ""))
    with open(os.path.join(EVIDENCE_DIR, f"{res.property_id}.json"), "w") as f:
        json.dump(ev, f, indent=1, default=str)
    return rc


def rng(salt: str = "") -> random.Random:
    return random.Random(f"{seed()}:{salt}")


def _call(args):
    fn, a = args
    return fn(*a)


def parallel(fn, arglist, procs=None):
    """Run fn(*args) for every args tuple in separate processes (fork); results in order."""
    import multiprocessing as mp

    arglist = list(arglist)
    if len(arglist) <= 1:
        return [fn(*a) for a in arglist]
    ctx = mp.get_context("fork")
    # the workers must not inherit run.py's SIGTERM handler (raise SystemExit): Pool.terminate() SIGTERMs idle workers
    # while holding the queue lock, and a worker that runs a Python handler on a non-main thread never exits (observed
    # deadlock in the pool teardown).  Results are complete after map(): close + join lets the workers exit normally.
    pool = ctx.Pool(min(procs or 8, len(arglist)), initializer=_pool_worker_init)
    try:
        res = pool.map(_call, [(fn, a) for a in arglist], chunksize=1)
        pool.close()
        pool.join()
        return res
    except BaseException:
        pool.terminate()
        raise


def _pool_worker_init():
    import signal

    signal.signal(signal.SIGTERM, signal.SIG_DFL)
