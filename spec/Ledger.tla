------------------------------ MODULE Ledger ------------------------------
(* State machine over workload/resources.py `Resources` objects: one action  *)
(* per public mutator, each with a *refused* twin (the call must raise and    *)
(* leave everything unchanged).  `obj["cp"]` is the object produced by        *)
(* copy()/deepcopy(); afterwards both objects evolve independently.           *)
EXTENDS LedgerOps, TLC

CONSTANTS Insts,      \* sequence of [name, id, cap]
          Comps,      \* set of computation names
          Reqs,       \* sequence of single requests [name, id, q]
          Dems        \* sequence of request vectors (each a sequence of [name,id,q])

VARIABLES obj,        \* [main |-> ledger, cp |-> ledger or NoObj]
          obs         \* what the public getters of each object must return (function of obj)
vars == <<obj, obs>>

NoObj == [none |-> TRUE]
Objs == {"main", "cp"}
Live(o) == obj[o] # NoObj

\* get_available_quantity / get_allocated_quantity / get_total_quantity for every request in
\* Reqs and for every instance; get_allocated_computation per instance
InstReq(i) == [name |-> Insts[i].name, id |-> Insts[i].id]
Observe(ob) ==
    [o \in Objs |->
        IF ob[o] = NoObj THEN NoObj
        ELSE [ avail |-> [k \in 1..Len(Reqs) |-> AvailQ(Insts, ob[o].av, Reqs[k])],
               total |-> [k \in 1..Len(Reqs) |-> TotalQ(Insts, Reqs[k])],
               allocd |-> [k \in 1..Len(Reqs) |-> TotalQ(Insts, Reqs[k]) - AvailQ(Insts, ob[o].av, Reqs[k])],
               iavail |-> [i \in 1..Len(Insts) |-> AvailQ(Insts, ob[o].av, InstReq(i))],
               held |-> [c \in Comps |-> [i \in 1..Len(Insts) |-> HeldOn(ob[o], c, i)]] ]]

Init == /\ obj = [main |-> EmptyLedger(Insts, Comps), cp |-> NoObj]
        /\ obs = Observe(obj)

Allocate(o, r, c) ==
    /\ Live(o) /\ CanAlloc(Insts, obj[o], Reqs[r])
    /\ obj' = [obj EXCEPT ![o] = Alloc(Insts, @, Reqs[r], c)]
    /\ obs' = Observe(obj')

AllocateRefused(o, r, c) ==
    /\ Live(o) /\ ~CanAlloc(Insts, obj[o], Reqs[r])
    /\ UNCHANGED <<obj, obs>>

AllocateMultiple(o, d, c) ==
    /\ Live(o) /\ CanAllocMulti(Insts, obj[o], Dems[d])
    /\ obj' = [obj EXCEPT ![o] = MultiAlloc(Insts, @, Dems[d], c, 1)]
    /\ obs' = Observe(obj')

AllocateMultipleRefused(o, d, c) ==
    /\ Live(o) /\ ~CanAllocMulti(Insts, obj[o], Dems[d])
    /\ UNCHANGED <<obj, obs>>

Deallocate(o, c) ==
    /\ Live(o) /\ Held(obj[o], c)
    /\ obj' = [obj EXCEPT ![o] = Dealloc(@, c)]
    /\ obs' = Observe(obj')

DeallocateRefused(o, c) ==
    /\ Live(o) /\ ~Held(obj[o], c)
    /\ UNCHANGED <<obj, obs>>

\* copy(): equal snapshot, allocations kept;  deepcopy(): same totals, nothing allocated
Copy == /\ obj' = [obj EXCEPT !.cp = obj.main]
        /\ obs' = Observe(obj')
DeepCopy == /\ obj' = [obj EXCEPT !.cp = EmptyLedger(Insts, Comps)]
            /\ obs' = Observe(obj')

NextCore ==
    \/ \E o \in Objs, r \in 1..Len(Reqs), c \in Comps : Allocate(o, r, c) \/ AllocateRefused(o, r, c)
    \/ \E o \in Objs, d \in 1..Len(Dems), c \in Comps :
          AllocateMultiple(o, d, c) \/ AllocateMultipleRefused(o, d, c)
    \/ \E o \in Objs, c \in Comps : Deallocate(o, c) \/ DeallocateRefused(o, c)
    \/ Copy \/ DeepCopy

Next == NextCore

Spec == Init /\ [][Next]_vars

----------------------------------------------------------------------------
C04_Conserve == \A o \in Objs : Live(o) => Conserved(Insts, obj[o])
C04_IdleFull == \A o \in Objs : Live(o) /\ Idle(obj[o]) => Full(Insts, obj[o])
C04_NonNeg   == \A o \in Objs : Live(o) => \A i \in 1..Len(Insts) : obj[o].av[i] \in 0..Insts[i].cap
\* only one object changes per step (independence of copy and original)
C04_OneObject == [][obj'.main = obj.main \/ obj'.cp = obj.cp]_vars
=============================================================================
