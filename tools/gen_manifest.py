#!/usr/bin/env python3
"""Regenerate MANIFEST.json from the table below (keeps it schema-valid)."""
import json
import os

HERE = os.path.dirname(os.path.dirname(os.path.abspath(__file__)))
PY = "PYTHONPATH=/repo PYTHONHASHSEED=0 /venv/bin/python run.py"

CHECKS = {
    "C09": dict(
        category="exploration",
        text="Sampled 2-safety check: worlds that use randomness on purpose (deadline variance, Poisson/Gamma arrivals, conditionals, runtime variance, multi-resource pools, closed loop; EDF/FIFO/LSF/Clockwork/BranchPrediction), in every workload mode main.py can run offline (YAML/JSON descriptions, Alibaba trace replay on generated pickled traces, Pylot and Clockwork-bursty loaders through a driver that performs main.main's steps), are run twice in fresh processes with different PYTHONHASHSEED; Determinism.tla walks both CSV traces in lock-step and requires equal observations (everything except true_runtime and echoed file names), classifying the first divergence; controls: equal hash seeds, and different random seeds (must differ).",
        design_ref="DESIGN.md §5 C09",
        note="a model cannot prove the absence of hidden nondeterminism: sampled pairs only; trusted: TLC as comparator, CSV splitting",
        technique="TLA+ lock-step comparator (Determinism.tla) over pairs of traces of fresh main.py processes",
    ),
    "C10": dict(
        text="Decision.tla: ValidDecision(call) = returns normally, one decision per task, only offered / previously scheduled and not started tasks, planners answer every offered task, existing pool/worker, strategy of the task, time not in the past / before release, CapacityOK at every planned instant (with existence of a worker assignment for pool-only placements, per-policy interval conventions), side-effect freedom; call records from real simulations (EDF, FIFO, LSF, ILP, TetriSched-Gurobi/CPLEX, Clockwork) and from direct calls of every policy incl. Z3 on mixed RUNNING/SCHEDULED/RELEASED/VIRTUAL states reached by a hostile simulation prefix are judged by TLC; staged states (a harness scheduler drives real simulations to a directed grid: RUNNING past its deadline / on time, SCHEDULED for later, released at / after another task's deadline, tight / loose newcomers) on which every planner is invoked with enforcement on and off; option space incl. preemptive EDF/LSF, BranchPrediction, ILP/CPLEX batching, Clockwork run_load; hand-written satisfiable / falsifiable records sanity-check the contract.",
        design_ref="DESIGN.md §5 C10",
        note="trusted: TLC, tracer projection; solver instances limited by the restricted Gurobi / CPLEX CE licences; planner worlds keep runtime variance 0; TetriSched (C++ extension) and Graphene policies cannot be built here",
        technique="TLA+ decision contract (Decision.tla) evaluated by TLC on recorded calls of the real policies",
    ),
    "C11": dict(
        text="PlanRules.tla: PrecedenceOK on (T1) the plans returned by ILP / TetriSched-Gurobi / Z3 for chains, forks, joins, diamonds offered wholly, partly or with running / scheduled parents, (T2) every solution of the captured optimisation model's solution pool, and (R) TLC enumerates the plans violating ONLY precedence inside the horizon and each must be infeasible when fixed in the captured model; instance classes incl. co-offered predecessors that fit no worker (type missing, too large, held by running / scheduled work, hopeless deadline), multi-instance workers and mixed EventTime units.",
        design_ref="DESIGN.md §5 C11",
        note="trusted: TLC, mapping of solver variable names to tasks, Gurobi/z3 for feasibility of fixed plans; pool capped, horizon-bounded",
        technique="TLA+ planning rules (PlanRules.tla) checked by TLC on returned plans, model solution pools and spec-enumerated violating plans fixed in the real solver model",
    ),
    "C12": dict(
        text="PlanRules.tla: Admit / HopelessHandled / DeadlineOK on returned plans of EDF, FIFO, Clockwork, ILP, both TetriSched formulations over deadlines {past, tight-1, tight, tight+1, loose}; every pool solution of the captured models; TLC-enumerated plans violating ONLY the deadline must be infeasible in the model; multi-invocation scenarios (one scheduler object, answers applied as the simulator does, new urgent / loose / hopeless work, re-planned SCHEDULED tasks and rebuilt batches) incl. ILP / TetriSched-CPLEX batching; end-to-end runs of the planners with exact runtimes: every completed task completed by its deadline, every scheduler invocation inside them a judged record.",
        design_ref="DESIGN.md §5 C12",
        note="as C11; ILP in task-by-task mode as the property states",
        technique="TLA+ planning rules (PlanRules.tla) checked by TLC on returned plans, model solution pools, spec-enumerated late plans fixed in the real solver model, and end-to-end traces",
    ),
    "C14": dict(
        text="PlanSpace.tla is a state machine whose reachable states are the feasible partial plans of one instance in the planner's own decision space; for a recorded ILP answer TLC searches (branch and bound via CONSTRAINT) for a plan with more goodput (C14_NoBetterPlan, the counterexample is the better plan), for TetriSched answers it checks one-step maximality (C14_Maximal); the decision space (capacity of a resource name = sum over the worker's instances, pinned units on their instance) is cross-checked against the captured Gurobi model by fixing every syntactic plan.",
        design_ref="DESIGN.md §5 C14",
        note="trusted: TLC, instance encoding; bound: <=4 offered tasks, <=2 workers, <=2 strategies, horizon <=12, discretisation 1-3",
        technique="TLA+ plan-space state machine (PlanSpace.tla) model-checked per recorded (instance, answer) of the real planners",
    ),
    "C15": dict(
        text="Clockwork.tla transcribes the policy (per-model per-strategy deadline-sorted queues, admission, expiry, batch extraction, inference loop, both goals); invariants full batch / same model / loaded / fits / on time / placed once / late cancelled are model-checked over all small arrival histories; the dumped state graphs and -simulate behaviours are replayed on a live ClockworkScheduler kept across schedule() calls (exact batch equality), and seeded random histories are record-checked by TLC; model loading / eviction (--scheduler_run_load) is transcribed with the priority order left free: a batch must be placed where its model is loaded AFTER the answer's own evictions, loads fit the memory left (load_target, load_fits), bound by non-deterministic graph walks and random memory-tight histories on the live policy.",
        design_ref="DESIGN.md §5 C15",
        note="trusted: TLC, the harness applying placements / loads / evictions as simulator.py does; model memory is a resource type of its own, one loading strategy per model",
        technique="TLA+ state machine (Clockwork.tla) model-checked with TLC + spec->code replay on the live policy + record validation",
    ),
    "C20": dict(
        text="Strl.tla gives the semantics of STRL trees (Valid, Utility, Best by brute force, ModelSat); a stand-alone C++ driver built from /repo's tetrisched sources with a sequential TBB shim compiles each generated tree with the real parse()/passes, dumps the model, z3 enumerates its solutions (gurobi for the optimum), each solution is read back through populateResults() and TLC checks ModelSat, capacity, Choose exactness, Min/Max/LessThan structure, utility = objective, Best = optimum with every subset of passes, coarser discretisation <= fine.",
        design_ref="DESIGN.md §5 C20",
        note="trusted: TLC; external solvers only for completeness of the enumeration (every solution re-checked by TLC); solver back-ends and Python bindings cannot be built here",
        technique="TLA+ semantics of STRL (Strl.tla) checked by TLC against models compiled by the real C++ library and their read-back solutions",
    ),
    "C13": dict(
        text="Greedy.tla defines Plan(kind, instance) (stable sort by the policy key, first fit over strategies x pools) and NoInversion; TLC proves NoInversion(Plan) for every instance of a small bound (each instance an initial state); the same instances and larger random ones are built as real tasks / single-worker pools - every time in its own EventTime unit (US/MS/S), workers listing a resource name under one or two ids, the realisation read back and checked by TLC (RealisationOK) - and given to the real EDF/FIFO/LSF schedulers, whose answers TLC judges with NoInversion (and compares with Plan).",
        design_ref="DESIGN.md §5 C13",
        note="trusted: TLC, instance encoding; gating bound = single-worker pools as the property's observation note says; multi-worker pools explored in thorough, notes only",
        technique="TLA+ algorithm spec (Greedy.tla) model-checked over all small instances + call-record validation of the real greedy policies",
    ),
    "C16": dict(
        text="ErdosTime.tla: 16 laws (eq/order/hash/add/sub/mul/to agree with microsecond integers, coarsening refused) checked by TLC on a grid of counts x units, with a limb encoding (itself model-checked against native integers) for magnitudes up to 2^53; every grid case is replayed on the real EventTime and ~10k big-magnitude call records are judged by TLC. EventQueue.tla: Add/Remove/Retime/Pop/Peek/NextOfType state machine (Pop returns an EvLess-minimal element) model-checked and its state graph replayed on the real EventQueue.",
        design_ref="DESIGN.md §5 C16",
        note="trusted: TLC, limb encoding (checked), dot-dump parser; values beyond 2^53 us are reported in notes only (outside the property's bound)",
        technique="TLA+ specs (ErdosTime, EventQueue) model-checked with TLC + spec->code replay and call-record validation",
    ),
    "C18": dict(
        text="TaskGraph.get_schedulable_tasks is transcribed in Simulator.tla (Schedulable: estimate propagation, topological selection, lookahead / retract / release_taskgraphs); contract clauses (no starvation, no dead task, scheduled only with retract, parents done without plan-ahead, monotone in lookahead and release_taskgraphs) are model-checked on every state of SimMC for lookaheads 0..2; every real call in recorded simulations, plus probes with larger lookahead / release_taskgraphs on the same state, must satisfy the clauses and (when no random branch prediction is involved) equal the transcription; release-on-completion is the TASK_FINISHED handler equality (NotifyCompletion).",
        design_ref="DESIGN.md §5 C18",
        note="trusted: TLC, tracer projection; branch-prediction policies other than ALL are only checked relationally; preemption not modelled",
        technique="TLA+ transcription of the frontier (Simulator.tla Schedulable) model-checked in SimMC + trace validation of real get_schedulable_tasks calls",
    ),
    "C01": dict(
        text='Invariants C01_NoOversub / C01_LedgerAgrees / C01_Backed (the demand of every occupant backed by what it holds; profiles re-loaded while pending) / C01_SingleWorker are model-checked on SimMC (hostile policy naming full pools, all instants) and evaluated by TLC in every state of every recorded trace of the real simulator; the logged per-instance availability and occupants must equal what the handler operators compute (Worker place/remove first-fit semantics from LedgerOps).',
        design_ref='DESIGN.md §5 C01',
        note="trusted: TLC; the tracer's projection of the Simulator state (harness/simrun.py); scheduler answers, draws and fuzz bound from the log; SimMC bounded to the small worlds of harness/simmc.py; corpus = generated + directed worlds (EDF/FIFO/LSF/hostile policies)",
        technique='TLA+ spec of the simulator loop (Simulator.tla): TLC exhaustive exploration under an arbitrary policy (SimMC) + trace validation of real simulate() runs (SimTrace)',
    ),
    "C02": dict(
        text="C02_StartedProperly (start >= release, all predecessors COMPLETED before start; taken branch for joins) and at-most-once (legal lifecycle edges) are model-checked on SimMC incl. plan-ahead deferral, and evaluated on every state of every recorded trace; the TASK_PLACEMENT handler (ready / not ready / cancelled) must equal the spec's.",
        design_ref='DESIGN.md §5 C02',
        note="trusted: TLC; the tracer's projection of the Simulator state (harness/simrun.py); scheduler answers, draws and fuzz bound from the log; SimMC bounded to the small worlds of harness/simmc.py; corpus = generated + directed worlds (EDF/FIFO/LSF/hostile policies)",
        technique='TLA+ spec of the simulator loop (Simulator.tla): TLC exhaustive exploration under an arbitrary policy (SimMC) + trace validation of real simulate() runs (SimTrace)',
    ),
    "C03": dict(
        text='Clock monotonicity, step size of the loop, popped event EvLess-minimal, completion exactly at start + chosen runtime (variance range), start not before the planned time, deferral rules of TASK_PLACEMENT: action properties / invariants on SimMC over all same-microsecond orders; every loop action of every recorded trace (step size, pop order, event queue content, task timestamps) must be the one Simulator.tla computes.',
        design_ref='DESIGN.md §5 C03',
        note="trusted: TLC; the tracer's projection of the Simulator state (harness/simrun.py); scheduler answers, draws and fuzz bound from the log; SimMC bounded to the small worlds of harness/simmc.py; corpus = generated + directed worlds (EDF/FIFO/LSF/hostile policies)",
        technique='TLA+ spec of the simulator loop (Simulator.tla): TLC exhaustive exploration under an arbitrary policy (SimMC) + trace validation of real simulate() runs (SimTrace)',
    ),
    "C05": dict(
        text='Termination is a liveness property (<>ended) of SimMC under weak fairness; NextSchedulerEvent is transcribed branch by branch and every recorded SCHEDULER_FINISHED must produce exactly the next SCHEDULER_START / SIMULATOR_END the spec computes; each world runs under a watchdog (zero-length-step counter, wall clock): hang or crash is a verdict; end-of-run invariants C05_NoPrematureEnd / C05_FeasibleAllDone / C05_ByTimeout.',
        design_ref='DESIGN.md §5 C05',
        note="trusted: TLC; the tracer's projection of the Simulator state (harness/simrun.py); scheduler answers, draws and fuzz bound from the log; SimMC bounded to the small worlds of harness/simmc.py; corpus = generated + directed worlds (EDF/FIFO/LSF/hostile policies)",
        technique='TLA+ spec of the simulator loop (Simulator.tla): TLC exhaustive exploration under an arbitrary policy (SimMC) + trace validation of real simulate() runs (SimTrace)',
    ),
    "C06": dict(
        text="LegalEdge as an action property and C06_CancelClosure / C06_StarvedNeverRuns as invariants on SimMC (policy cancels, drop_skipped, conditional branches); every task state change in recorded traces must be the spec's; TaskGraph.cancel is transcribed (worklist) and its result compared task by task.",
        design_ref='DESIGN.md §5 C06',
        note="trusted: TLC; the tracer's projection of the Simulator state (harness/simrun.py); scheduler answers, draws and fuzz bound from the log; SimMC bounded to the small worlds of harness/simmc.py; corpus = generated + directed worlds (EDF/FIFO/LSF/hostile policies)",
        technique='TLA+ spec of the simulator loop (Simulator.tla): TLC exhaustive exploration under an arbitrary policy (SimMC) + trace validation of real simulate() runs (SimTrace)',
    ),
    "C07": dict(
        text="NotifyCompletion for conditional tasks with all draws explored in SimMC (C07_OneBranch, closure of untaken branches up to the terminal); in recorded traces the logged random.choices call must have the conditional's children as population and a non-zero-weight result, and the released / cancelled tasks must equal the spec's; with conditionals resolved at submission C07_ResolvedAtSubmission (only the branch fixed at creation is ever released / running / completed) is an invariant of SimMC and of every trace state.",
        design_ref='DESIGN.md §5 C07',
        note="trusted: TLC; the tracer's projection of the Simulator state (harness/simrun.py); scheduler answers, draws and fuzz bound from the log; SimMC bounded to the small worlds of harness/simmc.py; corpus = generated + directed worlds (EDF/FIFO/LSF/hostile policies)",
        technique='TLA+ spec of the simulator loop (Simulator.tla): TLC exhaustive exploration under an arbitrary policy (SimMC) + trace validation of real simulate() runs (SimTrace)',
    ),
    "C08": dict(
        text='RowsOf(handler) gives the CSV rows every handler must emit (typed fields from the spec state); every recorded row is parsed and compared; C08_Counters / C08_CancelCounter relate the end-of-run summary to task states (SimMC and traces).',
        design_ref='DESIGN.md §5 C08',
        note="trusted: TLC; the tracer's projection of the Simulator state (harness/simrun.py); scheduler answers, draws and fuzz bound from the log; SimMC bounded to the small worlds of harness/simmc.py; corpus = generated + directed worlds (EDF/FIFO/LSF/hostile policies)",
        technique='TLA+ spec of the simulator loop (Simulator.tla): TLC exhaustive exploration under an arbitrary policy (SimMC) + trace validation of real simulate() runs (SimTrace)',
    ),
    "C17": dict(
        text="Dag.tla defines Reach/TopoOK/Depth/Paths/LongestWeight (two ways, cross-checked by TLC on all small graphs)/Dependent/BfsOK/DfsOK; every public Graph/TaskGraph/JobGraph call on all labelled DAGs <= 4 nodes (all child orders, three insertion styles), all upper-triangular 5-node DAGs, random DAGs up to 40 nodes and cyclic graphs is recorded and judged relationally by TLC; the graph OBJECT is a state machine (add_node / add_child / remove-of-a-source as actions of Dag.tla, ObjSpec model-checked, walks replayed on real objects): queries are shuffled, repeated, asked between mutations and judged against the graph at their version, incl. get_node_depth(func=min) (DagTrace.tla).",
        design_ref="DESIGN.md §5 C17",
        note="trusted: TLC, JSON encoding of call records; exhaustive only up to the stated sizes",
        technique="TLA+ definitions (Dag.tla) model-checked with TLC + call-record validation of the real graph algorithms",
    ),
    "C19": dict(
        text="Loader.tla: Faithful / ReleasesOK / FreshCopies / DeadlineOK (integer condition derived from EventTime.fuzz, proved equivalent to the existential definition by TLC) / WorkersOK and a closed-loop state machine (in-flight <= concurrency, N in total) model-checked; seeded descriptions (json/yaml, all release policies, override flags, replication) are loaded by the real WorkloadLoader/WorkerLoader, projected and judged record by record by TLC.",
        design_ref="DESIGN.md §5 C19",
        note="trusted: TLC, json/yaml serialisers, projection through public getters; sampled descriptions",
        technique="TLA+ denotation of descriptions (Loader.tla) model-checked with TLC + record validation of real loader output",
    ),
    "C04": dict(
        text="TLC checks Ledger.tla and Cluster.tla exhaustively (conservation, held-iff-resident, idle-means-full, copy independence) "
        "for small resource vectors; the reachable graphs are then replayed edge by edge on real Resources / WorkerPool objects "
        "(all paths to depth 3-4, an edge-covering walk, random walks) comparing every public getter with the spec's observation variable.",
        design_ref="DESIGN.md §5 C04",
        note="trusted: TLC, the dot-dump parser, the projection through public getters; bounded to the constants in harness/c04.py",
        technique="TLA+ state machine (Ledger/Cluster) model-checked with TLC + spec->code replay of the dumped state graph",
    ),
}

ALL = [f"C{i:02d}" for i in range(1, 21)]
NOT_YET = "check under construction in this round (specification module not bound to the code yet)"


def main():
    checks = []
    for pid, c in CHECKS.items():
        checks.append(
            {
                "property_id": pid,
                "quick_cmd": f"{PY} --property {pid} --tier quick",
                "thorough_cmd": f"{PY} --property {pid} --tier thorough",
                "evidence_file": f"/verif/evidence/{pid}.json",
                "replay_cmd_template": f"{PY} --replay {{path}}",
                "engine": "tla-mbv",
                "level_claimed": {
                    "category": c.get("category", "model_checking"),
                    "text": c["text"],
                    "design_ref": c["design_ref"],
                },
                "level_note": c["note"],
                "technique": c["technique"],
            }
        )
    na = [{"property_id": p, "reason": NOT_YET} for p in ALL if p not in CHECKS]
    m = {
        "version": 1,
        "setup_cmd": "cd /verif && /venv/bin/python run.py --setup",
        "hooks": {
            "guard": "ERDOS_VERIF_TRACE",
            "enable": "no source hooks: the harness installs add-only wrappers from outside the repository when ERDOS_VERIF_TRACE=1 (harness/simrun.py and the per-property recorders)",
            "baseline_off_cmd": "cd /repo && /venv/bin/python -m pytest -ra -q -p no:cacheprovider --timeout=900 --continue-on-collection-errors",
            "source_commits": [],
            "add_only": True,
        },
        "engines": [
            {
                "name": "tla-mbv",
                "path": "/verif/run.py",
                "serves_properties": sorted(CHECKS),
                "kind_free_text": "explicit TLA+ specifications (spec/*.tla) checked with TLC; bound to the code by spec->code replay of TLC state graphs / behaviours and code->spec trace validation",
            }
        ],
        "checks": checks,
        "notes": "See DESIGN.md. known_findings.json lists recorded / fixed genuine defects.",
        "not_applicable": na,
    }
    with open(os.path.join(HERE, "MANIFEST.json"), "w") as f:
        json.dump(m, f, indent=1)
    print(f"{len(checks)} checks, {len(na)} not claimed")


if __name__ == "__main__":
    main()
