// Sequential stand-in for tbb::concurrent_hash_map (verification driver only).
// Implements exactly the surface used by schedulers/tetrisched: accessor /
// const_accessor, find, insert (key or pair), erase, size, clear, iteration,
// range() / range_type.  NOT thread safe: the driver is single threaded.
#ifndef VERIF_TBB_SHIM_CONCURRENT_HASH_MAP_H
#define VERIF_TBB_SHIM_CONCURRENT_HASH_MAP_H
#include <cstddef>
#include <functional>
#include <unordered_map>
#include <utility>

namespace tbb {

template <typename K>
struct tbb_hash_compare {
  static size_t hash(const K& k) { return std::hash<K>()(k); }
  static bool equal(const K& a, const K& b) { return a == b; }
};

template <typename K, typename V, typename HashCompare = tbb_hash_compare<K>>
class concurrent_hash_map {
  struct Hasher {
    size_t operator()(const K& k) const { return HashCompare::hash(k); }
  };
  struct Equal {
    bool operator()(const K& a, const K& b) const {
      return HashCompare::equal(a, b);
    }
  };
  using map_type = std::unordered_map<K, V, Hasher, Equal>;
  map_type map_;

 public:
  using key_type = K;
  using mapped_type = V;
  using value_type = typename map_type::value_type;  // pair<const K, V>
  using iterator = typename map_type::iterator;
  using const_iterator = typename map_type::const_iterator;
  using size_type = size_t;

  class const_accessor {
   protected:
    friend class concurrent_hash_map;
    value_type* node_ = nullptr;

   public:
    bool empty() const { return node_ == nullptr; }
    void release() { node_ = nullptr; }
    const value_type& operator*() const { return *node_; }
    const value_type* operator->() const { return node_; }
  };
  class accessor : public const_accessor {
   public:
    value_type& operator*() const { return *this->node_; }
    value_type* operator->() const { return this->node_; }
  };

  class range_type {
    map_type* m_;

   public:
    explicit range_type(map_type* m) : m_(m) {}
    iterator begin() const { return m_->begin(); }
    iterator end() const { return m_->end(); }
    bool empty() const { return m_->empty(); }
    bool is_divisible() const { return false; }
  };
  class const_range_type {
    const map_type* m_;

   public:
    explicit const_range_type(const map_type* m) : m_(m) {}
    const_iterator begin() const { return m_->begin(); }
    const_iterator end() const { return m_->end(); }
    bool empty() const { return m_->empty(); }
    bool is_divisible() const { return false; }
  };

  concurrent_hash_map() = default;
  concurrent_hash_map(const concurrent_hash_map&) = default;
  concurrent_hash_map(concurrent_hash_map&&) = default;
  concurrent_hash_map& operator=(const concurrent_hash_map&) = default;
  concurrent_hash_map& operator=(concurrent_hash_map&&) = default;

  bool find(const_accessor& a, const K& k) const {
    auto it = const_cast<map_type&>(map_).find(k);
    if (it == const_cast<map_type&>(map_).end()) {
      a.node_ = nullptr;
      return false;
    }
    a.node_ = &*it;
    return true;
  }
  bool find(accessor& a, const K& k) {
    auto it = map_.find(k);
    if (it == map_.end()) {
      a.node_ = nullptr;
      return false;
    }
    a.node_ = &*it;
    return true;
  }
  size_type count(const K& k) const { return map_.count(k); }

  // Insert a default-constructed value under `k` unless present.
  bool insert(const_accessor& a, const K& k) {
    auto r = map_.try_emplace(k);
    a.node_ = &*r.first;
    return r.second;
  }
  bool insert(accessor& a, const K& k) {
    auto r = map_.try_emplace(k);
    a.node_ = &*r.first;
    return r.second;
  }
  template <typename P>
  bool insert(const_accessor& a, const std::pair<P, V>& kv) {
    auto r = map_.insert(value_type(kv.first, kv.second));
    a.node_ = &*r.first;
    return r.second;
  }
  template <typename P>
  bool insert(accessor& a, const std::pair<P, V>& kv) {
    auto r = map_.insert(value_type(kv.first, kv.second));
    a.node_ = &*r.first;
    return r.second;
  }
  template <typename P>
  bool insert(const std::pair<P, V>& kv) {
    return map_.insert(value_type(kv.first, kv.second)).second;
  }
  bool erase(const K& k) { return map_.erase(k) > 0; }

  size_type size() const { return map_.size(); }
  bool empty() const { return map_.empty(); }
  void clear() { map_.clear(); }

  iterator begin() { return map_.begin(); }
  iterator end() { return map_.end(); }
  const_iterator begin() const { return map_.begin(); }
  const_iterator end() const { return map_.end(); }

  range_type range(size_t /*grainsize*/ = 1) { return range_type(&map_); }
  const_range_type range(size_t /*grainsize*/ = 1) const {
    return const_range_type(&map_);
  }
};

}  // namespace tbb
#endif
