"""Shared machinery of C11 (DAG-aware planners order children after parents) and C12
(deadline enforcement).  spec/PlanRules.tla is the oracle; this module only

* describes small planner *instances* (a task graph of <= 4 tasks in given states, 1-2
  workers, 1-3 strategies, deadlines, a policy with its options).  Capacities and demands are
  numbers (one resource type) or vectors over the resource types RES_NAMES; inst["wsplit"]
  lists a worker's capacity under several resource ids of the same name; inst["units"] hands
  the times of the instance to the code in other EventTime units (same microsecond values),
* builds the real objects (Task / TaskGraph / Workload / WorkerPools / scheduler), calls
  the real `schedule()` and projects the returned Placements into a decision record (T1),
* captures the optimisation model built inside `schedule()` (gurobipy.Model.optimize and
  z3.Optimize.check are wrapped in this process only) and reads more feasible solutions out
  of it: solution pool / blocking clauses (T2),
* asks TLC for the plans that break exactly one rule (PlanRules!EnumNext / EnumEmit) and asks
  the captured model whether each of them is feasible (R),
* ships records to TLC (PlanRules!RecChecked) and returns the failing (record, clause) pairs.
"""
from __future__ import annotations

import contextlib
import io
import json
import os
import re
import tempfile
import time

from . import mcgen, tlaval, tlc
from .common import Scratch, import_repo
from .mcgen import Raw
from .realobj import ns, us

JAVA_OPTS = mcgen.LIB_OPT + ["-XX:ParallelGCThreads=2", "-Xss16m"]
REG_INIT = "ASSUME \\A r \\in 1..NStats : TLCSet(r, 0)\nPost == StatsLine\n"
STAT_NAMES = [
    "records", "child_and_parent_both_placed", "child_starts_exactly_when_allowed", "running_or_scheduled_parent",
    "unplaced_parent", "hopeless_task", "cancel_answer", "finishes_exactly_at_deadline", "slower_strategy_chosen",
    "deadline_exactly_tight", "some_task_placed", "second_worker_used",
    "scheduled_task_replanned", "scheduled_task_moved", "batch_placed", "batch_members_with_different_deadlines",
    "later_invocation", "replanned_finishes_exactly_at_deadline",
    "later_invocation_hopeless_task", "later_invocation_deadline_exactly_tight", "later_invocation_finishes_exactly_at_deadline",
    # second strengthening round: co-offered predecessors that cannot be placed, Clockwork queues over several invocations
    "decided_parent_fits_no_worker", "decided_parent_hopeless", "unplaced_parent_with_placeable_child", "unplaced_parent_child_unplaced",
    "placed_child_of_unplaced_parent", "join_one_parent_placed_one_not", "running_task_of_another_graph_holds_a_worker",
    "two_resource_types", "waited_then_placed", "waited_then_cancelled", "batch_strategy_chosen_for_waiting_task",
    "three_or_more_strategies", "cancelled_and_placed", "third_or_later_invocation",
    "slower_strategy_chosen_at_later_invocation", "too_late_for_slowest_strategy_only",
]
GUROBI_POLICIES = ("ILP", "ILP_RTG", "TSG")
MODEL_POLICIES = GUROBI_POLICIES + ("Z3", "TSC")
SPEC_TASK_FIELDS = ("state", "release", "deadline", "strats", "parents", "fin", "cur", "offered", "dec", "must", "dlenf")
# multi-invocation scenarios / batching (C12): tasks of one work profile ("prof", a name) share their strategies and can be
# batched by a strategy with batch size "bs" > 1; "phase" = the invocation before which the task is released
TASK_STATES = {1: "VIRT", 2: "REL", 3: "SCHED", 4: "RUN", 7: "DONE", 8: "CANC"}


@contextlib.contextmanager
def _tmp_in(scratch):
    old = tempfile.tempdir
    tempfile.tempdir = scratch
    try:
        yield
    finally:
        tempfile.tempdir = old


# ---------------------------------------------------------------------------
# instance descriptions

SHAPES = {
    "single": [[]],
    "pair": [[], []],  # two independent tasks
    "chain2": [[], [1]],
    "chain3": [[], [1], [2]],
    "fork": [[], [1], [1]],
    "join": [[], [], [1, 2]],
    "diamond": [[], [1], [1], [2, 3]],
}

S1 = [{"dem": 1, "rt": 2}]
S1L = [{"dem": 1, "rt": 3}]
S2 = [{"dem": 2, "rt": 1}, {"dem": 1, "rt": 3}]  # the fast strategy needs a bigger worker
S2E = [{"dem": 1, "rt": 2}, {"dem": 1, "rt": 4}]  # same demand, two speeds


def mk_task(parents, strats, state="REL", release=0, deadline=40, **kw):
    t = {
        "state": state, "release": release if state != "VIRT" else -1, "deadline": deadline,
        "strats": [dict(s) for s in strats], "parents": list(parents), "fin": -1, "cur": {"w": 0, "s": 0, "k": 0},
        "offered": False, "dec": False, "must": False, "dlenf": True,
    }
    t.update(kw)
    return t


def mk_inst(name, policy, tasks, workers, now=3, horizon=None, grid=1, enforce=True, **opts):
    o = {"rtg": policy == "ILP_RTG", "lookahead": 0, "retract": False, "plan_ahead": -1}
    o.update(opts)
    return {
        "name": name, "policy": policy, "enforce": enforce, "now": now, "grid": grid,
        "horizon": horizon if horizon is not None else now + 10, "workers": list(workers), "tasks": tasks, "opts": o,
    }


RES_NAMES = ("r", "q", "p")  # resource type j of an instance <-> Resource(name=RES_NAMES[j])


def vec(x):
    """a capacity / demand as a vector over the resource types (a bare number = one resource type)"""
    return [int(v) for v in x] if isinstance(x, (list, tuple)) else [int(x)]


def n_res(inst):
    return max([len(vec(c)) for c in inst["workers"]] + [len(vec(s["dem"])) for t in inst["tasks"] for s in t["strats"]])


def vecn(x, n):
    v = vec(x)
    return v + [0] * (n - len(v))


def fits(dem, cap):
    n = max(len(vec(dem)), len(vec(cap)))
    return all(a <= b for a, b in zip(vecn(dem, n), vecn(cap, n)))


def tm(inst, kind, v):
    """the EventTime of the microsecond value `v`.  inst["units"] = {kind: "MS" | "S"} gives the unit in which times of
    that kind ("rt", "deadline", "release", "now", "cur", "grid") are handed to the code (same microsecond value)."""
    u = (inst.get("units") or {}).get(kind, "US")
    N = ns()
    f = {"US": 1, "MS": 1000, "S": 1000000}[u]
    if f > 1 and v >= 0 and v % f == 0:
        return N.EventTime(int(v) // f, getattr(N.EventTime.Unit, u))
    return us(v)


def scale_times(inst, f):
    """every time of the instance multiplied by f (the same instance on a coarser clock)"""
    for k in ("now", "horizon"):
        inst[k] *= f
    if inst["policy"] in ("TSG", "TSC"):
        inst["grid"] *= f  # the discretisation is an option of TetriSched only; the others decide in microseconds
    for k in ("lookahead", "plan_ahead"):
        if inst["opts"][k] > 0:
            inst["opts"][k] *= f
    for t in inst["tasks"]:
        t["deadline"] *= f
        if t["release"] > 0:
            t["release"] *= f
        if t["fin"] > 0:
            t["fin"] *= f
        t["cur"]["s"] *= f
        for s in t["strats"]:
            s["rt"] *= f
    return inst


def spec_inst(inst):
    """the part of an instance the specification knows about"""
    profs = {}
    tasks = []
    nr = n_res(inst)
    for t in inst["tasks"]:
        d = {k: t[k] for k in SPEC_TASK_FIELDS}
        d["strats"] = [{"dem": vecn(s["dem"], nr), "rt": s["rt"], "bs": s.get("bs", 1)} for s in t["strats"]]
        # prof: 0 = a profile of its own; tasks with the same positive number share a work profile (batching)
        d["prof"] = profs.setdefault(t["prof"], len(profs) + 1) if t.get("prof") else 0
        tasks.append(d)
    return {
        "policy": inst["policy"], "enforce": bool(inst["enforce"]), "now": inst["now"], "grid": inst["grid"],
        "horizon": inst["horizon"], "workers": [vecn(c, nr) for c in inst["workers"]], "step": inst.get("step", 1),
        "batching": bool(inst.get("opts", {}).get("batching", False)), "tasks": tasks,
    }


# ---------------------------------------------------------------------------
# building the real objects


class World:
    """real objects of one instance"""

    def __init__(self, inst):
        N = ns()
        self.inst = inst
        self.N = N
        self.res = N.Resource(name="r", _id="any")
        nr = n_res(inst)
        split = inst.get("wsplit")  # None | "ones" | "uneven": a capacity listed as several resource ids of the same name

        def worker_vector(i, cap):
            rv = {}
            for j, c in enumerate(vecn(cap, nr)):
                if c == 0 and nr > 1:
                    continue  # the worker does not have this resource type at all
                parts = [c]
                if split == "ones" and c > 1:
                    parts = [1] * c
                elif split == "uneven" and c > 1:
                    parts = [c - 1, 1]
                if len(parts) == 1:
                    rv[N.Resource(name=RES_NAMES[j])] = c
                else:
                    for g, q in enumerate(parts):
                        rv[N.Resource(name=RES_NAMES[j], _id=f"{RES_NAMES[j]}{i + 1}g{g}")] = q
            return N.Resources(resource_vector=rv)

        def demand(dem):
            return N.Resources(resource_vector={N.Resource(name=RES_NAMES[j], _id="any"): q for j, q in enumerate(vec(dem)) if q > 0})

        self.workers = [N.Worker(name=f"W{i + 1}", resources=worker_vector(i, cap)) for i, cap in enumerate(inst["workers"])]
        self.pool = N.WorkerPool(name="P", workers=self.workers)
        self.pools = N.WorkerPools([self.pool])
        self.widx = {w.id: i + 1 for i, w in enumerate(self.workers)}
        self.tasks, self.strats, self.profiles = [], [], []
        shared = {}
        for ti, t in enumerate(inst["tasks"]):
            if t.get("prof") and t["prof"] in shared:
                prof, sts = shared[t["prof"]]  # tasks of one work profile: the same WorkProfile / strategy objects
                if [(vec(s["dem"]), s["rt"], s.get("bs", 1)) for s in t["strats"]] != [
                    (vec(s["dem"]), s["rt"], s.get("bs", 1)) for s in inst["tasks"][self.profiles.index(prof)]["strats"]
                ]:
                    raise tlc.TLCMachineryError(f"{inst['name']}: tasks of profile {t['prof']} with different strategies")
            else:
                sts = [
                    N.ExecutionStrategy(resources=demand(s["dem"]), batch_size=s.get("bs", 1), runtime=tm(inst, "rt", s["rt"]))
                    for s in t["strats"]
                ]
                loading = [N.ExecutionStrategy(resources=N.Resources(), batch_size=1, runtime=us(0))]
                prof = N.WorkProfile(
                    name=str(t["prof"]) if t.get("prof") else f"p{ti + 1}", execution_strategies=N.ExecutionStrategies(strategies=sts),
                    loading_strategies=N.ExecutionStrategies(strategies=loading),
                )
                if t.get("prof"):
                    shared[t["prof"]] = (prof, sts)
            graph = t.get("graph", "G")
            task = N.Task(
                name=f"T{ti + 1}", task_graph=graph, job=N.Job(name=f"T{ti + 1}", profile=prof), profile=prof,
                deadline=tm(inst, "deadline", t["deadline"]), timestamp=0,
                release_time=tm(inst, "release", t["release"]) if t["state"] != "VIRT" else N.EventTime.invalid(),
            )
            self.tasks.append(task)
            self.strats.append(sts)
            self.profiles.append(prof)
        graphs = {}
        for ti, t in enumerate(inst["tasks"]):
            g = graphs.setdefault(t.get("graph", "G"), {})
            g.setdefault(self.tasks[ti], [])
            for p in t["parents"]:
                g.setdefault(self.tasks[p - 1], []).append(self.tasks[ti])
        self.tgs = {name: N.TaskGraph(name=name, tasks=g) for name, g in graphs.items()}
        self.workload = N.Workload.from_task_graphs(self.tgs)
        self.tix = {id(t): i + 1 for i, t in enumerate(self.tasks)}
        now = inst["now"]
        for ti, t in enumerate(inst["tasks"]):
            task, st = self.tasks[ti], t["state"]
            if st == "VIRT":
                continue
            task.release(tm(inst, "release", t["release"]))
            if st == "REL":
                continue
            cur = t["cur"]
            strat = self.strats[ti][cur["k"] - 1]
            worker = self.workers[cur["w"] - 1]
            pl = N.Placement.create_task_placement(
                task=task, placement_time=tm(inst, "cur", cur["s"]), worker_pool_id=self.pool.id, worker_id=worker.id,
                execution_strategy=strat,
            )
            task.schedule(us(min(cur["s"], now)), pl)
            if st == "SCHED":
                continue
            if st == "RUN":
                if not self.pool.place_task(task, execution_strategy=strat, worker_id=worker.id):
                    raise tlc.TLCMachineryError(f"{inst['name']}: cannot place running task {ti + 1}")
                task.start(us(cur["s"]))
                if now > cur["s"]:
                    task.step(us(cur["s"]), us(now - cur["s"]))
            elif st == "DONE":
                task.start(us(cur["s"]))
                task.step(us(cur["s"]), us(strat.runtime.to(N.EventTime.Unit.US).time))
                task.finish(us(t["fin"]))

        self.clock = now

    # -- multi-invocation scenarios: what the Simulator does between two scheduler invocations ----------
    def release(self, ti, time):
        self.tasks[ti].release(tm(self.inst, "release", time))

    def apply(self, placements, now):
        """SCHEDULER_FINISHED (simulator.py __handle_scheduler_finish, drop_skipped_tasks off): a CANCEL_TASK placement
        cancels the task (with its dependents), a placed PLACE_TASK placement (re)schedules the task, an unplaced one
        unschedules a SCHEDULED task and leaves a RELEASED one alone."""
        N = self.N
        PT, S = N.Placement.PlacementType, N.TaskState
        for pl in placements:
            if pl.placement_type == PT.CANCEL_TASK:
                if pl.task.state in (S.VIRTUAL, S.RELEASED, S.SCHEDULED):
                    self.workload.get_task_graph(pl.task.task_graph).cancel(pl.task, us(now))
            elif pl.placement_type == PT.PLACE_TASK:
                if pl.is_placed():
                    if pl.task.state in (S.RELEASED, S.SCHEDULED):
                        pl.task.schedule(us(now), pl)
                elif pl.task.state == S.SCHEDULED:
                    pl.task.unschedule(us(now))

    def advance(self, to):
        """TASK_PLACEMENT at the planned time (WorkerPool.place_task + Task.start), clock steps (WorkerPool.step),
        TASK_FINISHED (WorkerPool.remove_task + Task.finish) up to time `to`; at equal times finishes come before
        placements and placements before the scheduler (EventType order).  Returns None, or why the plan could not be
        carried out (a worker that is not ready: the Simulator would defer the placement; the scenario stops there)."""
        S = self.N.TaskState
        US = self.N.EventTime.Unit.US
        c = self.clock
        while True:
            due = [t for t in self.tasks if t.state == S.SCHEDULED and t.current_placement.placement_time.to(US).time <= c]
            for task in sorted(due, key=lambda t: (t.current_placement.placement_time.to(US).time, t.unique_name)):
                pl = task.current_placement
                if not self.pool.place_task(task, execution_strategy=pl.execution_strategy, worker_id=pl.worker_id):
                    return f"worker not ready for {task.unique_name} at {c}"
                task.start(us(c))
            if c >= to:
                break
            for task in self.pool.step(us(c), us(1)):
                self.pool.remove_task(current_time=us(c + 1), task=task)
                task.finish()
            c += 1
        self.clock = to
        return None

    def snapshot(self, inst, now, step):
        """the instance as it is at `now`: states / current placements / expected finishes read from the real tasks"""
        US = self.N.EventTime.Unit.US
        inst = json.loads(json.dumps(inst))
        inst["now"], inst["step"] = now, step
        for ti, t in enumerate(inst["tasks"]):
            task = self.tasks[ti]
            st = TASK_STATES.get(task.state.value)
            if st is None:
                raise tlc.TLCMachineryError(f"{inst['name']}: task {ti + 1} in state {task.state}")
            t["state"] = st
            t["release"] = -1 if st == "VIRT" else task.release_time.to(US).time
            t["cur"], t["fin"] = {"w": 0, "s": 0, "k": 0}, -1
            pl = task.current_placement
            if st in ("SCHED", "RUN", "DONE") and pl is not None:
                wid = pl.worker_id
                if wid is None:  # the greedy policies name the pool only: the worker the pool put the task on
                    wid = next((w.id for w in self.workers if any(x is task for x in w.get_placed_tasks())), None)
                t["cur"] = {
                    "w": self.widx.get(wid, 1 if len(self.workers) == 1 else 0),
                    "s": (task.start_time if st != "SCHED" else pl.placement_time).to(US).time,
                    "k": self.strat_index(ti, pl.execution_strategy),
                }
                t["fin"] = self.expected_finish(ti)
        return inst

    # -- projection ---------------------------------------------------------
    def expected_finish(self, ti):
        """expected finish of a RUNNING / SCHEDULED task read from the real task"""
        task = self.tasks[ti]
        S = self.N.TaskState
        if task.state == S.RUNNING:
            return self.inst["now"] + task.remaining_time.to(self.N.EventTime.Unit.US).time
        if task.state == S.SCHEDULED:
            return (task.expected_start_time + task.remaining_time).to(self.N.EventTime.Unit.US).time
        if task.state == S.COMPLETED:
            return task.completion_time.to(self.N.EventTime.Unit.US).time
        return -1

    def strat_index(self, ti, es):
        if es is None:
            return 1 if len(self.strats[ti]) == 1 else 0
        for k, s in enumerate(self.strats[ti]):
            if s is es:
                return k + 1
        for k, s in enumerate(self.strats[ti]):
            if s.runtime == es.runtime and s.batch_size == es.batch_size and s.resources == es.resources:
                return k + 1
        return 0


def build_scheduler(inst, world):
    N = ns()
    import schedulers

    o, pol = inst["opts"], inst["policy"]
    zero = N.EventTime.zero()
    la = tm(inst, "grid", o["lookahead"])
    lim = N.EventTime(20, N.EventTime.Unit.S)
    if pol in ("ILP", "ILP_RTG"):
        return schedulers.ILPScheduler(
            preemptive=False, runtime=zero, lookahead=la, enforce_deadlines=inst["enforce"],
            retract_schedules=o["retract"], release_taskgraphs=o["rtg"],
            goal="max_goodput" if inst["enforce"] else "max_slack", time_limit=lim, batching=bool(o.get("batching", False)),
        )
    if pol == "TSG":
        return schedulers.TetriSchedGurobiScheduler(
            runtime=zero, lookahead=la, enforce_deadlines=inst["enforce"], retract_schedules=o["retract"],
            release_taskgraphs=o["rtg"], time_limit=lim, time_discretization=tm(inst, "grid", inst["grid"]),
            plan_ahead=tm(inst, "grid", o["plan_ahead"]) if o["plan_ahead"] >= 0 else N.EventTime.invalid(),
        )
    if pol == "TSC":
        return schedulers.TetriSchedCPLEXScheduler(
            runtime=zero, lookahead=la, enforce_deadlines=inst["enforce"], retract_schedules=o["retract"],
            time_limit=lim, time_discretization=tm(inst, "grid", inst["grid"]), batching=bool(o.get("batching", False)),
            plan_ahead=tm(inst, "grid", o["plan_ahead"]) if o["plan_ahead"] >= 0 else N.EventTime(-1, N.EventTime.Unit.US),
        )
    if pol == "Z3":
        from schedulers.z3_scheduler import Z3Scheduler

        return Z3Scheduler(
            runtime=zero, lookahead=la, enforce_deadlines=inst["enforce"], retract_schedules=o["retract"],
            release_taskgraphs=o["rtg"],
        )
    if pol == "EDF":
        return schedulers.EDFScheduler(preemptive=False, runtime=zero, enforce_deadlines=inst["enforce"])
    if pol == "FIFO":
        return schedulers.FIFOScheduler(preemptive=False, runtime=zero, enforce_deadlines=inst["enforce"])
    if pol == "CW":
        s = schedulers.ClockworkScheduler(runtime=zero)
        # the models are loaded on every worker by the harness (zero-cost loading strategy)
        profiles = []
        for prof in world.profiles:
            if all(prof is not p for p in profiles):
                profiles.append(prof)
        for w in world.workers:
            for prof in profiles:
                w.load_profile(prof, N.ExecutionStrategy(resources=N.Resources(), batch_size=1, runtime=us(0)))
            w.step(us(0), us(1))
        s.start(us(0), profiles, world.pools)
        return s
    raise ValueError(pol)


def offered_tasks(inst, world, sched):
    """what the policy's own get_schedulable_tasks call returns on this state"""
    pol = inst["policy"]
    now = tm(inst, "now", inst["now"])
    if pol in ("EDF", "FIFO"):
        res = world.workload.get_schedulable_tasks(time=now, preemption=False, worker_pools=world.pools)
    else:
        kw = dict(
            time=now, lookahead=sched.lookahead, preemption=sched.preemptive, retract_schedules=sched.retract_schedules,
            worker_pools=world.pools, policy=sched.policy, branch_prediction_accuracy=sched.branch_prediction_accuracy,
        )
        if pol not in ("CW",):
            kw["release_taskgraphs"] = sched.release_taskgraphs
        res = world.workload.get_schedulable_tasks(**kw)
    return [world.tix[id(t)] for t in res if id(t) in world.tix]


# ---------------------------------------------------------------------------
# model capture (this process only)


class Capture:
    """Wraps gurobipy.Model.optimize / z3.Optimize.check / docplex Model.solve while active and
    keeps the model objects the schedulers hand to the solver."""

    def __init__(self, cplex=False, batching=False):
        self.gurobi, self.z3, self.cplex = [], [], []
        self.batches = []  # batching=True: the BatchTasks the scheduler built (name, member tasks in order, strategy, state)
        self._want_cplex = cplex
        self._want_batches = batching
        self._cs = None
        self._cb = []

    def __enter__(self):
        import gurobipy as gp
        from z3 import z3 as z3mod

        self._gp, self._z3 = gp, z3mod
        self._go = gp.Model.optimize
        self._zc = z3mod.Optimize.check
        cap = self

        def optimize(model, *a, **k):
            if all(m is not model for m in cap.gurobi):
                cap.gurobi.append(model)
            # the schedulers ask for cpu_count() solver threads; the machine is shared and several
            # instances run side by side: one thread (a performance parameter, not a modelling one)
            model.Params.Threads = 1
            return cap._go(model, *a, **k)

        def check(opt, *a, **k):
            if all(o is not opt for o in cap.z3):
                cap.z3.append(opt)
            return cap._zc(opt, *a, **k)

        gp.Model.optimize = optimize
        z3mod.Optimize.check = check
        if self._want_cplex:
            import docplex.mp.model as cpx

            self._cpx = cpx
            self._cs = cpx.Model.solve

            _cache_platform_probe()

            def solve(mdl, *a, **k):
                # TetriSchedCPLEXScheduler calls optimizer.end() before returning: keep a clone
                cap.cplex.append(mdl.clone())
                # as for Gurobi: one solver thread (the scheduler asks for cpu_count() of them on a shared machine)
                mdl.context.cplex_parameters.threads = 1
                return cap._cs(mdl, *a, **k)

            cpx.Model.solve = solve
        if self._want_batches:
            from schedulers.ilp_scheduler import ILPScheduler
            from schedulers.tetrisched_cplex_scheduler import TetriSchedCPLEXScheduler

            def wrap(cls):
                orig = cls._create_batch_task_variables

                def create(sched, *a, **k):
                    res = orig(sched, *a, **k)
                    for name, var in res.items():
                        bt = var.task
                        cap.batches.append({
                            "name": name, "tasks": list(bt.tasks), "strategy": bt.available_execution_strategies[0],
                            "state": bt.state.value, "deadline": bt.deadline,
                        })
                    return res

                cls._create_batch_task_variables = create
                cap._cb.append((cls, orig))

            wrap(ILPScheduler)
            wrap(TetriSchedCPLEXScheduler)
        return self

    def __exit__(self, *a):
        self._gp.Model.optimize = self._go
        self._z3.Optimize.check = self._zc
        if self._cs is not None:
            self._cpx.Model.solve = self._cs
        for cls, orig in self._cb:
            cls._create_batch_task_variables = orig


_QUIET_DONE = False
_PLATFORM_CACHED = False


def _cache_platform_probe():
    """every docplex Model asks platform.architecture(), which runs file(1) in a subprocess: ask once per process"""
    global _PLATFORM_CACHED
    if _PLATFORM_CACHED:
        return
    _PLATFORM_CACHED = True
    import functools
    import platform

    platform.architecture = functools.lru_cache(maxsize=None)(platform.architecture)



def quiet_gurobi():
    """the licence banner goes to the C-level stdout at the first environment: swallow it once"""
    global _QUIET_DONE
    if _QUIET_DONE:
        return
    _QUIET_DONE = True
    import gurobipy as gp

    fd = os.dup(1)
    devnull = os.open(os.devnull, os.O_WRONLY)
    try:
        os.dup2(devnull, 1)
        m = gp.Model("warmup")
        m.Params.LogToConsole = 0
        gp.setParam("LogToConsole", 0)
        m.dispose()
    finally:
        os.dup2(fd, 1)
        os.close(fd)
        os.close(devnull)


# ---------------------------------------------------------------------------
# T1: call the real policy


def realize(inst):
    """Build, call, project.  Returns (inst with offered/dec/must/dlenf/fin filled in, decisions, info, handle)."""
    import_repo()
    N = ns()
    pol = inst["policy"]
    if pol in GUROBI_POLICIES:
        quiet_gurobi()
    world = World(inst)
    sched = build_scheduler(inst, world)
    return call_policy(inst, world, sched)


def call_policy(inst, world, sched):
    """one real `schedule()` call on the state the world is in; projection of the answer"""
    N = ns()
    pol = inst["policy"]
    batching = bool(inst["opts"].get("batching", False))
    inst = json.loads(json.dumps(inst))
    info = {}
    off = offered_tasks(inst, world, sched)
    replans = pol in ("ILP", "ILP_RTG", "TSG", "TSC") and not inst["opts"]["retract"]
    for ti, t in enumerate(inst["tasks"]):
        t["offered"] = (ti + 1) in off
        t["must"] = bool(replans and t["state"] == "SCHED")
        t["dec"] = bool(t["offered"] or t["must"])
        if t["state"] in ("RUN", "SCHED", "DONE"):
            t["fin"] = world.expected_finish(ti)
    handle = {"world": world, "sched": sched, "model": None, "kind": None, "placements": []}
    dec = [{"kind": "none", "w": 0, "s": 0, "k": 0, "c": False} for _ in inst["tasks"]]
    out = io.StringIO()
    with Capture(cplex=(pol == "TSC"), batching=batching) as cap:
        try:
            with contextlib.redirect_stdout(out):
                placements = sched.schedule(tm(inst, "now", inst["now"]), world.workload, world.pools)
        except Exception as ex:  # a crash is C10's business; here the call has no answer
            info["raised"] = f"{type(ex).__name__}: {ex}"[:300]
            placements = []
    handle["placements"] = list(placements)
    if batching:
        # the batches of this call as the scheduler built them (member order matters: the scheduler reads members[0])
        handle["batches"] = [
            {
                "name": b["name"], "members": [world.tix[id(t)] for t in b["tasks"] if id(t) in world.tix],
                "strategy": b["strategy"], "state": b["state"],
            }
            for b in cap.batches
        ]
        info["batches"] = [
            {"name": b["name"], "members": b["members"], "state": TASK_STATES.get(b["state"], str(b["state"])),
             "rt": b["strategy"].runtime.to(N.EventTime.Unit.US).time, "bs": b["strategy"].batch_size}
            for b in handle["batches"]
        ]
    PT = N.Placement.PlacementType
    for pl in placements:
        if pl.placement_type not in (PT.PLACE_TASK, PT.CANCEL_TASK):
            continue
        ti = world.tix.get(id(pl.task))
        if ti is None:
            info.setdefault("foreign", []).append(pl.task.unique_name)
            continue
        if pl.placement_type == PT.CANCEL_TASK:
            d = {"kind": "cancel", "w": 0, "s": 0, "k": 0, "c": True}
        elif pl.is_placed():
            d = {
                "kind": "place",
                "w": world.widx.get(pl.worker_id, 0) if pl.worker_id is not None else (1 if len(world.workers) == 1 else 0),
                "s": pl.placement_time.to(N.EventTime.Unit.US).time,
                "k": world.strat_index(ti - 1, pl.execution_strategy),
            }
            if pl.worker_id is None:
                info["pool_only"] = True
                if d["w"] == 0:
                    d["w"] = 1
        else:
            d = {"kind": "unplaced", "w": 0, "s": 0, "k": 0}
        d.setdefault("c", False)
        if dec[ti - 1]["kind"] != "none":
            # more than one Placement for the task in one answer: a placement wins over the rest, a cancellation is
            # remembered in `c` (the specification says what an answer that both cancels and places a task is)
            info.setdefault("duplicate", []).append(ti)
            old = dec[ti - 1]
            if old["kind"] == "place":
                old["c"] = old["c"] or d["kind"] == "cancel"
                continue
            if d["kind"] == "place":
                d["c"] = old["kind"] == "cancel"
            elif old["kind"] == "cancel":
                continue
        dec[ti - 1] = d
    if pol in ("ILP", "ILP_RTG"):
        miss = getattr(sched, "_allowed_to_miss_deadlines", set())
        for ti, t in enumerate(inst["tasks"]):
            t["dlenf"] = bool(inst["enforce"] and not ((inst["opts"]["rtg"] or batching) and world.tasks[ti].task_graph in miss))
    else:
        for t in inst["tasks"]:
            t["dlenf"] = bool(inst["enforce"])
    for ti, d in enumerate(dec):  # a decision makes the task "decided" even if the probe did not list it
        if d["kind"] != "none":
            inst["tasks"][ti]["dec"] = True
    if pol in GUROBI_POLICIES and cap.gurobi:
        handle["model"], handle["kind"] = cap.gurobi[-1], "gurobi"
    elif pol == "Z3" and cap.z3:
        handle["model"], handle["kind"] = cap.z3[-1], "z3"
    elif pol == "TSC" and cap.cplex:
        handle["model"], handle["kind"] = cap.cplex[-1], "cplex"
    return inst, dec, info, handle


def realize_steps(inst):
    """A multi-invocation scenario: inst["steps"] = [now_1 <= now_2 <= ...]; task["phase"] = i > 1: the task is released
    (at task["rel_at"]) before invocation i.  One scheduler object; between two invocations the answer is applied to the
    real tasks / workers the way the Simulator does (World.apply / World.advance).  Returns one
    (instance as it is at invocation i, decisions, info, handle) per invocation carried out."""
    import random

    import_repo()
    if inst["policy"] in GUROBI_POLICIES:
        quiet_gurobi()
    # the ids of the real Task objects are random draws; they fix the iteration order of the schedulers' task sets
    random.seed(f"{inst.get('salt', 0)}:{inst['name']}")
    steps = inst["steps"]
    base = json.loads(json.dumps(inst))
    base["now"] = steps[0]
    for t in base["tasks"]:
        if t.get("phase", 1) > 1:
            t["state"], t["release"] = "VIRT", -1
    world = World(base)
    sched = build_scheduler(base, world)
    out = []
    for i, now in enumerate(steps, start=1):
        why = world.advance(now)
        if why:
            if out:
                out[-1][2]["stopped"] = why
            break
        for ti, t in enumerate(base["tasks"]):
            if t.get("phase", 1) == i and i > 1:
                world.release(ti, t.get("rel_at", now))
        snap = world.snapshot(base, now, i)
        snap["name"] = f"{inst['name']}@{i}"
        r = call_policy(snap, world, sched)
        out.append(r)
        if r[2].get("raised"):
            break
        world.apply(r[3]["placements"], now)
    return out


# ---------------------------------------------------------------------------
# the captured models: variables of a task, fixing a plan, enumerating solutions


class GurobiView:
    """Maps (task, worker, start, strategy) to the variables of a captured ILP / TetriSched model."""

    def __init__(self, inst, handle):
        import gurobipy as gp

        self.gp = gp
        self.inst, self.world = inst, handle["world"]
        self.kind = "ts" if inst["policy"] == "TSG" else "ilp"
        src = handle["model"]
        src.update()
        self.m = src.copy()
        m = self.m
        m.Params.OutputFlag = 0
        m.Params.Threads = 1
        m.Params.TimeLimit = 20
        m.Params.MIPGap = 0
        m.setObjective(0, gp.GRB.MAXIMIZE)
        m.update()
        self.byname = {v.VarName: v for v in m.getVars()}
        self.x = {}  # task index -> {(w, k) or (w, s, k): var}
        self.start = {}
        self.dtasks = [ti + 1 for ti, t in enumerate(inst["tasks"]) if t["dec"]]
        w = self.world
        US = w.N.EventTime.Unit.US
        for t in self.dtasks:
            task = w.tasks[t - 1]
            un = task.unique_name
            self.x[t] = {}
            if self.kind == "ilp":
                self.start[t] = self.byname.get(f"{un}_start")
                for wi, worker in enumerate(w.workers, 1):
                    for k, s in enumerate(w.strats[t - 1], 1):
                        v = self.byname.get(
                            f"{un}_placed_on_{worker.name}_with_batch_size_{s.batch_size}_runtime_{s.runtime.to(US).time}"
                        )
                        if v is not None:
                            self.x[t][(wi, k)] = v
            else:
                self.start[t] = self.byname.get(f"{un}_start_time")
                pat = re.compile(re.escape(un) + r"_placed_at_Worker_(\d+)_on_Time_(-?\d+)_with_strategy_(.+)$")
                sid = {s.id: k for k, s in enumerate(w.strats[t - 1], 1)}
                for name, v in self.byname.items():
                    mm = pat.match(name)
                    if mm and mm.group(3) in sid:
                        self.x[t][(int(mm.group(1)), int(mm.group(2)), sid[mm.group(3)])] = v
        self.saved = {}

    def in_model(self):
        return all(self.start.get(t) is not None for t in self.dtasks)

    def _set(self, v, lo, hi):
        if v.VarName not in self.saved:
            self.saved[v.VarName] = (v, v.LB, v.UB)
        v.LB, v.UB = lo, hi

    def _restore(self):
        for v, lo, hi in self.saved.values():
            v.LB, v.UB = lo, hi
        self.saved = {}

    def feasible(self, d):
        """d: decisions per task ([p, w, s, k] with p = 1 place / 0 unplaced / -1 none).  Returns
        True (feasible) / False (infeasible or not expressible: no such variable)."""
        GRB = self.gp.GRB
        try:
            for t in self.dtasks:
                p, w, s, k = d[t - 1]
                if p < 0:
                    continue
                key = ((w, k) if self.kind == "ilp" else (w, s, k)) if p == 1 else None
                if p == 1 and key not in self.x[t]:
                    return False
                for kk, v in self.x[t].items():
                    val = 1 if kk == key else 0
                    self._set(v, val, val)
                if p == 1 and self.kind == "ilp":
                    self._set(self.start[t], s, s)
            self.m.Params.SolutionLimit = 1
            self.m.Params.PoolSearchMode = 0
            self.m.optimize()
            st = self.m.Status
            if st in (GRB.OPTIMAL, GRB.SOLUTION_LIMIT, GRB.SUBOPTIMAL):
                return True
            if st == GRB.INFEASIBLE:
                return False
            raise tlc.TLCMachineryError(f"gurobi status {st} on a fixed plan of {self.inst['name']}")
        finally:
            self._restore()
            self.m.Params.SolutionLimit = 2000000000

    def pool(self, cap, passes=2, seed=0, time_limit=3):
        """distinct projections (per decided task: [p, w, s, k]) of feasible solutions with all starts <= horizon"""
        import random

        GRB = self.gp.GRB
        H = self.inst["horizon"]
        m = self.m
        seen, out = set(), []
        try:
            for t in self.dtasks:
                v = self.start[t]
                self._set(v, v.LB, min(v.UB, H))
            rnd = random.Random(seed)
            for ps in range(passes):
                if ps == 0:
                    m.setObjective(0, GRB.MAXIMIZE)
                else:  # prefer solutions that place much, with a random tilt: precedence / deadlines are exercised
                    m.setObjective(
                        self.gp.quicksum((1 + rnd.random()) * v for t in self.dtasks for v in self.x[t].values()), GRB.MAXIMIZE
                    )
                # systematic enumeration for the zero objective, "more solutions" for the tilted one
                m.Params.PoolSearchMode = 2 if ps == 0 else 1
                m.Params.PoolSolutions = 4 * cap
                m.Params.SolutionLimit = 2000000000
                m.Params.TimeLimit = time_limit
                m.optimize()
                if m.Status == GRB.INFEASIBLE:
                    break
                for i in range(m.SolCount):
                    m.Params.SolutionNumber = i
                    d = [[-1, 0, 0, 0] for _ in self.inst["tasks"]]
                    for t in self.dtasks:
                        on = [kk for kk, v in self.x[t].items() if v.Xn > 0.5]
                        if len(on) > 1:
                            d[t - 1] = [2, 0, 0, 0]
                        elif on:
                            kk = on[0]
                            if self.kind == "ilp":
                                d[t - 1] = [1, kk[0], int(round(self.start[t].Xn)), kk[1]]
                            else:
                                d[t - 1] = [1, kk[0], kk[1], kk[2]]
                        else:
                            d[t - 1] = [0, 0, 0, 0]
                    key = json.dumps(d)
                    if key not in seen and len(out) < cap:
                        seen.add(key)
                        out.append(d)
        finally:
            self._restore()
            m.Params.TimeLimit = 20
            m.Params.PoolSearchMode = 0
            m.setObjective(0, GRB.MAXIMIZE)
        return out


def _group_plan(inst, units, dtasks, d):
    """A per-task plan in terms of the batches of a batching model.  Returns {unit index: (w, s)} for the batches
    that are placed, or None when the plan cannot be expressed (tasks placed together that are no batch of the model)."""
    groups = {}
    for t in dtasks:
        p, w, s, k = d[t - 1]
        if p == 1:
            groups.setdefault((w, s, k), []).append(t)
    chosen = {}
    for (w, s, k), members in groups.items():
        rest = sorted(members)
        # bs = 1: every member is a batch of its own; bs > 1: the members are exactly one batch
        want = [[t] for t in rest] if inst["tasks"][rest[0] - 1]["strats"][k - 1].get("bs", 1) == 1 else [rest]
        for ms in want:
            ix = next((i for i, u in enumerate(units) if u["k"] == k and sorted(u["members"]) == ms and i not in chosen), None)
            if ix is None:
                return None
            chosen[ix] = (w, s)
    return chosen


def _batch_units(inst, handle):
    """the BatchTasks of a batching call: name, members (task indices, the scheduler's order), strategy index"""
    w = handle["world"]
    units = []
    for b in handle.get("batches", []):
        if not b["members"]:
            continue
        k = w.strat_index(b["members"][0] - 1, b["strategy"])
        units.append({"name": b["name"], "members": list(b["members"]), "k": k, "state": b["state"], "strategy": b["strategy"]})
    return units


class BatchGurobiView(GurobiView):
    """ILP with batching=True: the model has one start / placement variable set per BatchTask"""

    def __init__(self, inst, handle):
        import gurobipy as gp

        self.gp = gp
        self.inst, self.world = inst, handle["world"]
        self.kind = "ilp"
        src = handle["model"]
        src.update()
        self.m = src.copy()
        m = self.m
        m.Params.OutputFlag = 0
        m.Params.Threads = 1
        m.Params.TimeLimit = 20
        m.Params.MIPGap = 0
        m.setObjective(0, gp.GRB.MAXIMIZE)
        m.update()
        self.byname = {v.VarName: v for v in m.getVars()}
        self.dtasks = [ti + 1 for ti, t in enumerate(inst["tasks"]) if t["dec"]]
        US = self.world.N.EventTime.Unit.US
        self.units = []
        for u in _batch_units(inst, handle):
            if u["state"] == 4:  # RUNNING: constants of the model
                continue
            u["start"] = self.byname.get(f"{u['name']}_start")
            u["x"] = {}
            st = u["strategy"]
            for wi, worker in enumerate(self.world.workers, 1):
                v = self.byname.get(f"{u['name']}_placed_on_{worker.name}_with_batch_size_{st.batch_size}_runtime_{st.runtime.to(US).time}")
                if v is not None:
                    u["x"][wi] = v
            self.units.append(u)
        self.saved = {}

    def in_model(self):
        covered = {t for u in self.units for t in u["members"]}
        return bool(self.units) and all(u["start"] is not None for u in self.units) and any(t in covered for t in self.dtasks)

    def feasible(self, d):
        GRB = self.gp.GRB
        chosen = _group_plan(self.inst, self.units, self.dtasks, d)
        if chosen is None:
            return False
        try:
            for i, u in enumerate(self.units):
                if not any(t in self.dtasks and d[t - 1][0] >= 0 for t in u["members"]):
                    continue
                on = chosen.get(i)
                if on is not None and on[0] not in u["x"]:
                    return False
                for wi, v in u["x"].items():
                    val = 1 if on is not None and wi == on[0] else 0
                    self._set(v, val, val)
                if on is not None:
                    self._set(u["start"], on[1], on[1])
            self.m.Params.SolutionLimit = 1
            self.m.Params.PoolSearchMode = 0
            self.m.optimize()
            st = self.m.Status
            if st in (GRB.OPTIMAL, GRB.SOLUTION_LIMIT, GRB.SUBOPTIMAL):
                return True
            if st == GRB.INFEASIBLE:
                return False
            raise tlc.TLCMachineryError(f"gurobi status {st} on a fixed plan of {self.inst['name']}")
        finally:
            self._restore()
            self.m.Params.SolutionLimit = 2000000000

    def pool(self, cap, passes=2, seed=0, time_limit=3):
        import random

        GRB = self.gp.GRB
        H = self.inst["horizon"]
        m = self.m
        seen, out = set(), []
        try:
            for u in self.units:
                v = u["start"]
                self._set(v, v.LB, min(v.UB, H))
            rnd = random.Random(seed)
            for ps in range(passes):
                if ps == 0:
                    m.setObjective(0, GRB.MAXIMIZE)
                else:
                    m.setObjective(self.gp.quicksum((1 + rnd.random()) * v for u in self.units for v in u["x"].values()), GRB.MAXIMIZE)
                m.Params.PoolSearchMode = 2 if ps == 0 else 1
                m.Params.PoolSolutions = 4 * cap
                m.Params.SolutionLimit = 2000000000
                m.Params.TimeLimit = time_limit
                m.optimize()
                if m.Status == GRB.INFEASIBLE:
                    break
                for i in range(m.SolCount):
                    m.Params.SolutionNumber = i
                    d = [[-1, 0, 0, 0] for _ in self.inst["tasks"]]
                    for t in self.dtasks:
                        d[t - 1] = [0, 0, 0, 0]
                    for u in self.units:
                        on = [wi for wi, v in u["x"].items() if v.Xn > 0.5]
                        for t in u["members"]:
                            if not on or t not in self.dtasks:
                                continue
                            d[t - 1] = [2, 0, 0, 0] if (len(on) > 1 or d[t - 1][0] in (1, 2)) else [1, on[0], int(round(u["start"].Xn)), u["k"]]
                    key = json.dumps(d)
                    if key not in seen and len(out) < cap:
                        seen.add(key)
                        out.append(d)
        finally:
            self._restore()
            m.Params.TimeLimit = 20
            m.Params.PoolSearchMode = 0
            m.setObjective(0, GRB.MAXIMIZE)
        return out


class Z3View:
    def __init__(self, inst, handle):
        from z3 import z3

        self.z3 = z3
        self.inst, self.world = inst, handle["world"]
        self.opt = handle["model"]
        self.solver = z3.Solver()
        self.solver.add(self.opt.assertions())
        nw = len(self.world.workers)
        self.dtasks = [ti + 1 for ti, t in enumerate(inst["tasks"]) if t["dec"]]
        self.v = {}
        for t in self.dtasks:
            un = self.world.tasks[t - 1].unique_name
            self.v[t] = (z3.Bool(f"{un}_is_placed"), z3.Int(f"{un}_start"), z3.BitVec(f"{un}_worker", nw))

    def in_model(self):
        txt = str(self.opt.assertions())
        return all(f"{self.world.tasks[t - 1].unique_name}_is_placed" in txt for t in self.dtasks)

    def _fix(self, d):
        z3 = self.z3
        cs = []
        for t in self.dtasks:
            p, w, s, k = d[t - 1]
            if p < 0:
                continue
            pv, sv, wv = self.v[t]
            if p == 1:
                cs += [pv == True, sv == s, wv == 2 ** (w - 1)]  # noqa: E712
            else:
                cs += [pv == False]  # noqa: E712
        return cs

    def feasible(self, d):
        s = self.solver
        s.push()
        try:
            s.add(self._fix(d))
            r = s.check()
            if r == self.z3.sat:
                return True
            if r == self.z3.unsat:
                return False
            raise tlc.TLCMachineryError(f"z3 answered {r} on a fixed plan of {self.inst['name']}")
        finally:
            s.pop()

    def pool(self, cap, passes=1, seed=0, time_limit=3):
        z3 = self.z3
        t_end = time.time() + 2 * time_limit
        s = self.solver
        H = self.inst["horizon"]
        out = []
        s.push()
        try:
            for t in self.dtasks:
                s.add(self.v[t][1] <= H)
            while len(out) < cap and time.time() < t_end and s.check() == z3.sat:
                mdl = s.model()
                d = [[-1, 0, 0, 0] for _ in self.inst["tasks"]]
                block = []
                for t in self.dtasks:
                    pv, sv, wv = self.v[t]
                    placed = z3.is_true(mdl.eval(pv, model_completion=True))
                    if placed:
                        st = mdl.eval(sv, model_completion=True).as_long()
                        wb = mdl.eval(wv, model_completion=True).as_long()
                        w = wb.bit_length() if wb and wb & (wb - 1) == 0 else 0
                        d[t - 1] = [1, w, st, 1]
                        block.append(z3.Or(z3.Not(pv), sv != st, wv != wb))
                    else:
                        d[t - 1] = [0, 0, 0, 0]
                        block.append(pv)
                out.append(d)
                s.add(z3.Or(block))
        finally:
            s.pop()
        return out


class CplexView:
    """the space-time cells of a captured (cloned) TetriSched-CPLEX model; R only (no pool)"""

    def __init__(self, inst, handle):
        self.inst, self.world = inst, handle["world"]
        self.m = handle["model"]
        self.m.context.cplex_parameters.threads = 1
        self.dtasks = [ti + 1 for ti, t in enumerate(inst["tasks"]) if t["dec"]]
        self.x = {}
        w = self.world
        for t in self.dtasks:
            un = w.tasks[t - 1].unique_name
            pat = re.compile(re.escape(un) + r"_placed_at_Worker_(\d+)_on_Time_(-?\d+)_with_strategy_(.+)$")
            sid = {s.id: k for k, s in enumerate(w.strats[t - 1], 1)}
            self.x[t] = {}
            for v in self.m.iter_variables():
                mm = pat.match(v.name or "")
                if mm and mm.group(3) in sid:
                    self.x[t][(int(mm.group(1)), int(mm.group(2)), sid[mm.group(3)])] = v

    def in_model(self):
        return any(self.x[t] for t in self.dtasks)

    def feasible(self, d):
        touched = []
        try:
            for t in self.dtasks:
                p, w, s, k = d[t - 1]
                if p < 0:
                    continue
                key = (w, s, k) if p == 1 else None
                if p == 1 and key not in self.x[t]:
                    return False  # no such cell: the model cannot express the plan
                for kk, v in self.x[t].items():
                    val = 1 if kk == key else 0
                    touched.append((v, v.lb, v.ub))
                    v.lb, v.ub = (val, val) if val else (0, 0)
                    if val:
                        v.ub, v.lb = 1, 1
            sol = self.m.solve()
            if sol is not None:
                return True
            st = str(self.m.solve_details.status).lower()
            if "infeasible" in st:
                return False
            raise tlc.TLCMachineryError(f"cplex status {st!r} on a fixed plan of {self.inst['name']}")
        finally:
            for v, lo, hi in touched:
                v.lb, v.ub = 0, 1
                v.lb, v.ub = lo, hi

    def pool(self, cap, passes=1, seed=0, time_limit=3):
        return []


class BatchCplexView(CplexView):
    """TetriSched-CPLEX with batching=True: space-time cells per BatchTask; R only"""

    def __init__(self, inst, handle):
        self.inst, self.world = inst, handle["world"]
        self.m = handle["model"]
        self.m.context.cplex_parameters.threads = 1
        self.dtasks = [ti + 1 for ti, t in enumerate(inst["tasks"]) if t["dec"]]
        names = {}
        for v in self.m.iter_variables():
            if v.name:
                names[v.name] = v
        self.units = []
        for u in _batch_units(inst, handle):
            if u["state"] == 4:
                continue
            pat = re.compile(re.escape(u["name"]) + r"_placed_at_Worker_(\d+)_on_Time_(-?\d+)_with_strategy_" + re.escape(u["strategy"].id) + "$")
            u["x"] = {}
            for name, v in names.items():
                mm = pat.match(name)
                if mm:
                    u["x"][(int(mm.group(1)), int(mm.group(2)))] = v
            self.units.append(u)

    def in_model(self):
        return any(u["x"] for u in self.units)

    def feasible(self, d):
        chosen = _group_plan(self.inst, self.units, self.dtasks, d)
        if chosen is None:
            return False
        touched = []
        try:
            for i, u in enumerate(self.units):
                if not any(t in self.dtasks and d[t - 1][0] >= 0 for t in u["members"]):
                    continue
                on = chosen.get(i)
                if on is not None and on not in u["x"]:
                    return False  # no such cell: the model cannot express the plan
                for kk, v in u["x"].items():
                    touched.append((v, v.lb, v.ub))
                    if kk == on:
                        v.ub, v.lb = 1, 1
                    else:
                        v.lb, v.ub = 0, 0
            sol = self.m.solve()
            if sol is not None:
                return True
            st = str(self.m.solve_details.status).lower()
            if "infeasible" in st:
                return False
            raise tlc.TLCMachineryError(f"cplex status {st!r} on a fixed plan of {self.inst['name']}")
        finally:
            for v, lo, hi in touched:
                v.lb, v.ub = 0, 1
                v.lb, v.ub = lo, hi


def view_of(inst, handle):
    if handle.get("model") is None:
        return None
    kind = handle["kind"]
    if inst["opts"].get("batching"):
        v = BatchGurobiView(inst, handle) if kind == "gurobi" else BatchCplexView(inst, handle) if kind == "cplex" else None
        return v if v is not None and v.in_model() else None
    v = GurobiView(inst, handle) if kind == "gurobi" else Z3View(inst, handle) if kind == "z3" else CplexView(inst, handle)
    return v if v.in_model() else None


def dec_of_compact(inst, d):
    """[p, w, s, k] per task -> decision records of the specification"""
    out = []
    for (p, w, s, k) in d:
        if p == 1:
            out.append({"kind": "place", "w": w, "s": s, "k": k, "c": False})
        elif p == 0:
            out.append({"kind": "unplaced", "w": 0, "s": 0, "k": 0, "c": False})
        else:
            out.append({"kind": "none", "w": 0, "s": 0, "k": 0, "c": False})
    return out


# ---------------------------------------------------------------------------
# TLC: judging records, enumerating rule-breaking plans


def _constants(records=None, nrecords=0, insts=None, ninsts=0, rule="precedence"):
    return {
        "Records": Raw(records) if records else [],
        "NRecords": nrecords,
        "Insts": Raw(insts) if insts else [],
        "NInsts": ninsts,
        "Rule": rule,
    }


def _stats_from(out):
    for line in out.splitlines():
        if line.startswith('"@@stats '):
            return tlaval.parse(line[len('"@@stats '):-1])
    return None


def judge_records(recs, timeout=900):
    """One TLC run over call records.  Returns ({id: [clauses]}, stats list, TLCResult)."""
    if not recs:
        return {}, [0] * len(STAT_NAMES), None
    with Scratch() as scratch:
        path = os.path.join(scratch, "records.json")
        with open(path, "w") as f:
            json.dump([{"id": r["id"], "src": r["src"], "inst": spec_inst(r["inst"]),
                        "dec": [dict(d, c=bool(d.get("c", d["kind"] == "cancel"))) for d in r["dec"]]} for r in recs], f)
        mod, cf = mcgen.write_mc(
            scratch, "PlanRules", _constants(records=f'JsonDeserialize("{path}")', nrecords=len(recs)), name="MC_PlanRec",
            init_next=("RecInit", "NoNext"), invariants=["RecChecked"], extra_defs=REG_INIT, postcondition="Post",
            extends="Json",
        )
        with _tmp_in(scratch):
            r = tlc.run_tlc(mod, cf, workers=1, java_opts=JAVA_OPTS, coverage=False, timeout=timeout)
    if not r.ok:
        raise tlc.TLCMachineryError(f"record run failed: {r.violation_kind} {r.violation_name}\n{r.stdout[-3000:]}")
    if r.distinct != len(recs):
        raise tlc.TLCMachineryError(f"TLC looked at {r.distinct} records, {len(recs)} were written")
    fails = {}
    for line in r.stdout.splitlines():
        if line.startswith('"@@ '):
            rid, clause = line[4:-1].split(" ", 1)
            fails.setdefault(int(rid), []).append(clause)
    st = _stats_from(r.stdout)
    if st is None:
        raise tlc.TLCMachineryError("no statistics line from the record run")
    return fails, list(st), r


def _judge_job(recs, timeout):
    fails, st, r = judge_records(recs, timeout=timeout)
    return fails, st, {"distinct": r.distinct, "generated": r.generated, "wall_s": round(r.wall_s, 2)}


def judge_parallel(recs, batch=4000, procs=8, timeout=3000):
    """judge_records over batches in forked children.  Returns (fails, stats, [tlc run summaries])."""
    from .common import parallel

    if not recs:
        return {}, [0] * len(STAT_NAMES), []
    parts = [recs[i:i + batch] for i in range(0, len(recs), batch)]
    outs = parallel(_judge_job, [(p, timeout) for p in parts], procs=procs)
    fails, stats, runs = {}, [0] * len(STAT_NAMES), []
    for f, st, r in outs:
        fails.update(f)
        stats = [a + b for a, b in zip(stats, st)]
        runs.append(r)
    return fails, stats, runs


def enumerate_plans(insts, rule, timeout=600, agree=False):
    """TLC enumerates PlansViolatingOnly(rule, inst) for every instance.  Returns
    ({instance position (0-based): [(margin, plan)]}, TLCResult)."""
    if not insts:
        return {}, None
    with Scratch() as scratch:
        path = os.path.join(scratch, "insts.json")
        with open(path, "w") as f:
            json.dump([spec_inst(i) for i in insts], f)
        extra = REG_INIT + ("ASSUME EnumAgrees(NInsts)\n" if agree else "")
        mod, cf = mcgen.write_mc(
            scratch, "PlanRules", _constants(insts=f'JsonDeserialize("{path}")', ninsts=len(insts), rule=rule),
            name="MC_PlanEnum", init_next=("EnumInit", "EnumNext"), invariants=["EnumEmit"], extra_defs=extra,
            postcondition="Post", extends="Json",
        )
        with _tmp_in(scratch):
            r = tlc.run_tlc(mod, cf, workers=1, java_opts=JAVA_OPTS, coverage=False, timeout=timeout)
    if not r.ok:
        raise tlc.TLCMachineryError(f"enumeration run failed: {r.violation_kind} {r.violation_name}\n{r.stdout[-3000:]}")
    plans, counts = {}, {}
    for line in r.stdout.splitlines():
        if line.startswith('"@@plan '):
            ix, margin, d = tlaval.parse(line[len('"@@plan '):-1])
            plans.setdefault(ix - 1, []).append((margin, d))
        elif line.startswith('"@@count '):
            ix, n = tlaval.parse(line[len('"@@count '):-1])
            counts[ix - 1] = n
    if agree:
        for ix, n in counts.items():
            if n != len(plans.get(ix, [])):
                raise tlc.TLCMachineryError(
                    f"incremental enumeration ({len(plans.get(ix, []))}) and PlansViolatingOnly ({n}) disagree on instance {ix}"
                )
    return plans, r


def options_product(inst):
    """size of the raw decision space of the enumeration (to keep TLC runs small)"""
    n = 1
    lb = {"ILP": 1, "ILP_RTG": 1}.get(inst["policy"], 0)
    for t in inst["tasks"]:
        if not t["dec"]:
            continue
        lo = max(inst["now"] + lb, t["release"])
        starts = len([s for s in range(lo, inst["horizon"] + 1) if (s - inst["now"]) % inst["grid"] == 0])
        ws = len([c for c in inst["workers"] if any(fits(s["dem"], c) for s in t["strats"])])
        n *= 1 + starts * ws * len(t["strats"])
    return n


def select_plans(plans, cap, rnd):
    """all plans if few; otherwise every boundary plan (margin <= 1) first, then a seeded sample"""
    if len(plans) <= cap:
        return list(plans), True
    near = [p for p in plans if p[0] <= 1]
    rest = [p for p in plans if p[0] > 1]
    rnd.shuffle(near)
    rnd.shuffle(rest)
    half = max(cap // 2, cap - len(rest))
    sel = near[:half]
    sel += rest[: cap - len(sel)]
    return sel, False


# ---------------------------------------------------------------------------
# one job = a chunk of instances, run in a forked child


def run_chunk(tag, insts, rule, cfg):
    """T1 + T2 + R for a chunk of instances.  Returns a JSON-able dict:
    records (returned + pool), R results per instance, counters, notes."""
    import random

    t0 = time.time()
    out = {"tag": tag, "records": [], "r": [], "notes": [], "counters": {}, "timing": {}}
    cnt = out["counters"]
    real = []
    for inst in insts:
        if inst.get("steps"):
            # a multi-invocation scenario: every invocation is a call record (and a captured model) of its own
            answers = realize_steps(inst)
            cnt["scenarios"] = cnt.get("scenarios", 0) + 1
            if len(answers) < len(inst["steps"]):
                cnt["scenarios_cut_short"] = cnt.get("scenarios_cut_short", 0) + 1
        else:
            answers = [realize(inst)]
        for inst2, dec, info, handle in answers:
            cnt["calls"] = cnt.get("calls", 0) + 1
            if info.get("raised") and inst.get("steps"):
                # no answer to judge (a crash is C10's business); the scenario ended here
                cnt["raised"] = cnt.get("raised", 0) + 1
                out["notes"].append(f"{inst2['name']}: schedule() raised {info['raised']}")
                continue
            real.append((inst2, dec, info, handle))
            out["records"].append({"src": "returned", "inst": inst2, "dec": dec, "info": info})
            if inst2.get("step", 1) > 1:
                cnt["later_invocations"] = cnt.get("later_invocations", 0) + 1
            for b in handle.get("batches", []):
                dls = [inst2["tasks"][t - 1]["deadline"] for t in b["members"]]
                if b["state"] == 3 and len(set(dls)) > 1:
                    cnt["rebuilt_scheduled_batches_with_different_deadlines"] = cnt.get("rebuilt_scheduled_batches_with_different_deadlines", 0) + 1
                    if dls[0] != min(dls):
                        cnt["rebuilt_scheduled_batches_tightest_member_not_first"] = (
                            cnt.get("rebuilt_scheduled_batches_tightest_member_not_first", 0) + 1
                        )
            if info.get("raised"):
                cnt["raised"] = cnt.get("raised", 0) + 1
                out["notes"].append(f"{inst2['name']}: schedule() raised {info['raised']}")
            if info.get("stopped"):
                out["notes"].append(f"{inst2['name']}: scenario stopped after this invocation ({info['stopped']})")
    out["timing"]["calls_s"] = round(time.time() - t0, 2)
    # views of the captured models
    t1 = time.time()
    views = []
    for inst2, dec, info, handle in real:
        v = None
        if inst2["policy"] in MODEL_POLICIES and handle.get("model") is not None and cfg.get("models", True):
            try:
                v = view_of(inst2, handle)
            except tlc.TLCMachineryError:
                raise
            if v is None:
                out["notes"].append(f"{inst2['name']}: the captured model does not contain the decided tasks")
        views.append(v)
        if v is not None:
            cnt["models_captured"] = cnt.get("models_captured", 0) + 1
    # T2
    for (inst2, dec, info, handle), v in zip(real, views):
        if v is None or cfg.get("pool_cap", 0) <= 0:
            continue
        sols = v.pool(cfg["pool_cap"], seed=cfg.get("seed", 0), time_limit=cfg.get("pool_time", 3))
        cnt["pool_solutions"] = cnt.get("pool_solutions", 0) + len(sols)
        for d in sols:
            if any(e[0] == 2 for e in d):
                out["notes"].append(f"{inst2['name']}: pool solution with two placements of one task")
                continue
            out["records"].append({"src": "pool", "inst": inst2, "dec": dec_of_compact(inst2, d), "info": {}})
    out["timing"]["pool_s"] = round(time.time() - t1, 2)
    # R
    t2 = time.time()
    r_from = cfg.get("r_from_invocation", 1)  # multi-invocation scenarios: R on the invocations >= this one
    elig = [
        i for i, ((inst2, dec, info, handle), v) in enumerate(zip(real, views))
        if v is not None and options_product(inst2) <= cfg.get("max_product", 60000) and inst2.get("step", 1) >= r_from
    ]
    for i, ((inst2, dec, info, handle), v) in enumerate(zip(real, views)):
        if v is not None and i not in elig and inst2.get("step", 1) >= r_from:
            cnt["r_skipped_too_large"] = cnt.get("r_skipped_too_large", 0) + 1
    if len(elig) > cfg.get("r_max_instances", 10**9):
        # a budget per chunk: records with a SCHEDULED task that is planned again first, the rest seeded
        rsel = random.Random(f"{cfg.get('seed', 0)}:{tag}:r")
        order = sorted(elig, key=lambda i: (not any(t["must"] for t in real[i][0]["tasks"]), rsel.random()))
        cnt["r_not_selected"] = cnt.get("r_not_selected", 0) + len(elig) - cfg["r_max_instances"]
        elig = sorted(order[: cfg["r_max_instances"]])
    if elig and cfg.get("plan_cap", 0) > 0:
        plans, tr = enumerate_plans([real[i][0] for i in elig], rule, timeout=cfg.get("tlc_timeout", 600), agree=cfg.get("agree", False))
        out["tlc"] = {"distinct": tr.distinct, "generated": tr.generated, "wall_s": round(tr.wall_s, 2)}
        out["timing"]["r_tlc_s"] = round(tr.wall_s, 2)
        rnd = random.Random(f"{cfg.get('seed', 0)}:{tag}")
        for pos, i in enumerate(elig):
            inst2, v = real[i][0], views[i]
            ps = plans.get(pos, [])
            sel, complete = select_plans(ps, cfg["plan_cap"], rnd)
            admitted = []
            for margin, d in sel:
                if v.feasible(d):
                    admitted.append({"margin": margin, "plan": d})
            cnt["plans_enumerated"] = cnt.get("plans_enumerated", 0) + len(ps)
            cnt["plans_fix_checked"] = cnt.get("plans_fix_checked", 0) + len(sel)
            out["r"].append({
                "name": inst2["name"], "inst": inst2, "enumerated": len(ps), "checked": len(sel), "complete": complete,
                "admitted": admitted[:5], "n_admitted": len(admitted),
            })
    if cfg.get("agree_small", 0) > 0:
        # the incremental enumeration against the set definition PlansViolatingOnly, on small decision spaces
        small = [real[i][0] for i in elig if options_product(real[i][0]) <= cfg["agree_small"]][:2]
        if small:
            enumerate_plans(small, rule, timeout=cfg.get("tlc_timeout", 600), agree=True)
            cnt["enumeration_cross_checked"] = cnt.get("enumeration_cross_checked", 0) + len(small)
    out["timing"]["r_s"] = round(time.time() - t2, 2)
    out["timing"]["total_s"] = round(time.time() - t0, 2)
    # handles / views hold solver objects: not returned
    return out


def chunks(lst, n):
    n = max(1, n)
    k = (len(lst) + n - 1) // n
    return [lst[i:i + k] for i in range(0, len(lst), k)] if lst else []


def compact_inst(inst, dec=None):
    """a readable, reproducible description for violation details / samples"""
    d = {
        "policy": inst["policy"], "options": dict(inst["opts"], enforce_deadlines=inst["enforce"], time_discretization=inst["grid"]),
        "now": inst["now"], "horizon": inst["horizon"], "worker_capacities": inst["workers"],
        **({"resource_types": list(RES_NAMES[:n_res(inst)])} if n_res(inst) > 1 else {}),
        **({"capacities_listed_as_several_resource_ids": inst["wsplit"]} if inst.get("wsplit") else {}),
        **({"units_handed_to_the_code": inst["units"]} if inst.get("units") else {}),
        "tasks": [
            {
                "task": f"T{i + 1}", "state": t["state"], "release": t["release"], "deadline": t["deadline"],
                "strategies": [[s["dem"], s["rt"]] + ([s["bs"]] if s.get("bs", 1) != 1 else []) for s in t["strats"]],
                "parents": [f"T{p}" for p in t["parents"]],
                **({"current": t["cur"], "expected_finish": t["fin"]} if t["state"] in ("RUN", "SCHED", "DONE") else {}),
                **({"profile": t["prof"]} if t.get("prof") else {}),
                **({"released_before_invocation": t["phase"]} if t.get("phase", 1) > 1 else {}),
                "offered": t["offered"],
            }
            for i, t in enumerate(inst["tasks"])
        ],
    }
    if inst.get("steps"):
        d["invocation"] = inst.get("step", 1)
        d["invocation_times"] = inst["steps"]
    if dec is not None:
        d["decisions"] = [
            {"task": f"T{i + 1}", **({"kind": e["kind"], "worker": e["w"], "start": e["s"], "strategy": e["k"]} if e["kind"] == "place" else {"kind": e["kind"]}),
             **({"also_cancelled": True} if e["kind"] == "place" and e.get("c") else {})}
            for i, e in enumerate(dec)
        ]
    return d
