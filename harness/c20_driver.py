"""C20 plumbing: build the stand-alone STRL driver from the repository's C++ sources
(unchanged, against the sequential TBB shim) and run batches of jobs through it.

The binary is cached under /verif/.cache/strl/<hash>/ where <hash> covers every
header and translation unit of schedulers/tetrisched that goes into the build, the
driver, the shim and the compiler flags: any change of the /repo sources (or of
VERIF_REPO) yields a new key and therefore a rebuild.
"""
from __future__ import annotations

import glob
import hashlib
import json
import os
import shutil
import subprocess
import time

from . import common

DRIVER_DIR = os.path.join(common.VERIF, "strl_driver")
CACHE_DIR = os.path.join(common.VERIF, ".cache", "strl")
UNITS = ["Expression", "CapacityConstraint", "SolverModel", "OptimizationPasses", "Partition", "Types"]
CXX = os.environ.get("CXX", "g++")
CXXFLAGS = ["-std=c++20", "-O1", "-w", "-fno-strict-aliasing"]


class DriverBuildError(Exception):
    """The code under test does not compile: reported as a verdict-bearing failure by c20.run."""


def tetrisched_dir() -> str:
    return os.path.join(common.REPO, "schedulers", "tetrisched")


def _inputs():
    td = tetrisched_dir()
    files = sorted(glob.glob(os.path.join(td, "include", "tetrisched", "*.hpp")))
    files += [os.path.join(td, "src", u + ".cpp") for u in UNITS]
    files += [os.path.join(DRIVER_DIR, "driver.cpp")]
    files += sorted(glob.glob(os.path.join(DRIVER_DIR, "tbb_shim", "tbb", "*.h")))
    return files


def _hash(files, extra=""):
    h = hashlib.sha256()
    h.update((" ".join([CXX] + CXXFLAGS) + extra).encode())
    td = tetrisched_dir()
    for f in files:
        rel = os.path.relpath(f, td) if f.startswith(td) else os.path.relpath(f, DRIVER_DIR)
        h.update(rel.encode() + b"\0")
        with open(f, "rb") as fh:
            h.update(fh.read())
        h.update(b"\0")
    return h.hexdigest()[:20]


def source_hash() -> str:
    """Key of the driver binary: all library sources + shim + driver + flags."""
    return _hash(_inputs())


def _lib_hash() -> str:
    """Key of the library objects: everything except driver.cpp."""
    return _hash([f for f in _inputs() if not f.endswith("driver.cpp")], extra="|lib")


def _compile_all(jobs):
    procs = [(n, subprocess.Popen(cmd, stdout=subprocess.PIPE, stderr=subprocess.STDOUT, text=True)) for n, cmd in jobs]
    errors = []
    for n, p in procs:
        out, _ = p.communicate()
        if p.returncode != 0:
            errors.append(f"{n}: {out[-3000:]}")
    return errors


def ensure_built(verbose=False) -> tuple[str, dict]:
    """Return (path of the driver binary, build info).  Builds when the cache has no entry
    for the current source hash.  The six library objects are cached separately (key without
    driver.cpp) so that a change of the driver alone recompiles one file."""
    key = source_hash()
    out_dir = os.path.join(CACHE_DIR, key)
    binary = os.path.join(out_dir, "driver")
    info = {"key": key, "cached": True, "build_s": 0.0}
    if os.path.exists(binary):
        return binary, info
    os.makedirs(CACHE_DIR, exist_ok=True)
    t0 = time.time()
    td = tetrisched_dir()
    inc = ["-I" + os.path.join(DRIVER_DIR, "tbb_shim"), "-I" + os.path.join(td, "include")]
    lib_dir = os.path.join(CACHE_DIR, "lib_" + _lib_hash())
    tmp = f"{out_dir}.tmp{os.getpid()}"
    shutil.rmtree(tmp, ignore_errors=True)
    os.makedirs(tmp)
    jobs = [("driver", [CXX] + CXXFLAGS + inc + ["-c", os.path.join(DRIVER_DIR, "driver.cpp"), "-o", os.path.join(tmp, "driver.o")])]
    lib_tmp = None
    if not os.path.exists(os.path.join(lib_dir, "COMPLETE")):
        lib_tmp = f"{lib_dir}.tmp{os.getpid()}"
        shutil.rmtree(lib_tmp, ignore_errors=True)
        os.makedirs(lib_tmp)
        for u in UNITS:
            jobs.append((u, [CXX] + CXXFLAGS + inc + ["-c", os.path.join(td, "src", u + ".cpp"), "-o", os.path.join(lib_tmp, u + ".o")]))
    errors = _compile_all(jobs)
    if not errors and lib_tmp is not None:
        open(os.path.join(lib_tmp, "COMPLETE"), "w").close()
        try:
            os.rename(lib_tmp, lib_dir)
        except OSError:
            shutil.rmtree(lib_tmp, ignore_errors=True)  # somebody else finished the same build first
    if not errors:
        objs = [os.path.join(tmp, "driver.o")] + [os.path.join(lib_dir, u + ".o") for u in UNITS]
        p = subprocess.run([CXX, "-o", os.path.join(tmp, "driver")] + objs + ["-lpthread"], capture_output=True, text=True)
        if p.returncode != 0:
            errors.append("link: " + (p.stdout + p.stderr)[-3000:])
    if errors:
        shutil.rmtree(tmp, ignore_errors=True)
        if lib_tmp:
            shutil.rmtree(lib_tmp, ignore_errors=True)
        raise DriverBuildError("\n".join(errors))
    os.unlink(os.path.join(tmp, "driver.o"))
    with open(os.path.join(tmp, "BUILDINFO.json"), "w") as f:
        json.dump({"repo": common.REPO, "key": key, "flags": CXXFLAGS, "time": time.time()}, f)
    try:
        os.rename(tmp, out_dir)
    except OSError:
        shutil.rmtree(tmp, ignore_errors=True)
    info.update(cached=False, build_s=round(time.time() - t0, 2), library_objects_cached=lib_tmp is None)
    _prune(keep=12)
    if verbose:
        print(f"c20: built STRL driver {key} in {info['build_s']}s")
    return binary, info


def _prune(keep: int):
    try:
        ds = [os.path.join(CACHE_DIR, d) for d in os.listdir(CACHE_DIR)]
        ds = [d for d in ds if os.path.isdir(d) and ".tmp" not in os.path.basename(d)]
        ds.sort(key=os.path.getmtime, reverse=True)
        for d in ds[keep:]:
            shutil.rmtree(d, ignore_errors=True)
    except OSError:
        pass


class DriverCrash(Exception):
    pass


JOB_TIMEOUT_S = 10  # CPU seconds per job, enforced inside the driver (jobs run in a forked child)


def run_jobs(binary: str, jobs: list, scratch: str, tag: str = "jobs", timeout: int | None = None) -> list:
    """Run a batch of jobs through the driver; returns the list of results (same order).
    A job that crashes or spins inside the library comes back as
    {"error": {"stage": "process", "kind": "crash" | "timeout", ...}}."""
    if not jobs:
        return []
    jin = os.path.join(scratch, f"{tag}_in.json")
    jout = os.path.join(scratch, f"{tag}_out.json")
    with open(jin, "w") as f:
        json.dump({"jobs": jobs}, f)
    env = dict(os.environ)
    env["TETRISCHED_LOGGING_DIR"] = scratch  # the library appends a timing csv there
    if timeout is None:
        timeout = 600 + JOB_TIMEOUT_S * 40 + len(jobs)  # only hit if the driver itself is stuck
    p = subprocess.run([binary, jin, jout, str(JOB_TIMEOUT_S)], cwd=scratch, capture_output=True, text=True, timeout=timeout, env=env)
    if p.returncode != 0:
        raise DriverCrash(f"driver rc={p.returncode} on batch {tag}: {(p.stdout + p.stderr)[-2000:]}")
    with open(jout) as f:
        res = json.load(f)["results"]
    if len(res) != len(jobs):
        raise DriverCrash(f"driver returned {len(res)} results for {len(jobs)} jobs")
    return res


def run_jobs_isolating(binary: str, jobs: list, scratch: str, tag: str = "jobs") -> list:
    """Like run_jobs, but when the whole batch crashes (segfault / abort inside the library)
    bisect so that only the offending job is reported as crashed."""
    try:
        return run_jobs(binary, jobs, scratch, tag)
    except (DriverCrash, subprocess.TimeoutExpired) as ex:
        if len(jobs) == 1:
            return [{"id": jobs[0].get("id", ""), "error": {"stage": "process", "kind": "crash", "what": str(ex)[:500]}}]
        mid = len(jobs) // 2
        return run_jobs_isolating(binary, jobs[:mid], scratch, tag + "a") + run_jobs_isolating(binary, jobs[mid:], scratch, tag + "b")
