"""Replay of state graphs whose actions carry the *outcome* of a call as parameters.

`replay.Replayer` executes one labelled edge at a time: the label fixes the call and
the spec state after it.  Some specs are nondeterministic where the code is
deterministic (EventQueue: `Pop(i)` may return any minimal event), so the edge to
follow is only known after the real call answered.  `CallReplayer` therefore groups
the out-edges of a state by the *call* they describe; the adapter performs the call
once and reports what happened as an action `(name, args)`; that action must be one
of the group's edges (otherwise: the code did something the spec does not allow),
and the projection of the real objects must equal the destination state.

Adapter protocol (in addition to fresh / project / abstract of replay.Replayer):
    call_of(name, args) -> (callname, inputs)     which call an edge label describes
    invoke(callname, inputs) -> (name, args)      perform it, describe the outcome
(inputs / args are tuples of hashable values: TLA+ sequences as tuples.)

A group all of whose edges are self-loops is an *observer* (read-only call or a
refused call); the others are *mutators*.  Strategies:
    exhaustive(depth, ...)   every mutator path of length <= depth from the initial
                             state, observers run in-line / at the end, then the
                             `closing` call is repeated while it is enabled
    sampled(n, depth, rnd)   random mutator paths of the given length, same epilogue
    cover(max_steps, rnd)    walk preferring calls not yet made in the current state
    random_calls(n, depth)   uniformly random calls (mutators and observers mixed)
"""
from __future__ import annotations

import collections
import time

from . import replay, tlaval


def _freeze_args(args):
    return tuple(tlaval._freeze(a) for a in args)


def fmt(name, args):
    if not args:
        return name
    return f"{name}({','.join(tlaval.to_tla(list(a) if isinstance(a, tuple) else a) for a in args)})"


class CallReplayer(replay.Replayer):
    def __init__(self, graph, adapter):
        super().__init__(graph, adapter)
        self._groups = {}
        self._sorted = {}
        self.calls_done = set()  # (node, call)
        self.calls_made = collections.Counter()  # callname -> count
        self.outcomes = collections.Counter()  # action name -> count
        self.unrealised = 0  # enumerated spec paths the code did not take (tie resolved otherwise)
        self.choice_points = 0  # calls with more than one allowed outcome
        self.sample_path = None  # labels of one fully replayed path
        self._mine = lambda n: True
        self._done_at = collections.Counter()  # node -> number of distinct calls made there
        self._succ = {}

    # -- graph structure --------------------------------------------------
    def groups(self, node):
        """call -> {outcome (name, args): (label, dst)} for the out-edges of `node`."""
        g = self._groups.get(node)
        if g is None:
            g = {}
            for label, dst in self.g.edges[node]:
                name, args = tlaval.split_call(label)
                cname, inputs = self.ad.call_of(name, args)
                g.setdefault((cname, _freeze_args(inputs)), {})[(name, _freeze_args(args))] = (label, dst)
            self._groups[node] = g
            muts = sorted((c for c, alts in g.items() if any(d != node for _, d in alts.values())), key=repr)
            obs = sorted((c for c in g if c not in muts), key=repr)
            self._sorted[node] = (muts, obs)
        return g

    def mutators(self, node):
        self.groups(node)
        return self._sorted[node][0]

    def observers(self, node):
        self.groups(node)
        return self._sorted[node][1]

    def is_observer(self, node, call):
        return call in self.observers(node)

    @staticmethod
    def labels(path):
        return [fmt(n, a) for n, a in path]

    # -- one call ---------------------------------------------------------
    def step_call(self, src, call, path):
        """Perform `call` in spec state `src`; `path` is the list of (name, args) outcomes so far
        and is extended.  Returns (ok, dst)."""
        alts = self.groups(src)[call]
        self.steps += 1
        if (src, call) not in self.calls_done:
            self.calls_done.add((src, call))
            self._done_at[src] += 1
        self.calls_made[call[0]] += 1
        if len(alts) > 1:
            self.choice_points += 1
        try:
            name, args = self.ad.invoke(call[0], call[1])
        except Exception as ex:  # not one of the outcomes the adapter knows how to describe
            shown = fmt(*call)
            self._record(
                replay.Divergence("exception", shown, {type(ex).__name__}, self.labels(path) + [shown], error=repr(ex))
            )
            path.append(call)
            return False, None
        got = (name, _freeze_args(args))
        path.append(got)
        self.outcomes[name] += 1
        hit = alts.get(got)
        if hit is None:
            label = fmt(*got)
            if hasattr(self.ad, "after_divergence"):
                self.ad.after_divergence(call, got)  # e.g. keep observing what the code does next
            dv = replay.Divergence(
                "outcome",
                label,
                {"outcome_not_allowed_by_spec"},
                self.labels(path),
                expected=sorted(l for l, _ in alts.values()),
                got=label,
            )
            dv.src = src  # the spec state in which the call was made
            self._record(dv)
            return False, None
        slabel, dst = hit
        self.covered.add((src, slabel))
        real = self.ad.project()
        exp = self.abstract(dst)
        if real != exp:
            f = {self.field_namer(x) for x in replay.diff_fields(exp, real)}
            self._record(replay.Divergence("state", slabel, f, self.labels(path), exp, real))
            self.bad_edges.add((src, slabel))
            return False, dst
        return True, dst

    def run_observers(self, node, path):
        for call in self.observers(node):
            ok, _ = self.step_call(node, call, path)
            if not ok:
                return False
        return True

    # -- strategies -------------------------------------------------------
    def _enumerate(self, node, depth):
        """All mutator edge paths [(call, dst)] of length <= depth from `node` (maximal ones)."""
        out = []

        def rec(prefix, n, d):
            muts = self.mutators(n) if d < depth else []
            if not muts:
                out.append(prefix)
                return
            g = self.groups(n)
            for call in muts:
                for _, (label, dst) in sorted(g[call].items(), key=repr):
                    rec(prefix + [(call, dst)], dst, d + 1)

        rec([], node, 0)
        return out

    def count_paths(self, depth):
        """Number of mutator paths of length <= depth (maximal ones), without building them."""
        memo = {}

        def rec(n, d):
            k = (n, d)
            if k in memo:
                return memo[k]
            muts = self.mutators(n) if d < depth else []
            if not muts:
                memo[k] = 1
                return 1
            g = self.groups(n)
            memo[k] = sum(rec(dst, d + 1) for call in muts for _, dst in g[call].values())
            return memo[k]

        return rec(self.g.init[0], 0)

    def exhaustive(self, depth, inline_observers=False, end_observers=True, closing=None, shard=(0, 1), budget_s=None):
        """Execute every mutator path of length <= depth.  A path whose planned outcome at a
        choice point is not the one the code takes is dropped there (its sibling covers it).
        Returns True when every path of this shard was executed within the budget."""
        t0 = time.time()
        init = self.g.init[0]
        split = min(2, depth)
        prefixes = self._enumerate(init, split)
        mine = prefixes[shard[0] :: shard[1]]
        for pre in mine:
            rest = depth - len(pre)
            tails = self._enumerate(pre[-1][1], rest) if (pre and len(pre) == split and rest > 0) else [[]]
            for tail in tails:
                if budget_s and time.time() - t0 > budget_s:
                    return False
                self._run_planned(pre + tail, inline_observers, end_observers, closing)
        return True

    def _epilogue(self, node, path, run_obs, closing):
        if run_obs and not self.run_observers(node, path):
            return
        if closing is not None:
            while closing in self.groups(node) and closing in self.mutators(node):
                ok, node = self.step_call(node, closing, path)
                if not ok:
                    return
            if not self.run_observers(node, path):
                return
        if self.sample_path is None or self.paths % 977 == 0:
            self.sample_path = self.labels(path)

    def _run_planned(self, plan, inline_observers, end_observers, closing):
        self.paths += 1
        node = self.start()
        path = []
        if inline_observers and not self.run_observers(node, path):
            return
        for call, dst in plan:
            ok, got_dst = self.step_call(node, call, path)
            if not ok:
                return
            node = got_dst
            if got_dst != dst:
                self.unrealised += 1
                self.paths -= 1
                return
            if inline_observers and not self.run_observers(node, path):
                return
        self._epilogue(node, path, end_observers and not inline_observers, closing)

    def sampled(self, n, depth, rnd, inline_prob=0.0, closing=None, budget_s=None):
        """n random mutator paths of length `depth` (observers in-line with probability
        `inline_prob` per step, always at the end), then the closing calls."""
        t0 = time.time()
        for _ in range(n):
            if budget_s and time.time() - t0 > budget_s:
                return False
            self.paths += 1
            node = self.start()
            path = []
            ok = True
            for _ in range(depth):
                muts = self.mutators(node)
                if not muts:
                    break
                ok, dst = self.step_call(node, rnd.choice(muts), path)
                if not ok:
                    break
                node = dst
                if inline_prob and rnd.random() < inline_prob and not self.run_observers(node, path):
                    ok = False
                    break
            if ok:
                self._epilogue(node, path, True, closing)
        return True

    def _successors(self, n):
        """[(call, dst)] over the mutator edges of n, one entry per destination."""
        out = self._succ.get(n)
        if out is None:
            out, seen = [], set()
            g = self.groups(n)
            for call in self.mutators(n):
                for _, (label, dst) in sorted(g[call].items(), key=repr):
                    if dst != n and dst not in seen:
                        seen.add(dst)
                        out.append((call, dst))
            self._succ[n] = out
        return out

    def _has_todo(self, n):
        return self._mine(n) and self._done_at[n] < len(self.groups(n))

    def _nearest_todo(self, node):
        """First call on a shortest route (over spec edges) to a state with a call not made yet."""
        seen = {node}
        dq = collections.deque()
        for call, dst in self._successors(node):
            if dst not in seen:
                seen.add(dst)
                dq.append((dst, call))
        while dq:
            n, first = dq.popleft()
            if self._has_todo(n):
                return first
            for _, dst in self._successors(n):
                if dst not in seen:
                    seen.add(dst)
                    dq.append((dst, first))
        return None

    def cover(self, max_steps, rnd, budget_s=None, restart_every=300, mine=None):
        """Walk preferring calls not yet made in the current spec state; returns the fraction of
        (state, call) pairs exercised.  `mine(node)` restricts the states whose calls this walker
        is responsible for (to split the work between processes)."""
        mine = mine or (lambda n: True)
        self._mine = mine
        t0 = time.time()
        node = self.start()
        self.paths += 1
        path = []
        since = 0
        stop = self.steps + max_steps
        while self.steps < stop:
            if budget_s and time.time() - t0 > budget_s:
                break
            todo = []
            if mine(node):
                g = self.groups(node)
                todo = [c for c in self.mutators(node) + self.observers(node) if (node, c) not in self.calls_done]
            if todo:
                call = rnd.choice(todo)
            else:
                call = self._nearest_todo(node)
                if call is None:
                    break
            ok, dst = self.step_call(node, call, path)
            since += 1
            if not ok or since >= restart_every:
                node = self.start()
                self.paths += 1
                path = []
                since = 0
            else:
                node = dst
        total = sum(len(self.groups(n)) for n in self.g.states if mine(n))
        return len({(n, c) for n, c in self.calls_done if mine(n)}) / max(1, total)

    def random_calls(self, n, depth, rnd):
        for _ in range(n):
            node = self.start()
            self.paths += 1
            path = []
            for _ in range(depth):
                calls = self.mutators(node) + self.observers(node)
                if not calls:
                    break
                ok, dst = self.step_call(node, rnd.choice(calls), path)
                if not ok:
                    break
                node = dst
