"""C10 - every policy returns a complete, feasible, side-effect-free decision.

The oracle is spec/Decision.tla (`ValidDecision` = conjunction of the named C10 clauses).
Python only builds real objects, calls the real `schedule()` methods, projects the state
through getters and ships *scheduler call records* to TLC:

 (a) sim records    every `schedule()` call made while the real Simulator runs generated
                    worlds under EDF, FIFO, LSF, ILP, TetriSched-Gurobi, TetriSched-CPLEX
                    and Clockwork (a wrapper around the policy's bound method records the
                    offered set, the projected pre-state, the Placements, the post-state).
 (b) direct records a short simulation under a planning-ahead *prefix policy* (it names
                    workers, plans into the future, leaves tasks unanswered) is stopped at
                    a SCHEDULER_START whose state mixes RUNNING / SCHEDULED-for-later /
                    RELEASED / VIRTUAL tasks on a partially occupied heterogeneous cluster;
                    every real policy (incl. Z3, which cannot run inside simulate()) is then
                    invoked on that live state with its option combinations.
 (b') staged states a scripted stage policy starts chosen tasks late / plans them for later on named workers and
                    the simulation is stopped when the late tasks are released: RUNNING tasks past their deadline with
                    much / little remaining time, plans in the future on the only fitting worker, releases exactly at /
                    after another task's deadline, tight and loose deadlines (a directed grid plus biased random members);
                    every planner is invoked there with deadline enforcement on AND off, the greedy ones too.
 (o) side options   preemptive EDF / LSF (conv.preemptive), BranchPredictionScheduler (all policies; 'bp_logfix' behind its
                    crash), ILP / TetriSched-CPLEX batching=True, Clockwork with run_load (LOAD / EVICT decisions, held
                    profiles count against the capacity) - in simulations of their own and in the direct calls.  The
                    families with recorded findings (bp_logfix, batching, models whose loading strategy shares a
                    resource type with execution) run on a fixed corpus (no VERIF_SEED) so that their keys are stable.
 (h) histories      stateful policies (Clockwork keeps request queues between calls) are judged on multi-invocation
                    histories with boundary timing: real simulations keep ONE policy object alive while requests are left
                    waiting across invocations (partial batch, busy worker, model still loading / held by another worker
                    only) and an arrival / a finish / the end of a load makes them placeable exactly at, one instant
                    before and one instant after deadline - runtime(s) for every strategy s of the model (and at the
                    deadline itself); a directed grid plus seeded members whose releases and deadlines are drawn on the
                    instants of the history; also under EDF / FIFO with deadline enforcement.  Every invocation is a
                    judged record; the record carries hist = (invocation number, per task: offered how often before)
                    and Decision!History classifies it (history_classes in the evidence).
 (c) judgement      the records are written as JSON batches; one TLC JVM per batch evaluates
                    Decision!Judge on every record and prints the failing (record, clause,
                    offenders, circumstance) tuples, which become res.violate(...).
 (M) DecisionMC     `ASSUME SanityOK`: the contract is satisfiable and every clause is
                    falsifiable on the hand-written records of Decision.tla; a few corrupted
                    real records must be rejected with the right clause (pipeline canaries).
"""
from __future__ import annotations

import collections
import contextlib
import copy as pycopy
import io
import json
import os
import random
import re
import signal
import time
import traceback

from . import mcgen, simrun, tlaval, tlc, worlds
from .common import GUARD, CheckResult, Scratch, import_repo, parallel, seed
from .realobj import ns, us

PID = "C10"
JOPTS = mcgen.LIB_OPT + ["-XX:TieredStopAtLevel=1", "-XX:ParallelGCThreads=2", "-Xmx2g"]
TRIVIAL_SPEC = "VARIABLE zz\nInit == zz = 0\nNext == UNCHANGED zz\n"

CLAUSES = [
    "C10.returns", "C10.one_per_task", "C10.only_offered", "C10.answers_all", "C10.names_exist",
    "C10.strategy_of_task", "C10.time_not_past", "C10.time_not_before_release", "C10.capacity",
    "C10.side_effect_free",
]  # fmt: skip

ASSUMPTIONS = [
    "TLC evaluates Decision!Judge on the call records actually made: generated worlds of harness/worlds.py run "
    "under each policy, and states reached by a planning-ahead prefix policy on which every policy is invoked",
    "projection through getters (Task state/plan/remaining time, Worker placed tasks, per-instance availability, "
    "allocations) by the Tracer helpers of harness/simrun.py; Worker._placed_tasks is read for the strategy of a placed task",
    "capacity is compared per resource name and worker (what all planners budget); per-instance ids are C01/C04's business",
    "per-policy conventions are named constants of the record (conv): ILP/Z3 closed intervals (gap 1) at every start "
    "point, TetriSched half-open slots at every start point, EDF/FIFO/LSF/Clockwork the invocation instant only; "
    "a running task holds its worker until now + remaining time; an over-commitment is charged to a call only when "
    "one of its new placements takes part in it; for the instant-only policies the pending plans of SCHEDULED tasks are "
    "not counted (they never plan ahead themselves)",
    "direct calls: a planner is given the lookahead / release_taskgraphs setting of the prefix policy; calls of a "
    "re-planning (retract) policy on a state with SCHEDULED tasks outside its own frontier are dropped and counted "
    "(outside_frontier) - the simulations of part (a) run the same policies on states they produced themselves",
    "solver instances are bounded by the restricted Gurobi / CPLEX community licences; calls that exceed them, and "
    "calls that do not return within 40 s wall clock, are skipped and counted (licence_and_timeout_skips), never judged",
    "preemptive EDF / LSF / BranchPrediction (conv.preemptive): the tasks placed on the workers are offered too and a "
    "RUNNING task may be answered (placed in its pool now = keeps running, not placed = preempted); the policy plans on "
    "emptied workers with pool-chosen workers, so a kept task is NOT pinned to the worker it occupies (only 'some "
    "assignment of the answered tasks to the pool's workers exists' is demanded); the simulator cannot resume PREEMPTED "
    "tasks (NotImplementedError), preemptive simulations end there and are not a verdict",
    "ILP / TetriSched-CPLEX batching=True: the members of one BatchStrategy hold one allocation (bid), also together "
    "with occupants / kept plans of the same batch; conv.batch_size (members <= batch size) is a note",
    "Clockwork with run_load: the resources of the loading strategies of the profiles a worker holds (available or "
    "pending; Worker._available_profiles / _pending_profiles are read for the strategy) count against its capacity "
    "until an EVICT decision of the same call names them, a LOAD decision holds its strategy's resources from its time "
    "on; 'an EVICT names a held profile' (conv.evict_held) is a note; BaseScheduler.start() is not judged",
    "BranchPredictionScheduler raises on every call that is offered a task (its debug line reads Task.resource_requirements, "
    "which does not exist): policy 'bp' records that; policy 'bp_logfix' supplies the attribute from outside for the "
    "duration of the call (it only feeds the log line) so that the rest of the body is judged too",
    "the worlds simulated under ILP / TetriSched / Z3-style planners use --runtime_variance=0: all bundled planners model a "
    "running task as busy for its strategy's nominal runtime from the invocation on, which covers now + remaining time only "
    "when tasks never run longer than their strategy says (with variance they can); the greedy policies' worlds use variance",
    "histories (part h): the simulator itself applies the answers between the invocations (runtime 0: it invokes the policy at "
    "every release and finish and, while a waiting request has a free worker holding its model, at every instant); the release "
    "times and deadlines of the requests are chosen by the harness (deadline = release + Job.slo, no variance) - which "
    "invocation meets which boundary is classified by Decision!History from the record, not by the harness",
    "staged states (part b'): a scripted stage policy starts chosen tasks late / plans them for later on named workers in "
    "a real simulation that is stopped at the release of the late tasks - RUNNING tasks past their deadline, with little / "
    "much remaining time, future plans on the only fitting worker, releases at / after another task's deadline, tight and "
    "loose deadlines; the classes are counted by Decision!Exercised (state_classes in the evidence)",
]

# ---------------------------------------------------------------------------
# policy conventions (DESIGN 7) and construction


def conv_of(kind, opts):
    c = _conv_of(kind, opts)
    c["preemptive"] = bool(opts.get("preemptive", False))
    c["enforce"] = bool(opts.get("enforce", kind == "clockwork"))
    return c


def _conv_of(kind, opts):
    if kind == "ilp":
        return {"gap": 1, "instants": "starts", "plans": "kept", "startLB": 1, "grid": 1}
    if kind in ("ts_gurobi", "ts_cplex"):
        return {"gap": 0, "instants": "starts", "plans": "kept", "startLB": 0, "grid": max(1, int(opts.get("disc", 1)))}
    if kind == "z3":
        # Z3 separates independent tasks strictly (s1 + rem1 < s2) but lets a child start exactly when its parent
        # ends (>=): only the half-open reading is common to both, and it is the simulator's own
        return {"gap": 0, "instants": "starts", "plans": "kept", "startLB": 0, "grid": 1}
    # EDF / FIFO / LSF / BranchPrediction / Clockwork plan the invocation instant on the live cluster only
    return {"gap": 0, "instants": "now", "plans": "ignored", "startLB": 0, "grid": 1}


def variant_of(kind, opts):
    """the option families that get their own finding keys"""
    v = ""
    if opts.get("preemptive"):
        v += "+preemptive"
    if opts.get("batching"):
        v += "+batching"
    if opts.get("run_load"):
        v += "+run_load"
    return v


def _flags_ns(**kw):
    """a stand-in for the absl flags a policy reads at construction (direct calls)"""
    import types

    d = dict(log_dir=None, log_file_name=None, log_level="info", scheduler_log_times=[], scheduler_run_load=False,
             scheduler_log_to_file=False)  # fmt: skip
    d.update(kw)
    return types.SimpleNamespace(**d)


def make_policy(kind, o):
    """A fresh real policy object from an option dict (direct calls; no absl flags)."""
    N = ns()
    import schedulers

    rt = us(0)
    la = us(o.get("lookahead", 0))
    if kind == "edf":
        return schedulers.EDFScheduler(preemptive=o.get("preemptive", False), runtime=rt, enforce_deadlines=o.get("enforce", False))
    if kind == "fifo":
        return schedulers.FIFOScheduler(runtime=rt, enforce_deadlines=o.get("enforce", False))
    if kind == "lsf":
        return schedulers.LSFScheduler(preemptive=o.get("preemptive", False), runtime=rt)
    if kind in ("bp", "bp_logfix"):
        from workload import BranchPredictionPolicy

        return schedulers.BranchPredictionScheduler(
            preemptive=o.get("preemptive", False), runtime=rt, policy=BranchPredictionPolicy[o.get("policy", "RANDOM")],
            branch_prediction_accuracy=o.get("acc", 0.5), release_taskgraphs=o.get("rtg", False),
        )  # fmt: skip
    if kind == "ilp":
        from schedulers import ILPScheduler

        return ILPScheduler(
            runtime=rt, lookahead=la, enforce_deadlines=o.get("enforce", True), retract_schedules=o.get("retract", False),
            release_taskgraphs=o.get("rtg", False), goal=o.get("goal", "max_goodput"), batching=o.get("batching", False),
            time_limit=N.EventTime(20, N.EventTime.Unit.S),
        )  # fmt: skip
    if kind in ("ts_gurobi", "ts_cplex"):
        from schedulers import TetriSchedCPLEXScheduler, TetriSchedGurobiScheduler

        kw = dict(
            runtime=rt, lookahead=la, enforce_deadlines=o.get("enforce", False), retract_schedules=o.get("retract", False),
            goal="max_goodput", batching=o.get("batching", False) and kind == "ts_cplex", time_limit=N.EventTime(20, N.EventTime.Unit.S),
            time_discretization=us(o.get("disc", 1)), plan_ahead=us(o.get("plan_ahead", 10)),
        )  # fmt: skip
        if kind == "ts_gurobi":
            kw["release_taskgraphs"] = o.get("rtg", False)
            return TetriSchedGurobiScheduler(**kw)
        return TetriSchedCPLEXScheduler(**kw)
    if kind == "z3":
        from schedulers.z3_scheduler import Z3Scheduler

        return Z3Scheduler(
            runtime=rt, lookahead=la, enforce_deadlines=o.get("enforce", False), retract_schedules=o.get("retract", False),
            release_taskgraphs=o.get("rtg", False),
        )  # fmt: skip
    if kind == "clockwork":
        fl = _flags_ns(scheduler_run_load=True) if o.get("run_load") else None
        return schedulers.ClockworkScheduler(runtime=rt, goal=o.get("goal", "clockwork"), _flags=fl)
    raise ValueError(kind)


@contextlib.contextmanager
def logfix(kind):
    """policy 'bp_logfix': BranchPredictionScheduler's debug line reads Task.resource_requirements, which no Task has;
    the attribute is supplied (for the log line only) while the call runs and removed afterwards"""
    if kind != "bp_logfix":
        yield
        return
    from workload import Task

    Task.resource_requirements = property(lambda self: self.available_execution_strategies.get_fastest_strategy().resources)
    try:
        yield
    finally:
        del Task.resource_requirements


def opts_str(o):
    return ",".join(f"{k}={o[k]}" for k in sorted(o))


LICENCE_RE = re.compile(r"size-limited license|Model too large|CPLEX Error\s+1016|Promotional version|problem size limits|DOcplexLimitsExceeded", re.I)


class _Stop(BaseException):
    """ends a prefix simulation at the chosen SCHEDULER_START"""


class _CallTimeout(Exception):
    pass


# ---------------------------------------------------------------------------
# recording one call


class Recorder:
    """Projects the arguments / result of one schedule() call (reuses the Tracer projection helpers)."""

    def __init__(self, sim, world, fl, sc):
        self.sim = sim
        self.tr = simrun.Tracer(sim, world, fl, sc)
        self.records = []
        self.skips = collections.Counter()

    def register(self, workload):
        for tg in list(workload.task_graphs.values()):
            self.tr.graph_index(tg)
        self.tr.new_static = []

    def proj_tasks(self):
        return [self.tr.dyn_task(t) for t in self.tr.tobj]

    def proj_cluster(self, pools):
        tr = self.tr
        out = []
        for pool in pools.worker_pools:
            pp = {tr.tidx.get(t.id, 0) for t in pool.get_placed_tasks()}
            ws = []
            for w in pool.workers:
                key = tr.worker_idx[w.id]
                occ = []
                for t in w.get_placed_tasks():
                    try:
                        al = [[next(k + 1 for k, r in enumerate(tr.inst[key]) if r.id == res.id), q] for res, q in w.get_allocated_resources(t)]
                    except Exception:  # noqa
                        al = [[0, 0]]
                    occ.append({"t": tr.tidx.get(t.id, 0), "al": al})
                occ.sort(key=lambda o: o["t"])
                ws.append(
                    {
                        "av": [w.resources.get_available_quantity(r) for r in tr.inst[key]],
                        "occ": occ,
                        "inpool": sorted(o["t"] for o in occ if o["t"] in pp),
                        "profiles": sorted([tr.prof_index(p), 1] for p in w.get_available_profiles())
                        + sorted([tr.prof_index(p), 0] for p in w.get_pending_profiles()),
                    }
                )
            out.append(ws)
        return out

    def sd(self, s):
        d = self.tr.strat_desc(s)
        return d

    def task_desc(self, t, dyn):
        return {
            "st": dyn["st"],
            "rel": dyn["rel"],
            "dl": dyn["dl"],
            "strats": [{"dem": s["dem"], "rt": s["rt"], "bs": s["bs"]} for s in (self.tr.strat_desc(x) for x in t.available_execution_strategies)],
            "plan": dyn["plan"],
            "rem": dyn["rem"],
            "remp": self.tr.tm(t.remaining_time),
            "prof": self.tr.prof_index(t.profile),
        }

    def cluster_desc(self, pools, now):
        tr = self.tr
        out = []
        for pool in pools.worker_pools:
            ws = []
            for w in pool.workers:
                key = tr.worker_idx[w.id]
                occ = []
                for t in w.get_placed_tasks():
                    sd = tr.strat_desc(w._placed_tasks[t])
                    occ.append({"t": tr.tidx.get(t.id, 0), "dem": sd["dem"], "fin": now + max(0, tr.tm(t.remaining_time)), "bid": sd["bid"]})
                occ.sort(key=lambda o: o["t"])
                held = [(p, w._available_profiles[p], False) for p in w.get_available_profiles()]
                held += [(p, w._pending_profiles[p], True) for p in w.get_pending_profiles()]
                prof = [{"pr": tr.prof_index(p), "dem": tr.strat_desc(ls)["dem"], "pend": pend} for p, ls, pend in held]
                prof.sort(key=lambda h: h["pr"])
                ws.append(
                    {
                        "insts": [{"name": r.name, "id": r.id, "cap": q} for r, q in w.resources.resources],
                        "av": [w.resources.get_available_quantity(r) for r in tr.inst[key]],
                        "occ": occ,
                        "prof": prof,
                    }
                )
            out.append(ws)
        return out

    def dec_desc(self, p):
        tr = self.tr
        kind = p.placement_type.value  # 1 evict 2 load 3 cancel 4 place
        d = {"kind": kind, "t": 0, "placed": False, "pool": 0, "wk": 0, "sd": dict(tr.NOSD), "tm": -1, "pr": 0}

        def where():
            d["pool"] = tr.pool_idx.get(p.worker_pool_id, 0)
            if p.worker_id is not None:
                pi, wi = tr.worker_idx.get(p.worker_id, (0, 0))
                d["wk"] = wi if (pi == d["pool"] and pi != 0) else -1
            d["tm"] = tr.tm(p.placement_time)

        if kind in (3, 4):
            d["t"] = tr.tidx.get(p.task.id, 0)
            d["placed"] = bool(p.is_placed())
            if d["placed"]:
                where()
                d["sd"] = tr.strat_desc(p.execution_strategy if kind == 4 else None)
        else:
            d["placed"] = True
            where()
            d["sd"] = tr.strat_desc(p.loading_strategy)
            d["pr"] = tr.prof_index(p.work_profile)
        return d

    def call(self, kind, opts, sched, sim_time, workload, pools, src, wall=40):
        """Invoke sched.schedule on the live state and record the call.  Returns (placements, exception)."""
        tr = self.tr
        self.register(workload)
        now = tr.tm(sim_time)
        tobjs = list(tr.tobj)
        pre_dyn = self.proj_tasks()
        tasks = [self.task_desc(t, d) for t, d in zip(tobjs, pre_dyn)]
        cluster = self.cluster_desc(pools, now)
        pre = {"ts": pre_dyn, "cl": self.proj_cluster(pools)}
        offered = {"res": None}
        orig = workload.get_schedulable_tasks

        def gst(*a, **k):
            res = orig(*a, **k)
            if offered["res"] is None:
                offered["res"] = [tr.tidx.get(t.id, 0) for t in res]
            return res

        workload.get_schedulable_tasks = gst
        placements, exc = None, None

        def on_alarm(signum, frame):
            signal.alarm(2)  # a solver callback swallows the exception: keep trying until it lands in Python code
            raise _CallTimeout(f"schedule() did not return within {wall}s")

        old = signal.signal(signal.SIGALRM, on_alarm)
        prev_alarm = signal.alarm(wall)
        t0 = time.time()
        try:
            with contextlib.redirect_stdout(io.StringIO()), logfix(kind):
                placements = sched.schedule(sim_time, workload, pools)
            plist = list(placements)
        except (_Stop, simrun.HangDetected, KeyboardInterrupt):
            raise
        except BaseException as e:  # noqa  a crash of the policy is a verdict
            exc = e
            plist = []
        finally:
            signal.alarm(0)
            signal.signal(signal.SIGALRM, old)
            if prev_alarm:
                signal.alarm(max(1, prev_alarm - int(time.time() - t0)))
            try:
                del workload.get_schedulable_tasks
            except AttributeError:
                pass
        self.register(workload)
        post_dyn = self.proj_tasks()
        post = {"ts": post_dyn, "cl": self.proj_cluster(pools)}
        raised = ""
        if exc is not None:
            raised = f"{type(exc).__name__}: {exc}"[:300]
            if LICENCE_RE.search(raised) or LICENCE_RE.search(type(exc).__name__):
                self.skips["licence:" + kind + variant_of(kind, opts)] += 1
                return placements, exc
            if isinstance(exc, _CallTimeout):
                # slow (shared machine, hard instance) and hung cannot be told apart: counted, not judged
                self.skips["timeout:" + kind + variant_of(kind, opts)] += 1
                return placements, exc
        rec = {
            "id": 0,
            "policy": kind,
            "opts": opts_str(opts),
            "variant": variant_of(kind, opts),
            "conv": conv_of(kind, opts),
            "now": now,
            "raised": raised,
            "offered": offered["res"] or [],
            "tasks": tasks,
            "cluster": cluster,
            "decs": [self.dec_desc(p) for p in plist],
            "pre": pre,
            "post": post,
            "src": dict(src, wall_ms=int((time.time() - t0) * 1000), tb=(traceback.format_exception(exc)[-3:] if exc is not None else None)),
        }
        self.records.append(rec)
        return placements, exc


# ---------------------------------------------------------------------------
# worlds


def _preload_profiles(pools, profs, pmap=None):
    """Clockwork only places a model's requests on workers that hold the model: load every profile on every
    worker with a resource-free loading strategy (as tests/test_clockwork_scheduler.py does by hand).
    pmap (optional): per profile the list of [pool, worker] numbers that hold it (None = every worker)."""
    N = ns()
    for pi, pool in enumerate(pools.worker_pools, start=1):
        for wi, w in enumerate(pool.workers, start=1):
            for k, p in enumerate(profs):
                if pmap is not None and pmap[k] is not None and [pi, wi] not in pmap[k]:
                    continue
                w.load_profile(p, N.ExecutionStrategy(resources=N.Resources(), batch_size=1, runtime=us(0)))
            w.step(us(0), us(1))


def build_world(world, sched_factory=None):
    """worlds.build with access to the profiles (preloading) and an optional policy factory."""
    N = ns()
    flags, fl, sc = worlds.mk_flags(world)
    flags.scheduler_log_times = []  # the planners iterate over it (absl list flag)
    sd = world.get("seed", 0)
    random.seed(sd)
    N.EventTime._rng = random.Random(sd)
    profs = worlds.build_profiles(world)
    jgs = worlds.build_job_graphs(world, profs)
    workload = N.Workload.from_job_graphs(jgs, _flags=flags)
    workload.populate_task_graphs(completion_time=us(fl["timeout"]))
    pools = worlds.build_pools(world)
    if world.get("preload"):
        _preload_profiles(pools, profs, world.get("preload_map"))
    sched = sched_factory(world, flags, sc) if sched_factory else worlds.build_scheduler(world, flags, sc)
    loader = worlds.make_loader(workload)
    return pools, sched, loader, flags, fl, sc, profs


def _bounded(w, rnd, timeout):
    """keep the instance inside the solver licences: finite releases, few invocations, short horizon"""
    for g in w["graphs"]:
        pol = g["policy"]
        if pol["type"] != "fixed":
            g["policy"] = {"type": "fixed", "period": rnd.randint(1, 6), "n": rnd.randint(1, 2), "start": rnd.randint(0, 4)}
        else:
            pol["n"] = min(pol["n"], 2)
        if g["dv"][1] > 50:
            g["dv"] = [10, 50]
    w["flags"].update({"timeout": timeout, "variance": 0, "drop_skipped": rnd.random() < 0.3, "at_worker_free": False,
                       "frequency": rnd.choice([-1, -1, 1, 3]), "delay": 0})  # fmt: skip
    return w


def _with_loading(w):
    """Clockwork's request bookkeeping reads the profile's fastest *loading* strategy: give every profile a
    resource-free one and let the harness load the profiles on the workers"""
    for p in w["profiles"]:
        p["loading"] = [{"dem": [], "rt": 0, "bs": 1}]
    w["preload"] = True
    return w


def _batchable(w, rnd):
    """several requests of few profiles, whose strategies come in batch sizes 1..3 (ILP / CPLEX batching=True)"""
    for p in w["profiles"]:
        base = p["strats"][0]
        p["strats"] = [dict(base, bs=1)] + [dict(base, rt=base["rt"] + k, bs=k + 1) for k in range(1, rnd.choice([2, 3]))]
    return w


def gen_side_world(rnd, kind):
    """worlds run under the side options: preemptive EDF / LSF, BranchPrediction, batching planners, Clockwork with run_load"""
    if kind in ("clockwork_load", "clockwork_load_gpu"):
        w = worlds.gen_clockwork_world(rnd)
        if kind == "clockwork_load_gpu":
            # a loaded model also keeps a gpu unit (execution and loading strategies share a resource type)
            for p in w["profiles"]:
                p["loading"][0]["dem"].append(worlds.R("gpu", "any", 1))
            for pool in w["pools"]:
                for wk in pool:
                    wk[0]["cap"] += 1
        w["flags"]["timeout"] = 80
        return w
    if kind in ("edf_pre", "lsf_pre", "bp", "bp_logfix"):
        w = worlds.gen_world(rnd, kinds=("edf",), max_graphs=2, closed_loop=False)
        pre = kind.endswith("_pre") or (kind == "bp_logfix" and rnd.random() < 0.4)
        base = kind.split("_")[0] if kind.endswith("_pre") else kind
        w["sched"] = {"kind": base, "runtime": 0, "enforce": base == "edf" and rnd.random() < 0.4, "preemptive": pre}
        if base.startswith("bp"):
            w["sched"].update({"policy": rnd.choice(BP_POLICIES), "rtg": rnd.random() < 0.3, "acc": rnd.choice([0.5, 1.0])})
        w["flags"]["variance"] = rnd.choice([0, 0, 50])
        w["flags"]["timeout"] = rnd.choice([60, 100])
        return w
    base = "ilp" if kind == "ilp_batch" else "ts_cplex"
    w = worlds.gen_world(rnd, kinds=("edf",), max_graphs=2, closed_loop=False)
    while sum(len(g["jobs"]) for g in w["graphs"]) > 3 or len(w["profiles"]) > 2:
        w = worlds.gen_world(rnd, kinds=("edf",), max_graphs=2, closed_loop=False)
    _bounded(w, rnd, rnd.choice([40, 60]))
    for g in w["graphs"]:
        g["policy"].update({"period": rnd.choice([1, 1, 2]), "n": 2})
    _batchable(w, rnd)
    la = rnd.choice([0, 0, 3])
    if base == "ilp":
        goal = rnd.choice(["max_goodput", "max_slack"])
        w["sched"] = {"kind": "ilp", "runtime": 0, "goal": goal, "enforce": True if goal == "max_goodput" else rnd.random() < 0.5,
                      "lookahead": la, "retract": rnd.random() < 0.3, "rtg": False, "batching": True}  # fmt: skip
    else:
        w["sched"] = {"kind": "ts_cplex", "runtime": 0, "enforce": rnd.random() < 0.5, "lookahead": la, "retract": rnd.random() < 0.3,
                      "rtg": False, "disc": 1, "plan_ahead": rnd.choice([8, 12]), "batching": True}  # fmt: skip
        w["graphs"] = w["graphs"][:1]
    return w


def gen_sim_world(rnd, kind):
    """a world run under the real policy `kind` (part a)"""
    if kind in ("edf_pre", "lsf_pre", "bp", "bp_logfix", "ilp_batch", "cplex_batch", "clockwork_load", "clockwork_load_gpu"):
        return gen_side_world(rnd, kind)
    w = worlds.gen_world(rnd, kinds=("edf",), max_graphs=2, closed_loop=kind in ("edf", "fifo", "lsf"))
    if kind in ("edf", "fifo", "lsf"):
        w["sched"] = {"kind": kind, "runtime": 0, "enforce": rnd.random() < 0.4 and kind != "lsf"}
        w["flags"]["variance"] = 0
        w["flags"]["timeout"] = rnd.choice([60, 100])
        return w
    if kind in ("ilp", "ts_cplex"):
        # the restricted Gurobi licence allows 200 general constraints (4 per ordered task pair in the ILP), CPLEX CE
        # 1000 variables: keep the number of tasks alive at once small
        while sum(len(g["jobs"]) for g in w["graphs"]) > (5 if kind == "ilp" else 4):
            w = worlds.gen_world(rnd, kinds=("edf",), max_graphs=2, closed_loop=False)
    _bounded(w, rnd, rnd.choice([40, 60]))
    la = rnd.choice([0, 0, 3, 8])
    if kind == "ilp":
        goal = rnd.choice(["max_goodput", "max_slack"])
        w["sched"] = {"kind": "ilp", "runtime": rnd.choice([0, 0, 1]), "goal": goal,
                      "enforce": True if goal == "max_goodput" else rnd.random() < 0.5, "lookahead": la,
                      "retract": rnd.random() < 0.4, "rtg": rnd.random() < 0.4}  # fmt: skip
    elif kind in ("ts_gurobi", "ts_cplex"):
        w["sched"] = {"kind": kind, "runtime": 0, "enforce": rnd.random() < 0.5, "lookahead": la, "retract": rnd.random() < 0.5,
                      "rtg": kind == "ts_gurobi" and rnd.random() < 0.3, "disc": rnd.choice([1, 1, 2]),
                      "plan_ahead": rnd.choice([8, 12] if kind == "ts_cplex" else [10, 16, -1])}  # fmt: skip
        if kind == "ts_cplex":
            w["graphs"] = w["graphs"][:1]
    elif kind == "clockwork":
        for p in w["profiles"]:
            for s in p["strats"]:
                s["bs"] = rnd.choice([1, 1, 2, 3])
        _with_loading(w)
        w["sched"] = {"kind": "clockwork", "runtime": 0, "cw_goal": rnd.choice(["clockwork", "least_slack"])}
        for g in w["graphs"]:
            g["dv"] = rnd.choice([[0, 0], [50, 200], [100, 300]])
            g["policy"]["n"] = rnd.randint(2, 4)
    return w


def directed_sim_worlds():
    """hand-written worlds for part (a) that put the suspects of the design round on the path of a real simulation"""
    R, I = worlds.R, worlds.I
    het = [[[I("gpu", "g1", 1)], [I("gpu", "g2", 2)]]]
    big = {"name": "P0", "strats": [{"dem": [R("gpu", "any", 2)], "rt": 5, "bs": 1}]}
    two = {"name": "P1", "strats": [{"dem": [R("gpu", "any", 2)], "rt": 4, "bs": 1}, {"dem": [R("gpu", "any", 1)], "rt": 6, "bs": 1}]}
    one = lambda n, period: [{"name": "G0", "jobs": [{"name": "A", "profile": 0}],  # noqa: E731
                              "policy": {"type": "fixed", "period": period, "n": n, "start": 0}, "dv": [100, 200]}]
    fl = {"timeout": 60, "variance": 0}
    return [
        # a 2-gpu task waits SCHEDULED for the only worker that can hold it while another release invokes the planner
        {"name": "ilp_scheduled_incompatible", "profiles": [big], "graphs": one(3, 2), "pools": het, "flags": dict(fl), "seed": 1,
         "sched": {"kind": "ilp", "runtime": 0, "goal": "max_slack", "enforce": False, "lookahead": 0, "retract": False, "rtg": False}},
        {"name": "ilp_scheduled_incompatible_retract", "profiles": [big], "graphs": one(3, 2), "pools": het, "flags": dict(fl), "seed": 1,
         "sched": {"kind": "ilp", "runtime": 0, "goal": "max_goodput", "enforce": True, "lookahead": 0, "retract": True, "rtg": False}},
        {"name": "ts_scheduled_incompatible", "profiles": [big], "graphs": one(3, 2), "pools": het, "flags": dict(fl), "seed": 1,
         "sched": {"kind": "ts_gurobi", "runtime": 0, "enforce": False, "lookahead": 0, "retract": False, "rtg": False, "disc": 1, "plan_ahead": 14}},
        {"name": "cplex_scheduled_incompatible", "profiles": [big], "graphs": one(3, 2), "pools": het, "flags": dict(fl), "seed": 1,
         "sched": {"kind": "ts_cplex", "runtime": 0, "enforce": False, "lookahead": 0, "retract": False, "disc": 1, "plan_ahead": 12}},
        # three tasks with strategies [2 gpus, 1 gpu] on workers [1 gpu, 2 gpus], released together
        {"name": "lsf_strategy_mismatch", "profiles": [two], "graphs": [{"name": "G0", "jobs": [{"name": "A", "profile": 0}, {"name": "B", "profile": 0},
         {"name": "C", "profile": 0}], "policy": {"type": "fixed", "period": 3, "n": 2, "start": 0}, "dv": [100, 200]}], "pools": het,
         "flags": dict(fl), "seed": 1, "sched": {"kind": "lsf", "runtime": 0}},
        {"name": "edf_strategy_order", "profiles": [two], "graphs": [{"name": "G0", "jobs": [{"name": "A", "profile": 0}, {"name": "B", "profile": 0},
         {"name": "C", "profile": 0}], "policy": {"type": "fixed", "period": 3, "n": 2, "start": 0}, "dv": [100, 200]}], "pools": het,
         "flags": dict(fl), "seed": 1, "sched": {"kind": "edf", "runtime": 0, "enforce": True}},
        # Clockwork loads and evicts models itself: two models whose weights (2 mem each) do not fit one worker (3 mem)
        # together; the requests of M1 arrive while M0 is loaded - M0 has to be evicted before M1 can be loaded
        {"name": "clockwork_evict_to_load", "profiles": [
            {"name": "M0", "strats": [{"dem": [R("gpu", "any", 1)], "rt": 3, "bs": 1}, {"dem": [R("gpu", "any", 1)], "rt": 4, "bs": 2}],
             "loading": [{"dem": [R("mem", "any", 2)], "rt": 2, "bs": 1}]},
            {"name": "M1", "strats": [{"dem": [R("gpu", "any", 1)], "rt": 2, "bs": 1}], "loading": [{"dem": [R("mem", "any", 2)], "rt": 3, "bs": 1}]}],
         "graphs": [{"name": "G0", "jobs": [{"name": "R", "profile": 0}], "policy": {"type": "fixed", "period": 2, "n": 3, "start": 0}, "dv": [200, 300]},
                    {"name": "G1", "jobs": [{"name": "R", "profile": 1}], "policy": {"type": "fixed", "period": 1, "n": 6, "start": 9}, "dv": [300, 400]}],
         "pools": [[[I("gpu", "g1", 2), I("mem", "m1", 3)]]], "flags": {"timeout": 80, "frequency": 1}, "seed": 1,
         "sched": {"kind": "clockwork", "runtime": 0, "run_load": True, "cw_goal": "clockwork"}},
        {"name": "clockwork_evict_to_load_2w", "profiles": [
            {"name": "M0", "strats": [{"dem": [R("gpu", "any", 1)], "rt": 3, "bs": 1}], "loading": [{"dem": [R("mem", "any", 2)], "rt": 2, "bs": 1}]},
            {"name": "M1", "strats": [{"dem": [R("gpu", "any", 1)], "rt": 2, "bs": 1}, {"dem": [R("gpu", "any", 1)], "rt": 3, "bs": 2}],
             "loading": [{"dem": [R("mem", "any", 1)], "rt": 1, "bs": 1}]},
            {"name": "M2", "strats": [{"dem": [R("gpu", "any", 1)], "rt": 2, "bs": 1}], "loading": [{"dem": [R("mem", "any", 2)], "rt": 2, "bs": 1}]}],
         "graphs": [{"name": "G0", "jobs": [{"name": "R", "profile": 0}], "policy": {"type": "fixed", "period": 3, "n": 2, "start": 0}, "dv": [200, 300]},
                    {"name": "G1", "jobs": [{"name": "R", "profile": 1}], "policy": {"type": "fixed", "period": 1, "n": 4, "start": 2}, "dv": [300, 400]},
                    {"name": "G2", "jobs": [{"name": "R", "profile": 2}], "policy": {"type": "fixed", "period": 1, "n": 5, "start": 8}, "dv": [300, 400]}],
         "pools": [[[I("gpu", "g1", 1), I("mem", "m1", 3)], [I("gpu", "g2", 2), I("mem", "m2", 2)]]], "flags": {"timeout": 80, "frequency": 1}, "seed": 1,
         "sched": {"kind": "clockwork", "runtime": 0, "run_load": True, "cw_goal": "least_slack"}},
    ]


def gen_prefix_world(rnd):
    """a world driven by the prefix policy to a mixed state (part b)"""
    w = worlds.gen_world(rnd, kinds=("hostile",), max_graphs=2, closed_loop=False)
    while sum(len(g["jobs"]) for g in w["graphs"]) > 7:
        w = worlds.gen_world(rnd, kinds=("hostile",), max_graphs=2, closed_loop=False)
    _bounded(w, rnd, 60)
    for g in w["graphs"]:
        g["policy"]["n"] = rnd.randint(1, 2)
        g["policy"]["period"] = rnd.randint(1, 4)
        g["dv"] = rnd.choice([[0, 0], [10, 50], [50, 100]])
    for p in w["profiles"]:
        for s in p["strats"]:
            s["rt"] = rnd.randint(2, 7)
    # heterogeneous workers: make sure at least two workers exist somewhere
    if sum(len(p) for p in w["pools"]) < 2:
        w["pools"][0].append([worlds.I("gpu", "gx", rnd.randint(1, 3))] + ([worlds.I("cpu", "cx", rnd.randint(1, 2))] if any(
            e["name"] == "cpu" for pr in w["profiles"] for s in pr["strats"] for e in s["dem"]) else []))  # fmt: skip
    w["sched"] = {"kind": "prefix", "runtime": 0, "lookahead": rnd.choice([0, 4, 10]), "retract": rnd.random() < 0.3,
                  "rtg": rnd.random() < 0.3, "cancel_rate": 0.0}  # fmt: skip
    w["flags"]["frequency"] = rnd.choice([-1, 1, 2])
    _with_loading(w)
    w["stop_at"] = rnd.randint(2, 4)
    return w


def directed_prefix_worlds():
    """hand-written states for the suspects of the design round"""
    R, I = worlds.R, worlds.I
    out = []
    # heterogeneous pool [small worker, big worker]; tasks with strategies [big demand, small demand]:
    # LSF's strategy-less virtual placement (first worker, first fitting strategy) differs from what it reports
    out.append({
        "name": "lsf_strategy_mismatch",
        "profiles": [{"name": "P0", "strats": [{"dem": [R("gpu", "any", 2)], "rt": 4, "bs": 1}, {"dem": [R("gpu", "any", 1)], "rt": 6, "bs": 1}]}],
        "graphs": [{"name": "G0", "jobs": [{"name": "A", "profile": 0}, {"name": "B", "profile": 0}, {"name": "C", "profile": 0}],
                    "policy": {"type": "fixed", "period": 1, "n": 2, "start": 0}, "dv": [50, 100]}],
        "pools": [[[I("gpu", "g1", 1)], [I("gpu", "g2", 2)]]],
        "sched": {"kind": "prefix", "runtime": 0, "lookahead": 0, "answer_rate": 0.0}, "flags": {"timeout": 60}, "seed": 1, "stop_at": 1,
        "preload": True, "any_state": True,
    })
    # a SCHEDULED-for-later task on a heterogeneous cluster where one (worker, strategy) pair is incompatible
    out.append({
        "name": "scheduled_meets_incompatible_pair",
        "profiles": [{"name": "P0", "strats": [{"dem": [R("gpu", "any", 2)], "rt": 3, "bs": 1}]},
                     {"name": "P1", "strats": [{"dem": [R("gpu", "any", 1)], "rt": 4, "bs": 1}]}],
        "graphs": [{"name": "G0", "jobs": [{"name": "A", "profile": 0}, {"name": "B", "profile": 1}, {"name": "C", "profile": 1}],
                    "policy": {"type": "fixed", "period": 2, "n": 2, "start": 0}, "dv": [50, 100]}],
        "pools": [[[I("gpu", "g1", 1)], [I("gpu", "g2", 2)]]],
        "sched": {"kind": "prefix", "runtime": 0, "lookahead": 0, "later_rate": 0.7}, "flags": {"timeout": 60, "frequency": 1}, "seed": 2,
        "stop_at": 2, "preload": True,
    })
    # one single-gpu worker, three independent long tasks: some are planned for later by the prefix policy, the others
    # are still RELEASED at the next invocation - a policy that does not know the plans (Z3) collides with them
    out.append({
        "name": "released_beside_plans",
        "profiles": [{"name": "P0", "strats": [{"dem": [R("gpu", "any", 1)], "rt": 9, "bs": 1}]}],
        "graphs": [{"name": "G0", "jobs": [{"name": "A", "profile": 0}, {"name": "B", "profile": 0}, {"name": "C", "profile": 0}],
                    "policy": {"type": "fixed", "period": 1, "n": 1, "start": 0}, "dv": [200, 300]}],
        "pools": [[[I("gpu", "g1", 1)]]],
        "sched": {"kind": "prefix", "runtime": 0, "lookahead": 0, "answer_rate": 0.5, "later_rate": 1.0},
        "flags": {"timeout": 60, "frequency": 1}, "seed": 1, "stop_at": 2,
    })
    for w in out:
        w.setdefault("flags", {})
        _with_loading(w)
    return out


# ---------------------------------------------------------------------------
# staged states (part b'): a scripted stage policy drives a real simulation to a chosen class of state


def stage_world(name, pools, early, late, stop=None, seed=1, lookahead=0, rtg=False):
    """early: tasks the stage policy places itself: {"strats": [(gpus, rt[, bs])], "rel", "dv", "at", "pool", "wk", "strategy"}
    (deadline = rel + rt * (1 + dv/100); started at max(at, rel) on the named worker);
    late: tasks left to the policy under test: {"strats", "rel", "dv", "child": strats?, "share": reuse the previous profile}.
    The run stops at the first invocation at or after `stop` (default: the first late release)."""
    R = worlds.R
    profiles, graphs, plans = [], [], {}

    def prof(strats):
        profiles.append({"name": f"P{len(profiles)}", "strats": [{"dem": [R("gpu", "any", st[0])], "rt": st[1], "bs": (st[2] if len(st) > 2 else 1)}
                                                                  for st in strats]})  # fmt: skip
        return len(profiles) - 1

    for i, e in enumerate(early):
        k = prof(e["strats"])
        graphs.append({"name": f"E{i}", "jobs": [{"name": "T", "profile": k}], "policy": {"type": "fixed", "period": 1, "n": 1, "start": e["rel"]},
                       "dv": [e.get("dv", 0)] * 2})  # fmt: skip
        plans[f"T@E{i}@0"] = {"tm": e["at"], "pool": e.get("pool", 1), "wk": e.get("wk", 1), "strategy": e.get("strategy", 1)}
    last = None
    for i, l in enumerate(late):
        k = last if (l.get("share") and last is not None) else prof(l["strats"])
        last = k
        jobs = [{"name": "T", "profile": k}]
        if l.get("child"):
            jobs = [{"name": "T", "profile": k, "children": ["U"]}, {"name": "U", "profile": prof(l["child"])}]
        graphs.append({"name": f"L{i}", "jobs": jobs, "policy": {"type": "fixed", "period": 1, "n": 1, "start": l["rel"]}, "dv": [l.get("dv", 0)] * 2})
    w = {
        "name": name, "profiles": profiles, "graphs": graphs, "pools": pools, "seed": seed, "staged": True,
        "sched": {"kind": "stage", "runtime": 0, "lookahead": lookahead, "retract": False, "rtg": rtg, "plans": plans,
                  "stop_time": min(l["rel"] for l in late) if stop is None else stop},
        "flags": {"timeout": 300, "frequency": -1},
    }  # fmt: skip
    return _with_loading(w)


def directed_staged_worlds(tier):
    """the grid of part (b'): {one 1-gpu worker | a 1-gpu and a 2-gpu worker where the late task only fits the big one}
    x {the early task RUNNING past its deadline with much / little left, RUNNING on time with much / little left, the late
    release exactly at / just after the early deadline, the early task still SCHEDULED for later on that worker (deadline
    passed / not yet)} x {late deadline tight | loose}, plus mixed families (running + planned, batches, children)"""
    I = worlds.I
    one = [[[I("gpu", "g1", 1)]]]
    het = [[[I("gpu", "g1", 1)], [I("gpu", "g2", 2)]]]
    out = []
    # (planned start of the early task (rt 10, released at 0, deadline 10), release of the late task = invocation time)
    states = [("overrun_much", 8, 12), ("overrun_little", 8, 17), ("at_deadline", 8, 10), ("just_after_deadline", 2, 11),
              ("ontime_much", 0, 4), ("ontime_little", 0, 9), ("planned_past_deadline", 15, 12), ("planned_will_overrun", 9, 5)]  # fmt: skip
    if tier != "quick":
        states += [("overrun_mid", 5, 13), ("after_deadline_far", 9, 18), ("planned_far", 30, 14), ("ontime_done_next", 0, 10)]
    for cname, pools, wk, q_late in (("one", one, 1, 1), ("het", het, 2, 2)):
        for sname, at, rb in states:
            for dname, dv in (("tight", 0), ("loose", 300)):
                out.append(stage_world(f"stage_{cname}_{sname}_{dname}", pools, [{"strats": [(1, 10)], "rel": 0, "dv": 0, "at": at, "wk": wk}],
                                       [{"strats": [(q_late, 3)], "rel": rb, "dv": dv}]))  # fmt: skip
    # a running overrun AND a future plan on the big worker; two late tasks (tight and loose), one with a child
    out.append(stage_world("stage_mixed_run_plan", het, [{"strats": [(1, 10)], "rel": 0, "at": 7, "wk": 2}, {"strats": [(2, 4)], "rel": 1, "at": 19, "wk": 2}],
                           [{"strats": [(2, 3), (1, 5)], "rel": 12, "dv": 0}, {"strats": [(1, 2)], "rel": 12, "dv": 300, "child": [(1, 2)]}]))  # fmt: skip
    # two running tasks on one 2-gpu worker, one past its deadline, one not; the late task needs both gpus
    out.append(stage_world("stage_two_running", [[[I("gpu", "g1", 2)]]], [{"strats": [(1, 6)], "rel": 0, "at": 5, "wk": 1}, {"strats": [(1, 9)], "rel": 3, "dv": 100, "at": 4, "wk": 1}],
                           [{"strats": [(2, 2), (1, 6)], "rel": 8, "dv": 100}]))  # fmt: skip
    # batches: three late requests of one profile with batch-size strategies next to a running overrun
    out.append(stage_world("stage_batch_late", het, [{"strats": [(1, 10)], "rel": 0, "at": 6, "wk": 2}],
                           [{"strats": [(1, 4, 1), (1, 6, 2)], "rel": 12, "dv": 300}, {"strats": [], "rel": 12, "dv": 300, "share": True},
                            {"strats": [], "rel": 12, "dv": 200, "share": True}]))  # fmt: skip
    # a late task released earlier is still waiting when the next one arrives after the early deadline (lookahead 4 offers
    # the child too)
    out.append(stage_world("stage_waiting_and_new", one, [{"strats": [(1, 10)], "rel": 0, "at": 4, "wk": 1}],
                           [{"strats": [(1, 3)], "rel": 6, "dv": 300}, {"strats": [(1, 2)], "rel": 12, "dv": 0, "child": [(1, 3)]}], stop=12, lookahead=4))  # fmt: skip
    return out


def gen_staged_world(rnd, idx):
    """biased random member of the staged class: the late releases are drawn around the deadline of an early task and the
    late demands are drawn so that few workers fit"""
    I = worlds.I
    pools = []
    for pi in range(rnd.choice([1, 1, 2])):
        pools.append([[I("gpu", f"g{pi}_{wi}", rnd.choice([1, 1, 2, 3]))] for wi in range(rnd.choice([1, 2, 2, 3]))])
    flat = [(pi + 1, wi + 1, w[0]["cap"]) for pi, p in enumerate(pools) for wi, w in enumerate(p)]
    maxcap = max(c for _, _, c in flat)
    early = []
    for _ in range(rnd.choice([1, 1, 2, 3])):
        pi, wi, cap = rnd.choice(flat)
        rel = rnd.randint(0, 2)
        early.append({"strats": [(rnd.randint(1, cap), rnd.randint(3, 12))], "rel": rel, "dv": rnd.choice([0, 0, 0, 50]),
                      "at": rel + rnd.choice([0, 0, 2, 5, 9, 14]), "pool": pi, "wk": wi})  # fmt: skip
    anchor = rnd.choice(early)
    dl = anchor["rel"] + round(anchor["strats"][0][1] * (1 + anchor["dv"] / 100))
    late = []
    bs = rnd.random() < 0.25
    for k in range(rnd.choice([1, 1, 2, 3])):
        rel = max(1, dl + rnd.choice([-3, -1, 0, 0, 1, 1, 2, 5]))
        q = rnd.choice([maxcap, maxcap, rnd.randint(1, maxcap)])
        strats = [(q, rnd.randint(2, 5))]
        if rnd.random() < 0.3:
            strats.append((rnd.randint(1, maxcap), rnd.randint(2, 7)))
        if bs:
            strats = [(q, 3, 1), (q, 4, 2)]
        l = {"strats": strats, "rel": rel, "dv": rnd.choice([0, 0, 100, 300]), "share": bs and k > 0}
        if rnd.random() < 0.25 and not bs:
            l["child"] = [(rnd.randint(1, maxcap), rnd.randint(1, 4))]
        late.append(l)
    stop = rnd.choice([min, max])(l["rel"] for l in late)
    la = rnd.choice([0, 0, 0, 4])
    return stage_world("", pools, early, late, stop=stop, seed=idx + 1, lookahead=la, rtg=la > 0 and rnd.random() < 0.5)


# ---------------------------------------------------------------------------
# histories (part h): ONE policy object over many invocations of a real simulation, requests left waiting between
# invocations (partial batch, busy worker, model still loading), invocations at the instants the policy compares against


def hist_world(name, models, reqs, pools, sched, freq=-1, seed=1, preload_map=None, family="hist"):
    """models: [{"strats": [(batch size, runtime[, gpus])], "load": None | (mem, loading time)}];
    reqs: [(model, release, deadline)] - every request is a one-job graph released once, deadline = release + slo (no
    variance).  Without run_load the harness loads the models on the workers (all, or those of preload_map); with it the
    policy loads them itself.  The scheduler runtime is 0, so the simulator invokes the policy at every release, at every
    finish and - while something it might place is waiting - at every instant (or every `freq` instants)."""
    R = worlds.R
    profiles = []
    for k, m in enumerate(models):
        ld = m.get("load")
        profiles.append({"name": f"M{k}", "strats": [{"dem": [R("gpu", "any", st[2] if len(st) > 2 else 1)], "rt": st[1], "bs": st[0]} for st in m["strats"]],
                         "loading": [{"dem": [R("mem", "any", ld[0])] if ld else [], "rt": ld[1] if ld else 0, "bs": 1}]})  # fmt: skip
    graphs = [{"name": f"Q{i}", "jobs": [{"name": "R", "profile": m, "slo": max(0, dl - rel)}],
               "policy": {"type": "fixed", "period": 1, "n": 1, "start": rel}, "dv": [0, 0]} for i, (m, rel, dl) in enumerate(reqs)]  # fmt: skip
    w = {"name": name, "family": family, "profiles": profiles, "graphs": graphs, "pools": pools, "seed": seed, "sched": dict(sched, runtime=0),
         "flags": {"timeout": max(dl for _, _, dl in reqs) + 12, "frequency": freq, "variance": 0}, "max_calls": 48}  # fmt: skip
    if not sched.get("run_load"):
        w["preload"] = True
        if preload_map:
            w["preload_map"] = preload_map
    return w


def _cw(goal, **k):
    return dict({"kind": "clockwork", "cw_goal": goal}, **k)


def directed_history_worlds(tier):
    """The grid of part (h).  A request W is queued by an early invocation and cannot be placed then; at the instant T
    something makes it placeable: (batch) the arrival that completes its batch, (busy) the finish of the task that
    occupies the only worker holding its model, (load) the end of the model's loading.  W's deadline is
    T + runtime(s) + d for every strategy s of its model and d in -1, 0, +1 (thorough: -2..2): the invocation at T meets
    W exactly at / one instant before / after the last instant at which s can still finish it (runtime 0: the deadline
    itself).  While W waits beside a free worker the simulator invokes the policy at every instant, so every earlier
    boundary is met too - with nothing placeable.  Both Clockwork goals; the busy-worker members also under EDF / FIFO
    with deadline enforcement (their admission compares the same quantities)."""
    I = worlds.I
    T, a, b, LOOSE = 4, 3, 5, 15
    deltas = (-1, 0, 1) if tier == "quick" else (-2, -1, 0, 1, 2)
    goals = ("clockwork", "least_slack")
    one = [[[I("gpu", "g1", 1)]]]
    out, n = [], [0]

    def goals_for(d):
        n[0] += 1
        return goals if d == 0 else (goals[n[0] % 2],)

    # (batch) strategies: batches of 2 | of 2 and (slower) of 3 | of 3 (two waiting members) | of 2 and a single-request
    # strategy too slow for W
    for vname, strats, extra, rts in (("b2", [(2, a)], [], (a,)), ("b2b3", [(2, a), (3, b)], [], (a, b)),
                                     ("b3", [(3, a)], [(0, 1, LOOSE)], (a,)), ("b2s1", [(2, a), (1, T + a + 3)], [], (a,))):  # fmt: skip
        for rt in rts:
            for d in deltas:
                for g in goals_for(d):
                    out.append(hist_world(f"hist_batch_{vname}_rt{rt}{d:+d}_{g}", [{"strats": strats}],
                                          [(0, 0, T + rt + d)] + extra + [(0, T, LOOSE)], one, _cw(g)))  # fmt: skip
    # the same with an invocation every 2 instants only (the boundary is met without the invocations before it)
    for d in deltas:
        out.append(hist_world(f"hist_batch_b2_rt{a}{d:+d}_every2", [{"strats": [(2, a)]}], [(0, 0, T + a + d), (0, T, LOOSE)], one,
                              _cw(goals[d % 2]), freq=2))  # fmt: skip
    # (busy) a blocker (model 0) runs on the only gpu from 0 to T; W (model 1) arrives at 1
    # (runtime 0: the deadline itself is met by the invocation at the finish - the blocker then runs until T + 2, so that W
    # survives the invocations at its arrival and one instant later)
    blocker = {"strats": [(1, T)]}
    for vname, strats, extra, rts in (("s1", [(1, a)], [], (a, 0)), ("s1b2", [(1, a), (2, b)], [(1, 2, LOOSE)], (a, b))):
        for rt in rts:
            Tb = T if rt else T + 2
            for d in deltas:
                pols = [_cw(g) for g in goals_for(d)]
                if vname == "s1":
                    pols += [{"kind": "edf", "enforce": True}, {"kind": "fifo", "enforce": True}]
                for sc in pols:
                    out.append(hist_world(f"hist_busy_{vname}_rt{rt}{d:+d}_{sc.get('cw_goal', sc['kind'])}", [{"strats": [(1, Tb)]}, {"strats": strats}],
                                          [(0, 0, LOOSE), (1, 1, Tb + rt + d)] + extra, one, sc))  # fmt: skip
    # ... and a second, free worker that does not hold the models
    two = [[[I("gpu", "g1", 1)], [I("gpu", "g2", 1)]]]
    for d in deltas:
        out.append(hist_world(f"hist_busy_other_worker_rt{a}{d:+d}", [blocker, {"strats": [(1, a)]}], [(0, 0, LOOSE), (1, 1, T + a + d)], two,
                              _cw(goals[d % 2]), preload_map=[[[1, 2]], [[1, 2]]]))  # fmt: skip
    # (load) the policy loads W's model itself (done at T); a request of another model arrives at T
    for d in deltas:
        for g in goals_for(d):
            out.append(hist_world(f"hist_load_rt{a}{d:+d}_{g}", [{"strats": [(1, a)], "load": (1, T)}, {"strats": [(1, 2)], "load": (1, 1)}],
                                  [(0, 0, T + a + d), (1, T, LOOSE)], [[[I("gpu", "g1", 2), I("mem", "m1", 3)]]], _cw(g, run_load=True)))  # fmt: skip
    # first seen AT the boundary (no history needed, the same comparison): three requests released together at 2 with
    # deadline 2 + a + d, three gpus
    for sc in (_cw("clockwork"), _cw("least_slack"), {"kind": "edf", "enforce": True}, {"kind": "fifo", "enforce": True}):
        out.append(hist_world(f"hist_first_seen_{sc.get('cw_goal', sc['kind'])}", [{"strats": [(1, a)]}], [(0, 2, 2 + a + d) for d in deltas],
                              [[[I("gpu", "g1", 3)]]], sc))  # fmt: skip
    for g in goals:
        # nothing ever completes the batch | the partner arrives one instant after W's last chance
        out.append(hist_world(f"hist_alone_{g}", [{"strats": [(2, a)]}], [(0, 0, T + a)], one, _cw(g)))
        out.append(hist_world(f"hist_late_partner_{g}", [{"strats": [(2, a)]}], [(0, 0, T + a), (0, T + 1, LOOSE), (0, T + 2, LOOSE)], one, _cw(g)))
        # two models, each with a request waiting at zero slack when both partners arrive; two gpus | one gpu
        for cap in (2, 1):
            out.append(hist_world(f"hist_two_models_{cap}gpu_{g}", [{"strats": [(2, a)]}, {"strats": [(2, a + 1)]}],
                                  [(0, 0, T + a), (1, 1, T + a + 1), (0, T, LOOSE), (1, T, LOOSE)], [[[I("gpu", "g1", cap)]]], _cw(g)))  # fmt: skip
    return out


HIST_TEMPLATES = [
    lambda a, b: [(2, a)], lambda a, b: [(1, a)], lambda a, b: [(1, a), (2, b)], lambda a, b: [(2, a), (3, b)],
    lambda a, b: [(2, a), (1, b + 4)], lambda a, b: [(3, a)], lambda a, b: [(2, a), (4, b)], lambda a, b: [(1, a), (2, b), (3, b + 1)],
]  # fmt: skip


def gen_history_world(rnd, idx):
    """seeded member of the history class: 1-2 models with batch-size strategies, 1-2 workers, blockers that keep gpus
    busy for a while, models preloaded (on some workers) or loaded by the policy; releases and deadlines are drawn ON the
    instants of the history (arrivals, finishes, ends of loading, last-chance instants deadline - runtime of requests
    drawn before) plus -1 / 0 / +1, so that waiting requests meet invocations at the policy's own boundaries"""
    I = worlds.I
    nmod = rnd.choice([1, 1, 2])
    run_load = rnd.random() < 0.25
    models = []
    for _ in range(nmod):
        a = rnd.randint(2, 4)
        m = {"strats": rnd.choice(HIST_TEMPLATES)(a, a + rnd.randint(1, 3))}
        if run_load:
            m["load"] = (1, rnd.randint(1, 4))
        models.append(m)
    nwk = rnd.choice([1, 1, 2])
    caps = [rnd.choice([1, 1, 2, 3]) for _ in range(nwk)]
    pools = [[[I("gpu", f"g{w}", caps[w])] + ([I("mem", f"m{w}", rnd.randint(nmod, nmod + 2))] if run_load else []) for w in range(nwk)]]
    events = {0}
    reqs = []
    # blockers: a single-request model of their own, released at 0
    nblock = rnd.choice([0, 0, 1, 1, 2])
    if nblock:
        F = rnd.randint(3, 7)
        bm = {"strats": [(1, F)]}
        if run_load:
            bm["load"] = (1, 0)
        models.append(bm)
        for k in range(min(nblock, sum(caps))):
            reqs.append((len(models) - 1, 0, 60))
        events.add(F)
    if run_load:
        events |= {m["load"][1] for m in models}
    pmap = None
    if not run_load and nwk == 2 and rnd.random() < 0.4:
        pmap = [rnd.choice([None, [[1, 1]], [[1, 2]]]) for _ in models]
    waiting = []  # (model, last-chance instants) of the requests drawn so far
    for _ in range(rnd.randint(3, 7)):
        m = rnd.randrange(nmod)
        ev = sorted(events)
        if waiting and rnd.random() < 0.45:
            # a partner / successor of an earlier request of the same model, arriving around one of its last-chance instants
            m, chances = rnd.choice(waiting)
            rel = max(0, rnd.choice(chances) + rnd.choice([-1, 0, 0, 0, 1]))
        else:
            rel = rnd.choice(ev) if rnd.random() < 0.55 else rnd.randint(0, 8)
        rts = [st[1] for st in models[m]["strats"]]
        later = [e for e in ev if e >= rel] or [rel]
        kind = rnd.random()
        if kind < 0.65:
            dl = rnd.choice(later) + rnd.choice(rts) + rnd.choice([-1, 0, 0, 0, 1])
        elif kind < 0.8:
            dl = rnd.choice(later) + rnd.choice([-1, 0, 1])
        else:
            dl = rel + max(rts) + rnd.randint(6, 20)
        dl = max(rel, dl)
        reqs.append((m, rel, dl))
        events.add(rel)
        events |= {dl - rt for rt in rts if dl - rt >= 0}
        if any(dl - rt > rel for rt in rts):
            waiting.append((m, [dl - rt for rt in rts if dl - rt > rel]))
    pol = rnd.random()
    if pol < 0.8 or run_load:
        sc = _cw(rnd.choice(["clockwork", "least_slack"]), **({"run_load": True} if run_load else {}))
    else:
        sc = {"kind": rnd.choice(["edf", "fifo"]), "enforce": True}
    return hist_world("", models, reqs, pools, sc, freq=rnd.choice([-1, -1, -1, 1, 2]), seed=idx + 1, preload_map=pmap, family="hist_seeded")


# ---------------------------------------------------------------------------
# the prefix policy (part b)


def _prefix_policy_class():
    from .hostile import HostileScheduler

    N = ns()
    TaskState, Placement, Placements, EventTime = N.TaskState, N.Placement, N.Placements, N.EventTime

    class PrefixScheduler(HostileScheduler):
        """Names a worker in every placement (the planners pin previous placements by worker id), starts
        some tasks now on workers that can hold them, plans others for later, leaves some unanswered."""

        def __init__(self, *a, stop_at=3, on_stop=None, any_state=False, answer_rate=0.7, later_rate=0.4, **k):
            super().__init__(*a, **k)
            self.stop_at = stop_at
            self.on_stop = on_stop
            self.any_state = any_state
            self.answer_rate = answer_rate
            self.later_rate = later_rate
            self.ncalls = 0

        def interesting(self, workload):
            st = collections.Counter(t.state.value for tg in workload.task_graphs.values() for t in tg.get_nodes())
            return (st[TaskState.RUNNING.value] + st[TaskState.SCHEDULED.value] >= 1) and st[TaskState.RELEASED.value] >= 1

        def schedule(self, sim_time, workload, worker_pools):
            self.ncalls += 1
            if self.ncalls >= self.stop_at and (self.any_state or self.interesting(workload)):
                self.on_stop(sim_time, workload, worker_pools)
                raise _Stop()
            tasks = workload.get_schedulable_tasks(
                sim_time, self.lookahead, self.preemptive, self.retract_schedules, worker_pools, self.policy,
                self.branch_prediction_accuracy, self.release_taskgraphs,
            )  # fmt: skip
            r = self._rnd
            virt = pycopy.copy(worker_pools)
            out, seen = [], set()
            planned = set()  # tasks given a placement by this call
            for t in tasks:
                if t.id in seen or t.state not in (TaskState.VIRTUAL, TaskState.RELEASED, TaskState.SCHEDULED):
                    continue
                if t.state == TaskState.SCHEDULED and t.expected_start_time <= sim_time + self.runtime:
                    continue
                seen.add(t.id)
                tg = workload.get_task_graph(t.task_graph)
                if any(p.conditional and not p.is_complete() for p in tg.get_parents(t)):
                    continue  # see hostile.py: answering a child of an undecided conditional can crash the simulator
                if any(not (p.is_complete() or p.state in (TaskState.RUNNING, TaskState.SCHEDULED) or p.id in planned) for p in tg.get_parents(t)):
                    # every bundled planner plans a child only together with (or after) all of its parents: a SCHEDULED task
                    # whose parent has no plan at all is not a state any of them leaves behind
                    continue
                if r.random() >= self.answer_rate:
                    continue  # stays RELEASED / VIRTUAL / keeps its plan
                cands = []
                for pool in virt.worker_pools:
                    for w in pool.workers:
                        empty = pycopy.deepcopy(w)
                        for s in t.available_execution_strategies:
                            if empty.can_accomodate_strategy(s):
                                cands.append((pool, w, s))
                if not cands:
                    out.append(Placement.create_task_placement(task=t))
                    continue
                now_ok = [c for c in cands if c[1].can_accomodate_strategy(c[2])]
                parents_done = all(p.is_complete() for p in tg.get_parents(t))
                if now_ok and parents_done and r.random() >= self.later_rate:
                    pool, w, s = r.choice(now_ok)
                    w.place_task(t, execution_strategy=s)
                    when = sim_time + self.runtime
                else:
                    pool, w, s = r.choice(cands)
                    when = sim_time + self.runtime + EventTime(r.choice([1, 2, 3, 5, 8]), EventTime.Unit.US)
                planned.add(t.id)
                out.append(Placement.create_task_placement(task=t, placement_time=when, worker_pool_id=pool.id, worker_id=w.id, execution_strategy=s))
            return Placements(runtime=self.runtime, true_runtime=EventTime.zero(), placements=out)

    class StageScheduler(PrefixScheduler):
        """Scripted stage (part b'): `plans` maps a task's unique name to {"tm", "pool", "wk", "strategy"}; the task is
        answered once, when first offered, with a placement on that named worker at max(tm, now); every other task is
        left unanswered.  The run stops at the first invocation at or after `stop_time`."""

        def __init__(self, *a, plans=None, stop_time=0, **k):
            super().__init__(*a, **k)
            self.plans = dict(plans or {})
            self.stop_time = stop_time
            self.answered = set()

        def schedule(self, sim_time, workload, worker_pools):
            now = sim_time.to(EventTime.Unit.US).time
            if now >= self.stop_time:
                self.on_stop(sim_time, workload, worker_pools)
                raise _Stop()
            tasks = workload.get_schedulable_tasks(
                sim_time, self.lookahead, self.preemptive, self.retract_schedules, worker_pools, self.policy,
                self.branch_prediction_accuracy, self.release_taskgraphs,
            )  # fmt: skip
            pools = list(worker_pools.worker_pools)
            out = []
            for t in tasks:
                pl = self.plans.get(t.unique_name)
                if pl is None or t.id in self.answered or t.state not in (TaskState.VIRTUAL, TaskState.RELEASED):
                    continue
                self.answered.add(t.id)
                pool = pools[pl.get("pool", 1) - 1]
                w = pool.workers[pl.get("wk", 1) - 1]
                strat = list(t.available_execution_strategies)[pl.get("strategy", 1) - 1]
                when = EventTime(max(pl.get("tm", now), now), EventTime.Unit.US) + self.runtime
                out.append(Placement.create_task_placement(task=t, placement_time=when, worker_pool_id=pool.id, worker_id=w.id, execution_strategy=strat))
            return Placements(runtime=self.runtime, true_runtime=EventTime.zero(), placements=out)

    return PrefixScheduler, StageScheduler


def direct_configs(rnd, tier, world):
    """the policy x option combinations invoked on one generated state.

    A planner is given the lookahead / release_taskgraphs setting the prefix policy ran with: the SCHEDULED tasks of
    the state were offered under it, so the state is one the planner's own frontier could have produced (a planner
    that re-plans - retract - only knows the scheduled tasks inside its frontier).  TetriSched-CPLEX has no
    release_taskgraphs: on such states it is only called without retraction."""
    B = lambda: rnd.random() < 0.5  # noqa: E731
    sc = world["sched"]
    la, rtg = sc.get("lookahead", 0), bool(sc.get("rtg", False))
    # the option families with recorded findings (BranchPrediction behind its crash, batching) are only called on the
    # fixed corpus (directed worlds and worlds drawn without VERIF_SEED), with options drawn without VERIF_SEED: their
    # finding keys are then the same for every seed
    fixed = bool(world.get("fixed") or world.get("name"))
    rs = random.Random(f"side:{world.get('name')}:{world.get('seed')}:{tier}")
    if world.get("staged"):
        return staged_configs(rnd, rs, fixed, tier, la, rtg)
    cfgs = [("edf", {"enforce": False}), ("edf", {"enforce": True}), ("fifo", {"enforce": False}), ("fifo", {"enforce": True}),
            ("lsf", {})]  # fmt: skip
    # the bundled options that lie beside the planners' main line: preemption, BranchPrediction, batching, run_load
    cfgs += [("edf", {"enforce": B(), "preemptive": True}), ("lsf", {"preemptive": True}),
             ("bp", {"policy": rnd.choice(BP_POLICIES), "preemptive": B(), "rtg": rtg})]  # fmt: skip
    if fixed:
        S = lambda: rs.random() < 0.5  # noqa: E731
        cfgs += [("bp_logfix", {"policy": rs.choice(BP_POLICIES), "preemptive": False, "rtg": rtg}),
                 ("bp_logfix", {"policy": rs.choice(BP_POLICIES), "preemptive": True, "rtg": S()})]  # fmt: skip
        cfgs.append(("ilp", {"goal": "max_goodput", "enforce": True, "lookahead": la, "retract": S(), "rtg": rtg, "batching": True}))
        cfgs.append(("ts_cplex", {"enforce": S(), "lookahead": la, "retract": False, "disc": 1, "plan_ahead": rs.choice([6, 10]), "batching": True}))
    n_ilp, n_ts, n_z3 = (2, 1, 2) if tier == "quick" else (6, 3, 3)
    ilp = [{"goal": g, "enforce": e, "lookahead": la, "retract": r, "rtg": rtg}
           for g, e in (("max_goodput", True), ("max_slack", True), ("max_slack", False)) for r in (False, True)]  # fmt: skip
    for o in rnd.sample(ilp, min(n_ilp, len(ilp))):
        cfgs.append(("ilp", o))
    for _ in range(n_ts):
        cfgs.append(("ts_gurobi", {"enforce": B(), "lookahead": la, "retract": B(), "rtg": rtg, "disc": rnd.choice([1, 1, 2]),
                                   "plan_ahead": rnd.choice([8, 12])}))  # fmt: skip
        cfgs.append(("ts_cplex", {"enforce": B(), "lookahead": la, "retract": B() and not rtg, "disc": rnd.choice([1, 1, 2]),
                                  "plan_ahead": rnd.choice([6, 10])}))  # fmt: skip
    if world.get("name"):  # directed states: every Z3 option combination
        for e in (False, True):
            for r in (False, True):
                cfgs.append(("z3", {"enforce": e, "lookahead": la, "retract": r, "rtg": rtg}))
    else:
        for _ in range(n_z3):
            cfgs.append(("z3", {"enforce": B(), "lookahead": la, "retract": B(), "rtg": rtg}))
    cfgs.append(("clockwork", {"goal": "clockwork", "start": B()}))
    cfgs.append(("clockwork", {"goal": "least_slack", "start": B()}))
    cfgs.append(("clockwork", {"goal": rnd.choice(["clockwork", "least_slack"]), "start": True, "run_load": True}))
    return cfgs


BP_POLICIES = ["WORST_CASE", "BEST_CASE", "MAXIMUM", "RANDOM", "ALL"]


def staged_configs(rnd, rs, fixed, tier, la, rtg):
    """staged states: every planner with enforcement on AND off (no sampling), the greedy ones, the side options"""
    cfgs = [("edf", {"enforce": False}), ("edf", {"enforce": True}), ("fifo", {"enforce": False}), ("fifo", {"enforce": True}),
            ("lsf", {}), ("edf", {"enforce": False, "preemptive": True}), ("edf", {"enforce": True, "preemptive": True}),
            ("lsf", {"preemptive": True}), ("bp", {"policy": rnd.choice(BP_POLICIES), "preemptive": rnd.random() < 0.5, "rtg": rtg})]  # fmt: skip
    if fixed:
        cfgs += [("bp_logfix", {"policy": rs.choice(BP_POLICIES), "preemptive": False, "rtg": rtg}),
                 ("bp_logfix", {"policy": rs.choice(BP_POLICIES), "preemptive": True, "rtg": rtg})]  # fmt: skip
    for g, e in (("max_goodput", True), ("max_slack", True), ("max_slack", False)):
        cfgs.append(("ilp", {"goal": g, "enforce": e, "lookahead": la, "retract": False, "rtg": rtg}))
    cfgs.append(("ilp", {"goal": rnd.choice(["max_goodput", "max_slack"]), "enforce": True, "lookahead": la, "retract": True, "rtg": rtg}))
    if fixed:
        cfgs.append(("ilp", {"goal": "max_goodput", "enforce": True, "lookahead": la, "retract": False, "rtg": rtg, "batching": True}))
        cfgs.append(("ts_cplex", {"enforce": rs.random() < 0.5, "lookahead": la, "retract": False, "disc": 1, "plan_ahead": 10, "batching": True}))
        if tier != "quick":
            cfgs.append(("ilp", {"goal": "max_slack", "enforce": False, "lookahead": la, "retract": False, "rtg": rtg, "batching": True}))
    for e in (False, True):
        cfgs.append(("ts_gurobi", {"enforce": e, "lookahead": la, "retract": False, "rtg": rtg, "disc": 1, "plan_ahead": 12}))
        cfgs.append(("ts_cplex", {"enforce": e, "lookahead": la, "retract": False, "disc": 1, "plan_ahead": 10}))
        cfgs.append(("z3", {"enforce": e, "lookahead": la, "retract": False, "rtg": rtg}))
    cfgs.append(("ts_gurobi", {"enforce": rnd.random() < 0.5, "lookahead": la, "retract": True, "rtg": rtg, "disc": rnd.choice([1, 2]), "plan_ahead": 12}))
    if tier != "quick":
        cfgs.append(("z3", {"enforce": rnd.random() < 0.5, "lookahead": la, "retract": True, "rtg": rtg}))
        cfgs.append(("ts_cplex", {"enforce": rnd.random() < 0.5, "lookahead": la, "retract": not rtg, "disc": 2, "plan_ahead": 10}))
    cfgs.append(("clockwork", {"goal": "clockwork", "start": True}))
    cfgs.append(("clockwork", {"goal": "least_slack", "start": True, "run_load": True}))
    return cfgs


# ---------------------------------------------------------------------------
# runners (forked workers)


def _few_solver_threads():
    """the planners ask the solver for multiprocessing.cpu_count() threads; a dozen forked workers doing so on a
    shared machine only fight each other (the answer does not depend on the thread count the contract is about)"""
    import multiprocessing

    multiprocessing.cpu_count = lambda: 2


def _mk_sim(world, sched_factory=None):
    import simulator as simmod

    _few_solver_threads()

    N = ns()
    simmod.setup_csv_logging = lambda *a, **k: simrun._CsvCapture(lambda row: None)
    if sched_factory is None and world["sched"]["kind"] in ("bp", "bp_logfix"):
        def sched_factory(w, flags, sc):  # noqa: E306
            from workload import BranchPredictionPolicy
            import schedulers

            return schedulers.BranchPredictionScheduler(
                preemptive=sc["preemptive"], runtime=us(sc["runtime"]), policy=BranchPredictionPolicy[sc.get("policy", "RANDOM")],
                branch_prediction_accuracy=sc.get("acc", 0.5), release_taskgraphs=sc["rtg"], _flags=flags,
            )  # fmt: skip
    pools, sched, loader, flags, fl, sc, profs = build_world(world, sched_factory)
    sim = simmod.Simulator(
        worker_pools=pools, scheduler=sched, workload_loader=loader, loop_timeout=N.EventTime(fl["timeout"], N.EventTime.Unit.US),
        scheduler_frequency=N.EventTime(fl["frequency"], N.EventTime.Unit.US), _flags=flags,
    )  # fmt: skip
    return sim, sched, fl, sc, profs


def _alarm(seconds, what):
    def on_alarm(signum, frame):
        raise simrun.HangDetected(f"{what}: wall clock limit {seconds}s")

    old = signal.signal(signal.SIGALRM, on_alarm)
    signal.alarm(seconds)
    return old


def run_sim_world(world, widx, wall=60, max_calls=40):
    """part (a): simulate `world` under its real policy, record every schedule() call"""
    os.environ[GUARD] = "1"
    import_repo()
    out = {"widx": widx, "records": [], "end": "", "skips": {}, "calls": 0}
    old = _alarm(wall, "simulation")
    try:
        sim, sched, fl, sc, profs = _mk_sim(world)
        rec = Recorder(sim, world, fl, sc)
        kind = sc["kind"]
        opts = {k: sc[k] for k in ("enforce", "lookahead", "retract", "rtg", "goal", "disc", "plan_ahead", "runtime") if k in sc}
        if kind in ("edf", "fifo", "lsf", "clockwork"):
            opts = {k: v for k, v in opts.items() if k in ("enforce", "runtime")}
        if kind in ("bp", "bp_logfix"):
            opts = {"policy": sc.get("policy", "RANDOM"), "rtg": sc["rtg"], "acc": sc.get("acc", 0.5)}
        for k in ("preemptive", "batching", "run_load"):
            if sc.get(k):
                opts[k] = True
        if kind == "clockwork":
            opts["enforce"] = True
        real = sched.schedule
        holder = {"n": 0}
        max_calls = world.get("max_calls", max_calls)
        seen = collections.Counter()  # task number -> in how many earlier invocations of this policy object it was offered

        class _Real:
            def schedule(self, sim_time, workload, pools):
                return real(sim_time, workload, pools)

        def wrapped(sim_time, workload, worker_pools):
            holder["n"] += 1
            if holder["n"] > max_calls:
                raise _Stop()
            n0 = len(rec.records)
            pl, exc = rec.call(kind, opts, _Real(), sim_time, workload, worker_pools,
                               {"part": "sim", "widx": widx, "call": holder["n"], "family": world.get("family", "")})
            if len(rec.records) > n0:
                r = rec.records[-1]
                r["hist"] = {"call": holder["n"], "seen": [seen[i] for i in range(1, len(r["tasks"]) + 1)]}
                seen.update(set(r["offered"]))
            if exc is not None:
                raise exc
            return pl

        sched.schedule = wrapped
        try:
            sim.simulate()
            out["end"] = "ended"
        except _Stop:
            out["end"] = "call_budget"
        except simrun.HangDetected as h:
            out["end"] = f"hang: {h}"
        except BaseException as e:  # noqa  (also the policy's own exception, re-raised through the simulator)
            out["end"] = f"exc: {type(e).__name__}: {e}"[:200]
        out["records"] = rec.records
        out["skips"] = dict(rec.skips)
        out["calls"] = holder["n"]
    except simrun.HangDetected as h:
        out["end"] = f"hang: {h}"
    finally:
        signal.alarm(0)
        signal.signal(signal.SIGALRM, old)
    return out


def run_prefix_world(world, widx, tier, wall=150):
    """part (b): drive `world` with the prefix policy to a SCHEDULER_START, then call every policy on that state"""
    os.environ[GUARD] = "1"
    import_repo()
    out = {"widx": widx, "records": [], "end": "", "skips": {}, "state": None, "corrupted_by": ""}
    rnd = random.Random(f"direct:{seed()}:{widx}:{world.get('seed', 0)}")
    Prefix, Stage = _prefix_policy_class()
    box = {}

    def on_stop(sim_time, workload, pools):
        rec = box["rec"]
        rec.register(workload)
        st = collections.Counter(t.state.value for t in rec.tr.tobj)
        out["state"] = {"now": rec.tr.tm(sim_time), "tasks_by_state": {str(k): v for k, v in sorted(st.items())},
                        "occupied_workers": sum(1 for p in pools.worker_pools for w in p.workers if w.get_placed_tasks())}  # fmt: skip
        for kind, opts in direct_configs(rnd, tier, world):
            before = (rec.proj_tasks(), rec.proj_cluster(pools))
            # the policies draw from the global generator (ids of solver variables / batches, RANDOM branch prediction):
            # every call starts from a state that does not depend on the calls made before it
            random.seed(f"call:{world.get('seed', 0)}:{kind}:{opts_str(opts)}")
            pol = make_policy(kind, opts)
            if kind == "clockwork" and opts.get("start"):
                pol.start(sim_time, box["profs"], pools)
            src = {"part": "direct", "widx": widx, "tier": tier}
            n0 = len(rec.records)
            rec.call(kind, opts, pol, sim_time, workload, pools, src)
            if opts.get("retract") and len(rec.records) > n0:
                # a re-planning policy only knows the SCHEDULED tasks inside its frontier; a state whose scheduled
                # tasks lie outside it was not produced under this policy's own options (the prefix policy delays
                # parents arbitrarily): not an input the statement quantifies over - dropped and counted
                r = rec.records[-1]
                if any(t["st"] == 3 and i not in r["offered"] for i, t in enumerate(r["tasks"], start=1)):
                    rec.records.pop()
                    rec.skips["outside_frontier:" + kind] += 1
            if (rec.proj_tasks(), rec.proj_cluster(pools)) != before:
                # the state is no longer the one the prefix reached: the remaining policies are not called on it
                out["corrupted_by"] = f"{kind}({opts_str(opts)})"
                break

    def factory(w, flags, sc):
        N = ns()
        if sc["kind"] == "stage":
            return Stage(
                seed=w.get("seed", 0), runtime=us(sc["runtime"]), lookahead=us(sc["lookahead"]), retract_schedules=sc["retract"],
                release_taskgraphs=sc["rtg"], cancel_rate=0.0, _flags=flags, on_stop=on_stop, plans=sc["plans"], stop_time=sc["stop_time"],
            )  # fmt: skip
        return Prefix(
            seed=w.get("seed", 0), runtime=us(sc["runtime"]), lookahead=us(sc["lookahead"]), retract_schedules=sc["retract"],
            release_taskgraphs=sc["rtg"], cancel_rate=0.0, _flags=flags, stop_at=w.get("stop_at", 3), on_stop=on_stop,
            any_state=w.get("any_state", False), answer_rate=sc.get("answer_rate", 0.7), later_rate=sc.get("later_rate", 0.4),
        )  # fmt: skip

    old = _alarm(wall, "prefix simulation")
    try:
        sim, sched, fl, sc, profs = _mk_sim(world, factory)
        box["rec"] = Recorder(sim, world, fl, sc)
        box["profs"] = profs
        try:
            sim.simulate()
            out["end"] = "no_state"
        except _Stop:
            out["end"] = "stopped"
        except simrun.HangDetected as h:
            out["end"] = f"hang: {h}"
        except BaseException as e:  # noqa  the prefix run itself failed (simulator-side: not C10's business)
            out["end"] = f"exc: {type(e).__name__}: {e}"[:200]
        out["records"] = box["rec"].records
        out["skips"] = dict(box["rec"].skips)
    except simrun.HangDetected as h:
        out["end"] = f"hang: {h}"
    finally:
        signal.alarm(0)
        signal.signal(signal.SIGALRM, old)
    return out


def _world_job(kind, world, widx, tier, max_calls):
    t0 = time.time()
    out = run_sim_world(world, widx, 90, max_calls) if kind == "sim" else run_prefix_world(world, widx, tier)
    out["wall_s"] = round(time.time() - t0, 1)
    return out


def _judge_job(kind, recs, name):
    if kind == "sanity":
        r = sanity_mc()
        return {"sanity": r}
    return judge_batch(recs, name)


# ---------------------------------------------------------------------------
# judgement by TLC


def _tuples(stdout):
    """the PrintT(<<"@@...", ...>>) values of a run (TLC wraps long values over several lines)"""
    out, buf, depth = [], None, 0
    for line in stdout.splitlines():
        s = line.strip()
        if buf is None:
            if not (s.startswith('<<"@@') or s.startswith('<< "@@')):
                continue
            buf, depth = "", 0
        buf += " " + s
        depth += s.count("<<") - s.count(">>")
        if depth <= 0:
            out.append(tlaval.parse(buf.strip()))
            buf = None
    if buf is not None:
        raise tlc.TLCMachineryError(f"unterminated PrintT value: {buf[:300]}")
    return out


def _spec_fields(rec):
    return {k: v for k, v in rec.items() if k not in ("src", "opts", "variant")}


def judge_batch(recs, name):
    """one TLC JVM: Decision!Judge on every record of the batch"""
    with Scratch() as scratch:
        path = os.path.join(scratch, f"calls_{name}.json")
        with open(path, "w") as f:
            json.dump([_spec_fields(r) for r in recs], f)
        defs = f'Records == JsonDeserialize("{path}")\nASSUME JudgeAll(Records)\nASSUME PrintT(<<"@@n", Len(Records)>>)\n' + TRIVIAL_SPEC
        mod, cf = mcgen.write_mc(scratch, "Decision", {}, name=f"MC_Decision_{name}", init_next=("Init", "Next"), extends="Json", extra_defs=defs)
        r = tlc.run_tlc(mod, cf, workers=1, java_opts=JOPTS, timeout=1500, coverage=False)
    if not r.ok:
        raise tlc.TLCMachineryError(f"record judgement run {name} failed: {r.violation_kind} {r.violation_name}\n{r.stdout[-3000:]}")
    fails, sides, exercised, n = [], [], {}, None
    for v in _tuples(r.stdout):
        if v[0] == "@@f":
            fails.append({"id": v[1], "clause": v[2], "offenders": sorted(v[3]), "circ": sorted(v[4])})
        elif v[0] == "@@s":
            sides.append({"id": v[1], "clause": v[2], "offenders": sorted(v[3])})
        elif v[0] == "@@x":
            exercised[v[1]] = sorted(v[2])
        elif v[0] == "@@n":
            n = v[1]
    if n != len(recs) or len(exercised) != len({r_["id"] for r_ in recs}):
        raise tlc.TLCMachineryError(f"record judgement {name}: TLC judged {n}/{len(exercised)} of {len(recs)} records\n{r.stdout[-1500:]}")
    return {"fails": fails, "sides": sides, "exercised": exercised, "wall_s": round(r.wall_s, 1), "n": len(recs)}


def sanity_mc():
    """DecisionMC: the hand-written records of Decision.tla"""
    with Scratch() as scratch:
        defs = 'ASSUME SanityOK\nASSUME PrintT(<<"@@sanity", "ok">>)\n' + TRIVIAL_SPEC
        mod, cf = mcgen.write_mc(scratch, "Decision", {}, name="DecisionMC", init_next=("Init", "Next"), extra_defs=defs)
        r = tlc.run_tlc(mod, cf, workers=1, java_opts=JOPTS, timeout=600, coverage=False)
    return r


def canary_base():
    """a hand-written valid record (Decision.tla's GoodEdf): now = 10, task 1 runs on worker 1 (2 gpus) until 13,
    task 2 is SCHEDULED on worker 2 (1 gpu) at 12, tasks 3 and 4 are offered, task 5 is a VIRTUAL child"""
    gpu = lambda q: [{"name": "gpu", "id": "any", "q": q}]  # noqa: E731
    nosd = {"dem": [], "rt": -1, "bs": 0, "bid": 0}
    noplan = {"pool": 0, "wk": 0, "sd": nosd, "tm": -1}
    sd = lambda q, rt: {"dem": gpu(q), "rt": rt, "bs": 1, "bid": 0}  # noqa: E731
    st = lambda q, rt: {"dem": gpu(q), "rt": rt, "bs": 1}  # noqa: E731
    tk = lambda s, rel, strats, plan, rem: {"st": s, "rel": rel, "dl": 50, "strats": strats, "plan": plan, "rem": rem}  # noqa: E731
    tasks = [
        tk(4, 5, [st(1, 8)], {"pool": 1, "wk": 1, "sd": sd(1, 8), "tm": 5}, 3),
        tk(3, 8, [st(1, 3)], {"pool": 1, "wk": 2, "sd": sd(1, 3), "tm": 12}, 3),
        tk(2, 9, [st(2, 4), st(1, 6)], noplan, 6),
        tk(2, 10, [st(1, 2)], noplan, 2),
        tk(1, -1, [st(1, 2)], noplan, 2),
    ]
    cluster = [[
        {"insts": [{"name": "gpu", "id": "g1", "cap": 2}], "av": [1], "occ": [{"t": 1, "dem": gpu(1), "fin": 13, "bid": 0}]},
        {"insts": [{"name": "gpu", "id": "g2", "cap": 1}], "av": [1], "occ": []},
    ]]  # fmt: skip
    snap = {"ts": [{"st": t["st"], "plan": t["plan"]} for t in tasks], "cl": [[{"av": w["av"]} for w in cluster[0]]]}
    return {
        "id": -100, "policy": "edf", "opts": "canary", "conv": conv_of("edf", {}), "now": 10, "raised": "", "offered": [3, 4],
        "tasks": tasks, "cluster": cluster,
        "decs": [{"kind": 4, "t": 4, "placed": True, "pool": 1, "wk": 0, "sd": sd(1, 2), "tm": 10},
                 {"kind": 4, "t": 3, "placed": False, "pool": 0, "wk": 0, "sd": nosd, "tm": -1}],
        "pre": snap, "post": pycopy.deepcopy(snap), "src": {"part": "canary"},
    }  # fmt: skip


def canaries(good):
    """corrupted copies of the valid hand-written record -> (record, clause that must reject it): the whole pipeline
    (JSON -> TLC -> parsed verdict lines) must name the right clause"""
    out = []

    def mut(clause, fn):
        r = pycopy.deepcopy(good)
        fn(r)
        r["id"] = -(len(out) + 1)
        out.append((r, clause))

    i0, t0 = 0, 4
    mut("C10.returns", lambda r: r.update(raised="RuntimeError: canary", decs=[]))
    mut("C10.one_per_task", lambda r: r["decs"].append(dict(r["decs"][1])))
    # a CANCEL beside the PLACE of the same task (what a stateful policy does when its admission control and its queues disagree)
    mut("C10.one_per_task", lambda r: r["decs"].insert(0, dict(r["decs"][1], kind=3, t=r["decs"][i0]["t"])))
    mut("C10.answers_all", lambda r: r["decs"].pop(i0))
    mut("C10.only_offered", lambda r: r.update(offered=[3]))
    mut("C10.names_exist", lambda r: r["decs"][i0].update(pool=2))
    mut("C10.strategy_of_task", lambda r: r["decs"][i0]["sd"].update(rt=7))
    mut("C10.time_not_past", lambda r: (r["decs"][i0].update(tm=9), r["tasks"][t0 - 1].update(rel=8)))
    mut("C10.time_not_before_release", lambda r: r["tasks"][t0 - 1].update(rel=11))

    def overload(r):
        r["decs"][i0]["sd"]["dem"][0]["q"] = 3
        r["tasks"][t0 - 1]["strats"][0]["dem"][0]["q"] = 3

    mut("C10.capacity", overload)
    mut("C10.side_effect_free", lambda r: r["post"]["ts"][t0 - 1].update(st=3))
    return out


# ---------------------------------------------------------------------------
# verdicts


def _norm_exc(msg):
    m = re.sub(r"[0-9a-f]{8}-[0-9a-f-]{27}", "<id>", msg)
    m = re.sub(r"\b[A-Za-z0-9_]+@[A-Za-z0-9_@]+", "<task>", m)
    m = re.sub(r"(?<![A-Za-z_])-?\d+(\.\d+)?(?![A-Za-z_])", "N", m)
    return m[:110]


def finding_key(rec, fail):
    cl = fail["clause"].split(".", 1)[1]
    pol = rec["policy"] + rec.get("variant", "")
    if cl == "returns":
        return f"{pol}:raised:{_norm_exc(rec['raised'])}"
    circ = "+".join(fail["circ"])
    return f"{pol}:{cl}" + (f":{circ}" if circ else "")


def slim(rec, keep_state=True):
    r = {k: rec[k] for k in ("id", "policy", "opts", "conv", "now", "raised", "offered", "decs")}
    r["variant"] = rec.get("variant", "")
    r["tasks"] = [{k: t[k] for k in ("st", "rel", "dl", "strats", "plan", "rem")} for t in rec["tasks"]]
    r["cluster"] = rec["cluster"]
    r["src"] = rec.get("src")
    if rec["pre"] != rec["post"]:
        r["pre"], r["post"] = rec["pre"], rec["post"]
    return r


STATE_CLASSES = [
    "running_past_deadline", "running_will_overrun", "running_little_left", "running_much_left", "scheduled_past_deadline",
    "scheduled_future", "scheduled_deferred", "offered_after_running_deadline", "offered_at_running_deadline", "disjoint_windows",
    "offered_only_fits_busy_worker", "offered_only_fits_planned_worker", "offered_hopeless_deadline", "offered_tight_deadline",
    "offered_loose_deadline", "placed_beside_overrun",
]  # fmt: skip


def state_classes(records, exercised):
    """per policy (+variant, enforcement on / off): how many judged direct calls met each class of state"""
    out = collections.defaultdict(collections.Counter)
    for r in records:
        if r["src"]["part"] != "direct":
            continue
        who = f"{r['policy']}{r.get('variant', '')}:enforce={'on' if r['conv'].get('enforce') else 'off'}"
        out[who]["calls"] += 1
        for x in exercised.get(r["id"], []):
            if x in STATE_CLASSES:
                out[who][x] += 1
    return {k: dict(sorted(v.items())) for k, v in sorted(out.items())}


HISTORY_CLASSES = [
    "later_invocation", "waiting_request", "waiting_placed", "waiting_cancelled", "waiting_unanswered", "first_seen_zero_slack",
    "first_seen_slack_minus1", "first_seen_slack_plus1", "waiting_zero_slack", "waiting_slack_minus1", "waiting_slack_plus1",
    "waiting_zero_slack_fastest", "waiting_zero_slack_slower_strategy", "waiting_zero_slack_fastest_placed",
    "waiting_zero_slack_fastest_cancelled", "waiting_zero_slack_fastest_unanswered", "waiting_slack_minus1_fastest_cancelled",
    "waiting_slack_plus1_fastest_placed", "offered_at_release", "offered_at_deadline", "waiting_at_deadline", "waiting_past_deadline",
    "waiting_beside_busy_worker", "waiting_for_profile", "cancel_and_place_same_task",
]  # fmt: skip


def history_report(records, exercised, sims):
    """part (h) in the evidence: per family and policy(+variant) how many judged invocations met each history class
    (Decision!History); `all_simulations` counts the same classes over every simulated call of part (a)"""
    fam = collections.defaultdict(lambda: collections.defaultdict(collections.Counter))
    worlds_of = collections.defaultdict(set)
    longest = collections.Counter()
    for r in records:
        if r["src"]["part"] != "sim":
            continue
        f = r["src"].get("family") or "other_simulations"
        who = r["policy"] + r.get("variant", "")
        worlds_of[f].add(r["src"]["widx"])
        longest[f] = max(longest[f], r.get("hist", {}).get("call", 1))
        c = fam[f][who]
        c["invocations"] += 1
        for x in exercised.get(r["id"], []):
            if x in HISTORY_CLASSES:
                c[x] += 1
    return {f: {"worlds": len(worlds_of[f]), "longest_history": longest[f], "by_policy": {p: dict(sorted(c.items())) for p, c in sorted(pc.items())}}
            for f, pc in sorted(fam.items())}  # fmt: skip


def make_plan(tier):
    rnd = random.Random(f"c10:{seed()}:{tier}")
    if tier == "quick":
        n_sim = {"edf": 3, "fifo": 3, "lsf": 4, "ilp": 5, "ts_gurobi": 4, "ts_cplex": 3, "clockwork": 3}
        n_side = {"edf_pre": 2, "lsf_pre": 2, "bp": 1, "clockwork_load": 3}
        n_prefix, n_staged = 8, 8
    else:
        n_sim = {"edf": 80, "fifo": 60, "lsf": 80, "ilp": 160, "ts_gurobi": 100, "ts_cplex": 70, "clockwork": 70}
        n_side = {"edf_pre": 40, "lsf_pre": 40, "bp": 5, "clockwork_load": 60}
        n_prefix, n_staged = 420, 260
    sims = directed_sim_worlds()
    for kind, n in n_sim.items():
        for _ in range(n):
            sims.append(gen_sim_world(rnd, kind))
    prefixes = directed_prefix_worlds() + [gen_prefix_world(rnd) for _ in range(n_prefix)]
    # the additions draw from their own generators (the worlds above stay what they were for a given seed)
    rnd2 = random.Random(f"c10+:{seed()}:{tier}")
    for kind, n in n_side.items():
        for _ in range(n):
            sims.append(gen_sim_world(rnd2, kind))
    # fixed corpus (no VERIF_SEED): the option families with recorded findings - see direct_configs
    corpus = fixed_corpus(tier)
    sims += corpus["sims"]
    prefixes += corpus["prefixes"]
    prefixes += directed_staged_worlds(tier)
    prefixes += corpus["staged"]
    prefixes += [gen_staged_world(rnd2, i) for i in range(n_staged)]
    # histories (part h): their own generator again
    rnd3 = random.Random(f"c10-hist:{seed()}:{tier}")
    sims += directed_history_worlds(tier)
    sims += [gen_history_world(rnd3, i) for i in range(20 if tier == "quick" else 400)]
    return sims, prefixes


CORPUS = os.path.join(os.path.dirname(os.path.abspath(__file__)), "c10_corpus.json")


def gen_fixed_corpus(tier):
    """worlds for the option families with recorded findings, drawn without VERIF_SEED"""
    if tier == "quick":
        n_fixed = {"bp_logfix": 3, "ilp_batch": 3, "cplex_batch": 2}
        cw_gpu = [9, 35]
        n_staged_fixed, n_prefix_fixed = 4, 3
    else:
        n_fixed = {"bp_logfix": 30, "ilp_batch": 40, "cplex_batch": 30}
        cw_gpu = list(range(40))
        n_staged_fixed, n_prefix_fixed = 40, 40
    rndf = random.Random(f"c10-fixed:{tier}")
    sims = []
    for kind, n in n_fixed.items():
        for _ in range(n):
            sims.append(dict(gen_sim_world(rndf, kind), fixed=True))
    for k in cw_gpu:
        sims.append(dict(gen_side_world(random.Random(f"cw:{k}"), "clockwork_load_gpu"), fixed=True))
    prefixes = [dict(gen_prefix_world(rndf), fixed=True) for _ in range(n_prefix_fixed)]
    staged = [dict(gen_staged_world(rndf, 1000 + i), fixed=True) for i in range(n_staged_fixed)]
    return {"sims": sims, "prefixes": prefixes, "staged": staged}


def fixed_corpus(tier):
    """The fixed corpus is stored (harness/c10_corpus.json, written by `python -m harness.c10 corpus`) so that it does not
    move when the world generators of harness/worlds.py change; without the file it is generated."""
    try:
        with open(CORPUS) as f:
            return json.load(f)[tier]
    except (OSError, KeyError, ValueError):
        return json.loads(json.dumps(gen_fixed_corpus(tier)))


def run(tier: str) -> CheckResult:
    res = CheckResult(PID, tier)
    res.assumptions = list(ASSUMPTIONS)
    os.environ[GUARD] = "1"
    t0 = time.time()
    sims, prefixes = make_plan(tier)
    max_calls = 6 if tier == "quick" else 40
    # slow solver worlds first, one pool for both parts
    jobs_w = [("prefix", w, i, tier, max_calls) for i, w in enumerate(prefixes)]
    jobs_w.sort(key=lambda j: 0 if j[1].get("staged") else 1)  # the staged states make the most (solver) calls
    order = {"ts_cplex": 0, "ilp": 1, "ts_gurobi": 2}
    jobs_w += sorted([("sim", w, i, tier, max_calls) for i, w in enumerate(sims)], key=lambda j: order.get(j[1]["sched"]["kind"], 9))
    outs = parallel(_world_job, jobs_w, procs=14)
    sim_out = [o for j, o in zip(jobs_w, outs) if j[0] == "sim"]
    pre_out = [o for j, o in zip(jobs_w, outs) if j[0] == "prefix"]
    t_worlds = time.time() - t0

    records, skips = [], collections.Counter()
    sim_ends, prefix_ends = collections.Counter(), collections.Counter()
    for o in sim_out:
        sc_ = sims[o["widx"]]["sched"]
        kind = sc_["kind"] + variant_of(sc_["kind"], sc_)
        sim_ends[f"{kind}:{o['end'].split(':')[0]}"] += 1
        skips.update(o["skips"])
        records += o["records"]
    corrupted = []
    states = []
    for o in pre_out:
        prefix_ends[o["end"].split(":")[0]] += 1
        skips.update(o["skips"])
        records += o["records"]
        if o["state"]:
            states.append(o["state"])
        if o["corrupted_by"]:
            corrupted.append({"world": o["widx"], "by": o["corrupted_by"]})
    for i, r in enumerate(records, start=1):
        r["id"] = i
    by_id = {r["id"]: r for r in records}
    if not records:
        raise RuntimeError("no scheduler call was recorded")

    good = canary_base()
    cans = canaries(good)

    nb = min(15, max(4, len(records) // 110)) if tier == "quick" else 15
    batches = [b for b in (records[k::nb] for k in range(nb)) if b]
    jobs = [("batch", b, f"b{k}") for k, b in enumerate(batches)]
    if cans:
        jobs.append(("batch", [good] + [c for c, _ in cans], "canaries"))
    jobs.append(("sanity", [], "sanity"))
    t1 = time.time()
    judged = parallel(_judge_job, jobs, procs=len(jobs))
    san = judged.pop()["sanity"]
    jobs.pop()
    t_tlc = time.time() - t1
    if not san.ok or not any('"@@sanity"' in l for l in san.stdout.splitlines()):
        res.violate("C10.contract_sanity", f"Decision!SanityOK does not hold: {san.violation_kind} {san.violation_name}",
                    {"stdout": san.stdout[-2000:]}, key="spec:DecisionMC:SanityOK")  # fmt: skip
    res.add_tlc("DecisionMC(SanityOK)", san)

    # canaries: each corrupted record must be rejected by its clause, the original by none
    canary_report = []
    if cans:
        cj = judged.pop()
        jobs.pop()
        failing = collections.defaultdict(set)
        for f in cj["fails"]:
            failing[f["id"]].add(f["clause"])
        if failing.get(good["id"]):
            raise tlc.TLCMachineryError(f"the hand-written valid record is rejected: {sorted(failing[good['id']])}")
        for c, clause in cans:
            ok = failing.get(c["id"], set()) == {clause}
            canary_report.append({"clause": clause, "rejected": ok, "failing": sorted(failing.get(c["id"], set()))})
            if not ok:
                raise tlc.TLCMachineryError(f"canary for {clause} was not rejected (got {sorted(failing.get(c['id'], set()))})")

    fails = [f for j in judged for f in j["fails"]]
    sides = [f for j in judged for f in j["sides"]]
    exercised = {}
    for j in judged:
        exercised.update(j["exercised"])
    res.traces_validated = len(records)

    # ---- verdicts: one violation per finding key, carried by the smallest failing record
    by_key = collections.defaultdict(list)
    for f in fails:
        rec = by_id[f["id"]]
        by_key[finding_key(rec, f)].append((rec, f))
    for key, lst in sorted(by_key.items()):
        rec, f = min(lst, key=lambda x: (len(x[0]["tasks"]), len(x[0]["decs"]), x[0]["id"]))
        parts = collections.Counter(x[0]["src"]["part"] for x in lst)
        src = rec["src"]
        world = (sims if src["part"] == "sim" else prefixes)[src["widx"]]
        res.violate(
            f["clause"],
            f"{rec['policy']}({rec['opts']}) at t={rec['now']}: {f['clause']} fails for "
            f"{'the call' if f['offenders'] == [0] else 'tasks/workers ' + str(f['offenders'])}"
            + (f" [{'+'.join(f['circ'])}]" if f["circ"] else "")
            + (f": {rec['raised']}" if f["clause"] == "C10.returns" else "")
            + f" ({len(lst)} records: {dict(parts)})",
            {"record": slim(rec), "offenders": f["offenders"], "circumstance": f["circ"], "source": src, "world": world,
             "records_with_this_key": len(lst), "other_record_ids": [x[0]["id"] for x in lst[:20]]},
            key=key,
        )  # fmt: skip

    # ---- evidence
    per_policy = collections.Counter(r["policy"] for r in records)
    per_part = collections.Counter(f"{r['src']['part']}:{r['policy']}{r.get('variant', '')}" for r in records)
    ex_counts = collections.Counter()
    ex_by_policy = collections.defaultdict(collections.Counter)
    for rid, ex in exercised.items():
        if rid in by_id:
            for x in ex:
                ex_counts[x] += 1
                ex_by_policy[by_id[rid]["policy"] + by_id[rid].get("variant", "")][x] += 1
    clause_ex = {
        "C10.returns": len(records),
        "C10.one_per_task": ex_counts["decided"],
        "C10.only_offered": ex_counts["decided"],
        "C10.answers_all": sum(1 for r in records if r["policy"] in ("edf", "fifo", "lsf", "ilp", "ts_gurobi", "ts_cplex", "bp", "bp_logfix")
                               and r["offered"] and not r["raised"]),
        "C10.names_exist": ex_counts["placed"] + ex_counts["profile_decision"],
        "C10.strategy_of_task": ex_counts["placed"] - ex_counts["no_strategy"],
        "C10.time_not_past": ex_counts["placed"],
        "C10.time_not_before_release": ex_counts["placed"],
        "C10.capacity": ex_counts["placed"],
        "C10.capacity(with running tasks)": sum(1 for rid, ex in exercised.items() if "placed" in ex and "running" in ex),
        "C10.capacity(with kept plans)": sum(1 for rid, ex in exercised.items() if "placed" in ex and "kept_plan" in ex),
        "C10.capacity(exists assignment)": ex_counts["pool_chosen_worker"],
        "C10.capacity(worker filled exactly)": ex_counts["worker_filled"],
        "C10.capacity(beside a running task past its deadline)": ex_counts["placed_beside_overrun"],
        "C10.capacity(with held profiles / loads)": sum(1 for rid, ex in exercised.items() if "held_profile_resources" in ex or "load" in ex),
        "C10.capacity(batch joined)": ex_counts["batch_joined"],
        "C10.only_offered(preemptive: running task answered)": ex_counts["running_redecided"],
        "C10.one_per_task(later invocation of the same policy object)": sum(1 for ex in exercised.values() if "later_invocation" in ex and "decided" in ex),
        "C10.one_per_task(waiting request answered)": ex_counts["waiting_placed"] + ex_counts["waiting_cancelled"],
        "C10.one_per_task(waiting request answered at zero slack of its fastest strategy)":
            ex_counts["waiting_zero_slack_fastest_placed"] + ex_counts["waiting_zero_slack_fastest_cancelled"],
        "C10.one_per_task(waiting request answered one instant before / after)":
            ex_counts["waiting_slack_plus1_fastest_placed"] + ex_counts["waiting_slack_minus1_fastest_cancelled"],
        "C10.side_effect_free": len(records),
    }
    res.extra.update(
        {
            "records": len(records),
            "records_by_policy": dict(sorted(per_policy.items())),
            "records_by_part_and_policy": dict(sorted(per_part.items())),
            "records_raised": sum(1 for r in records if r["raised"]),
            "clause_exercised": clause_ex,
            "exercised_features": dict(sorted(ex_counts.items())),
            "exercised_features_by_policy": {p: dict(sorted(c.items())) for p, c in sorted(ex_by_policy.items())},
            # the classes of reachable states (Decision!Exercised) met by the direct calls, per policy+variant
            "state_classes": state_classes(records, exercised),
            "staged_worlds": sum(1 for w in prefixes if w.get("staged")),
            # part (h): one policy object over many invocations, waiting requests at the policy's boundary instants
            "history_worlds": sum(1 for w in sims if str(w.get("family", "")).startswith("hist")),
            "history_classes": history_report(records, exercised, sims),
            "failing_records_by_key": {k: len(v) for k, v in sorted(by_key.items())},
            "side_clause_notes": dict(collections.Counter(f"{by_id[s['id']]['policy']}:{s['clause']}" for s in sides if s["id"] in by_id)),
            "licence_and_timeout_skips": dict(skips),
            "sim_worlds": len(sims),
            "sim_ends": dict(sorted(sim_ends.items())),
            "prefix_worlds": len(prefixes),
            "prefix_ends": dict(sorted(prefix_ends.items())),
            "prefix_states": states[:6],
            "states_corrupted_by_a_policy": corrupted[:10],
            "canaries": canary_report,
            "record_batches": [{"batch": n, "records": j["n"], "tlc_wall_s": j["wall_s"]} for (_, b, n), j in zip(jobs, judged)],
            "wall": {"worlds_s": round(t_worlds, 1), "tlc_s": round(t_tlc, 1),
                     "slowest_worlds_s": sorted((o.get("wall_s", 0) for o in outs), reverse=True)[:8]},
            "policy_call_ms": {p: int(sum(r["src"]["wall_ms"] for r in records if r["policy"] == p) / max(1, per_policy[p])) for p in per_policy},
        }
    )
    for s in sides[:5]:
        res.notes.append(f"spec.resync {s['clause']}: record {s['id']} ({by_id[s['id']]['policy']}) offenders {s['offenders']}")
    # samples: a few judged records of different policies
    seen = set()
    for r in records:
        ex = exercised.get(r["id"], [])
        if r["policy"] not in seen and "placed" in ex and len(res.samples) < 6:
            seen.add(r["policy"])
            res.samples.append({"record": slim(r), "exercised": ex, "failing": sorted({f["clause"] for f in fails if f["id"] == r["id"]})})
    return res


def replay(d):
    """re-run the source world of a stored counterexample against the repo and judge its records again"""
    os.environ[GUARD] = "1"
    det = d["detail"]
    src, world = det["source"], det["world"]
    out = run_sim_world(world, src["widx"]) if src["part"] == "sim" else run_prefix_world(world, src["widx"], src.get("tier", "quick"))
    recs = out["records"]
    for i, r in enumerate(recs, start=1):
        r["id"] = i
    if not recs:
        print(f"replay: no record was made ({out['end']})")
        return 2
    j = judge_batch(recs, "replay")
    keys = sorted({finding_key(recs[f["id"] - 1], f) for f in j["fails"]})
    print(f"replay: {len(recs)} records, failing keys: {keys}")
    return 1 if d["key"] in keys else 0


if __name__ == "__main__":
    import sys

    if sys.argv[1:] == ["corpus"]:
        with open(CORPUS, "w") as f:
            json.dump({t: gen_fixed_corpus(t) for t in ("quick", "thorough")}, f, indent=0, sort_keys=True)
        print(f"wrote {CORPUS}")
