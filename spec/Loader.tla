------------------------------- MODULE Loader -------------------------------
(* C19 -- workload / cluster descriptions are instantiated faithfully.        *)
(*                                                                             *)
(* data/workload_loader.py, data/worker_loader.py, workload/jobs.py           *)
(* (ReleasePolicy.get_release_times, generate_task_graphs,                    *)
(* _generate_task_graph, get_next_task_graph), workload/workload.py           *)
(* (notify_task_graph_completion), utils.py (EventTime.fuzz).                 *)
(*                                                                             *)
(* A *record* pairs an abstract description (what the YAML / JSON file says)   *)
(* with the projection of the objects the real loader produced from that      *)
(* file.  The operators below decide, clause by clause, whether the objects    *)
(* are the described ones.  Everything is integer-only: probabilities, rates   *)
(* and coefficients are in parts per million, times in microseconds,           *)
(* Absent (-1) stands for "key not present in the file".                       *)
(*                                                                             *)
(*   workload record  [id, kind |-> "workload", desc, objs]                    *)
(*     desc = [profiles : Seq([name, exec : Seq(S), load : Seq(S)]),           *)
(*             graphs   : Seq([name, nodes : Seq([name, profile, children,     *)
(*                              conditional, terminal, prob, slo]),            *)
(*                             policy, start, period, invocations, rate,       *)
(*                             coefficient, concurrency, variance]),           *)
(*             flags    : [present, ov_period, ov_n, ov_rate, ov_coef, ov_slo, *)
(*                         unique, repl, timeout, min_deadline, max_deadline]] *)
(*     S    = [res : Seq([name, id, q]), batch, runtime]                       *)
(*     objs = [loaded, error,                                                  *)
(*             jobgraphs  : Seq([name, key, nodes : Seq([name, children,       *)
(*                                conditional, terminal, prob, slo,            *)
(*                                profile : [name, id, exec, load]]), policy]),*)
(*             taskgraphs : Seq(TG),          \* after populate_task_graphs    *)
(*             looped, events : Seq([jg, done, finish, has_new, extra,         *)
(*                                   new : TG]),  \* one per completion notified *)
(*             loops : Seq([jg, capped])]   \* capped: harness gave up draining *)
(*     TG   = [name, jg, release, tasks : Seq([name, id, children, release,    *)
(*                              deadline, timestamp, tg, job, job_same,        *)
(*                              profile_id])]                                  *)
(*   cluster record   [id, kind |-> "cluster", desc, objs]                     *)
(*     desc = [pools : Seq([name, workers : Seq([name, resources :             *)
(*                              Seq([name, id, q])])])]      id "" = no id     *)
(*     objs = [loaded, error, pools : same shape with the loaded ids]          *)
(*                                                                             *)
(* Conventions the property statement is silent about and the pinned code      *)
(* fixes are fields of the constant Conv (DESIGN section 7), so that a mutant  *)
(* changing one is still caught while the pinned tree is not accused:          *)
(*   defaultBatch 1, defaultRuntime 0, defaultProb 10^6, defaultStart 0        *)
(*   overrideNPolicies  policies whose N obeys --override_num_invocation       *)
(*   uniqueShares       --unique_work_profiles = one WorkProfile object shared *)
(*                      by all JobGraphs (its flag text), otherwise one copy   *)
(*                      per JobGraph; copies may be renamed <name>_<k>         *)
(*   maxCopy            largest k accepted in a copy suffix                    *)
(* Deadline bounds clamp the *added slack* (EventTime.fuzz), not the deadline. *)
EXTENDS Integers, Sequences, FiniteSets, TLC

CONSTANTS Conv,        \* record of conventions, see above
          LoopMaxC,    \* closed-loop model: concurrency in 1..LoopMaxC
          LoopMaxN     \* closed-loop model: invocations in 1..LoopMaxN

VARIABLE st            \* the single state variable of both sub-specs below

Absent == -1

-----------------------------------------------------------------------------
(* generic helpers *)
Range(s)    == {s[i] : i \in DOMAIN s}
Max2(a, b)  == IF a >= b THEN a ELSE b
Min2(a, b)  == IF a <= b THEN a ELSE b
Abs(a)      == IF a < 0 THEN -a ELSE a
SetMax(S)   == CHOOSE x \in S : \A y \in S : y <= x
NoDup(s)    == Cardinality(Range(s)) = Len(s)
Names(s)    == {s[i].name : i \in DOMAIN s}
NameSeq(s)  == [i \in DOMAIN s |-> s[i].name]
Has(s, n)   == \E i \in DOMAIN s : s[i].name = n
ByName(s, n) == s[CHOOSE i \in DOMAIN s : s[i].name = n]
RECURSIVE SumTo(_, _)
SumTo(f, n) == IF n = 0 THEN 0 ELSE f[n] + SumTo(f, n - 1)
RECURSIVE Join(_)
Join(s) == IF Len(s) = 0 THEN "" ELSE IF Len(s) = 1 THEN s[1] ELSE s[1] \o "," \o Join(Tail(s))
B2S(b) == IF b THEN "T" ELSE "F"

-----------------------------------------------------------------------------
(* 1. Release policies                                                       *)
(*    policy = [type, start, period, n, rate, coef, conc]                    *)

FixedSeq(s, p, n)       == [i \in 1..n |-> s + (i - 1) * p]
PeriodicCount(s, p, h)  == IF h <= s THEN 0 ELSE ((h - s - 1) \div p) + 1
PeriodicSeq(s, p, h)    == [i \in 1..PeriodicCount(s, p, h) |-> s + (i - 1) * p]
NonDecreasing(r)        == \A i \in 1..(Len(r) - 1) : r[i] <= r[i + 1]
SameSeq(r, f, n)        == Len(r) = n /\ \A i \in 1..n : r[i] = f[i]

\* the releases `rel` (in invocation order) are the ones `p` declares up to horizon h
ReleasesOK(p, rel, h) ==
    CASE p.type = "fixed"       -> p.n >= 0 /\ SameSeq(rel, FixedSeq(p.start, p.period, p.n), p.n)
      [] p.type = "periodic"    -> /\ p.period > 0 /\ h # Absent
                                   /\ SameSeq(rel, PeriodicSeq(p.start, p.period, h),
                                              PeriodicCount(p.start, p.period, h))
      [] p.type \in {"poisson", "gamma"}
                                -> /\ Len(rel) = p.n /\ NonDecreasing(rel)
                                   /\ (p.n > 0 => rel[1] = p.start)
      [] p.type = "closed_loop" -> /\ Len(rel) = Min2(p.conc, p.n)
                                   /\ \A i \in DOMAIN rel : rel[i] = p.start
      [] OTHER                  -> FALSE

\* second, operational definitions (cross-checked against the closed forms by TLC)
RECURSIVE FixedIter(_, _, _)
FixedIter(s, p, n)    == IF n <= 0 THEN <<>> ELSE <<s>> \o FixedIter(s + p, p, n - 1)
RECURSIVE PeriodicIter(_, _, _)
PeriodicIter(s, p, h) == IF s >= h THEN <<>> ELSE <<s>> \o PeriodicIter(s + p, p, h)
PeriodicSet(s, p, h)  == {t \in s..(h - 1) : (t - s) % p = 0}

Pol(ty, s, p, n, c) == [type |-> ty, start |-> s, period |-> p, n |-> n, rate |-> Absent,
                        coef |-> Absent, conc |-> c]

DefsAgree(S, P, NN, H) ==
    \A s \in S, p \in P, n \in NN, h \in H :
        LET fx == FixedIter(s, p, n)
            pe == PeriodicIter(s, p, h)
        IN  /\ SameSeq(fx, FixedSeq(s, p, n), n)
            /\ ReleasesOK(Pol("fixed", s, p, n, Absent), fx, h)
            /\ ~ReleasesOK(Pol("fixed", s, p, n, Absent), Append(fx, s + n * p), h)
            /\ (n > 0 => ~ReleasesOK(Pol("fixed", s, p, n, Absent), Tail(fx), h))
            /\ (n > 1 => ~ReleasesOK(Pol("fixed", s, p, n, Absent),
                                     [fx EXCEPT ![n] = @ + 1], h))
            /\ (p > 0 =>
                  /\ Range(pe) = PeriodicSet(s, p, h) /\ NoDup(pe) /\ NonDecreasing(pe)
                  /\ Len(pe) = PeriodicCount(s, p, h)
                  /\ ReleasesOK(Pol("periodic", s, p, Absent, Absent), pe, h)
                  /\ ~ReleasesOK(Pol("periodic", s, p, Absent, Absent),
                                 Append(pe, s + Len(pe) * p), h)
                  /\ (Len(pe) > 0 => ~ReleasesOK(Pol("periodic", s, p, Absent, Absent),
                                                 SubSeq(pe, 1, Len(pe) - 1), h)))
            /\ (n > 0 /\ p > 0 =>      \* closed loop: c = p, initial burst
                  /\ ReleasesOK(Pol("closed_loop", s, Absent, n, p),
                                [i \in 1..Min2(p, n) |-> s], h)
                  /\ ~ReleasesOK(Pol("closed_loop", s, Absent, n, p),
                                 [i \in 1..(Min2(p, n) + 1) |-> s], h))

-----------------------------------------------------------------------------
(* 2. Deadline stretch (utils.EventTime.fuzz)                                *)
(*                                                                           *)
(*   fuzz(variance=(lo,hi), bounds=(mn,mx)) on time CP returns               *)
(*       round(CP + max(mn, min(mx, u))),  u uniform between CP*|lo|/100     *)
(*       and CP*|hi|/100.                                                    *)
(*   With A = min(|lo|,|hi|), B = max(|lo|,|hi|), clamp(x) = max(mn,min(mx,x)) *)
(*   monotone and continuous, the reachable slacks are exactly the reals in  *)
(*   [clamp(CP*A/100), clamp(CP*B/100)], and an integer k = d - r - CP is a  *)
(*   rounding of one of them iff [k-1/2, k+1/2] meets that interval (both    *)
(*   roundings are accepted at an exact tie).  Multiplying by 100:           *)
(*       100k - 50 <= clamp100(CP*B)  /\  clamp100(CP*A) <= 100k + 50        *)
(*   where clamp100(x) = max(100mn, min(100mx, x)).  Because all end points  *)
(*   are multiples of 1/100, this is equivalent to the existence of a slack  *)
(*   in hundredths (StretchDef) -- TLC cross-checks the two (StretchAgree).  *)
(*   bnd = <<mn, mx>>, mx = Absent means unbounded (sys.maxsize).            *)

Clamp100(x, bnd) ==
    LET y == IF bnd[2] = Absent THEN x ELSE Min2(x, 100 * bnd[2])
    IN  Max2(100 * bnd[1], y)
VarA(var) == Min2(Abs(var[1]), Abs(var[2]))
VarB(var) == Max2(Abs(var[1]), Abs(var[2]))

StretchOK(cp, k, var, bnd) ==
    /\ 100 * k - 50 <= Clamp100(cp * VarB(var), bnd)
    /\ Clamp100(cp * VarA(var), bnd) <= 100 * k + 50

StretchDef(cp, k, var, bnd) ==
    \E u \in (cp * VarA(var))..(cp * VarB(var)) :
        LET f == Clamp100(u, bnd) IN 100 * k - 50 <= f /\ f <= 100 * k + 50

StretchAgree(CPs, Ks, Vs, Bs) ==
    \A cp \in CPs, k \in Ks, v \in Vs, b \in Bs :
        StretchOK(cp, k, v, b) <=> StretchDef(cp, k, v, b)

-----------------------------------------------------------------------------
(* 3. Critical path of a loaded job graph (JobGraph.__get_completion_time):  *)
(*    a source-to-sink path of maximum weight, weight = runtime of the       *)
(*    slowest strategy (0 for a node of probability 0); its time is the sum  *)
(*    over the path of the node's SLO when it has one, else of that runtime. *)
(*    Ties between maximum-weight paths are left open (any of them).         *)

Runtimes(node) == {node.profile.exec[i].runtime : i \in DOMAIN node.profile.exec}
Slowest(node)  == SetMax(Runtimes(node))
Weight(node)   == IF node.prob > 0 THEN Slowest(node) ELSE 0
NodeTime(node) == IF node.slo # Absent THEN node.slo ELSE Slowest(node)
ChildNames(nodes) == UNION {Range(nodes[i].children) : i \in DOMAIN nodes}
Sources(nodes) == Names(nodes) \ ChildNames(nodes)
WellFormed(jg) == /\ NoDup(NameSeq(jg.nodes)) /\ Len(jg.nodes) > 0
                  /\ ChildNames(jg.nodes) \subseteq Names(jg.nodes)
                  /\ \A i \in DOMAIN jg.nodes : Len(jg.nodes[i].profile.exec) > 0
                  /\ Sources(jg.nodes) # {}
RECURSIVE PathsFrom(_, _, _)
PathsFrom(nodes, nm, fuel) ==           \* fuel bounds the recursion on a cyclic input
    LET n == ByName(nodes, nm)
    IN  IF n.children = <<>> \/ fuel = 0 THEN {<<nm>>}
        ELSE UNION {{<<nm>> \o q : q \in PathsFrom(nodes, c, fuel - 1)} : c \in Range(n.children)}
Paths(nodes)    == UNION {PathsFrom(nodes, s, Len(nodes)) : s \in Sources(nodes)}
PathW(nodes, q) == SumTo([i \in DOMAIN q |-> Weight(ByName(nodes, q[i]))], Len(q))
PathT(nodes, q) == SumTo([i \in DOMAIN q |-> NodeTime(ByName(nodes, q[i]))], Len(q))
CPSet(jg) ==
    LET P == Paths(jg.nodes)
        W == SetMax({PathW(jg.nodes, q) : q \in P})
    IN  {PathT(jg.nodes, q) : q \in {x \in P : PathW(jg.nodes, x) = W}}

\* every task of the invocation has deadline = release + round(CP * (1 + v/100)), clamped
DeadlineOK(jg, var, bnd, tg) ==
    /\ WellFormed(jg)
    /\ LET cps == CPSet(jg)
       IN  \A i \in DOMAIN tg.tasks :
              \E cp \in cps : StretchOK(cp, tg.tasks[i].deadline - tg.release - cp, var, bnd)

-----------------------------------------------------------------------------
(* 4. The effective description (file + flags)                               *)

Flagged(d)   == d.flags.present
Ov(d, f)     == Flagged(d) /\ d.flags[f] > 0
Repl(d)      == IF Flagged(d) /\ d.flags.repl > 1 THEN d.flags.repl ELSE 1
Replicated(d) == Repl(d) > 1
ExpNamesOf(d, g) == IF Replicated(d) THEN {g.name \o "_" \o ToString(i) : i \in 1..Repl(d)}
                    ELSE {g.name}
ExpJG(d)     == UNION {{[g |-> d.graphs[k], name |-> nm] : nm \in ExpNamesOf(d, d.graphs[k])}
                       : k \in DOMAIN d.graphs}
ExpNames(d)  == {x.name : x \in ExpJG(d)}
Pairs(d, o)  == {x \in ExpJG(d) : Has(o.jobgraphs, x.name)}
Obs(o, nm)   == ByName(o.jobgraphs, nm)
\* (described node, loaded node) pairs of all matched graphs
NodePairs(d, o) ==
    UNION {{[jg |-> x.name, n |-> x.g.nodes[i], m |-> ByName(Obs(o, x.name).nodes, x.g.nodes[i].name)]
            : i \in {j \in DOMAIN x.g.nodes : Has(Obs(o, x.name).nodes, x.g.nodes[j].name)}}
           : x \in Pairs(d, o)}

EffProb(n)    == IF n.prob = Absent THEN Conv.defaultProb ELSE n.prob
EffSlo(d, n)  == IF Ov(d, "ov_slo") THEN d.flags.ov_slo ELSE n.slo
EffVar(g)     == IF Len(g.variance) = 0 THEN <<0, 0>> ELSE g.variance
EffBounds(d)  == IF Flagged(d) THEN <<d.flags.min_deadline, d.flags.max_deadline>> ELSE <<0, Absent>>
Horizon(d)    == IF Flagged(d) THEN d.flags.timeout ELSE Absent
EffStrat(s)   == [batch   |-> IF s.batch = Absent THEN Conv.defaultBatch ELSE s.batch,
                  runtime |-> IF s.runtime = Absent THEN Conv.defaultRuntime ELSE s.runtime]
ResSet(s)     == {<<s.res[i].name, s.res[i].id, s.res[i].q>> : i \in DOMAIN s.res}

EffPolicy(d, g) ==
    LET ty == g.policy IN
    [type   |-> ty,
     start  |-> IF g.start = Absent THEN Conv.defaultStart ELSE g.start,
     period |-> IF ty \in {"fixed", "periodic"}
                THEN (IF Ov(d, "ov_period") THEN d.flags.ov_period ELSE g.period) ELSE Absent,
     n      |-> IF ty = "periodic" THEN Absent
                ELSE IF Ov(d, "ov_n") /\ ty \in Conv.overrideNPolicies THEN d.flags.ov_n
                ELSE g.invocations,
     rate   |-> IF ty \in {"poisson", "gamma"}
                THEN (IF Ov(d, "ov_rate") THEN d.flags.ov_rate ELSE g.rate) ELSE Absent,
     coef   |-> IF ty = "gamma"
                THEN (IF Ov(d, "ov_coef") THEN d.flags.ov_coef ELSE g.coefficient) ELSE Absent,
     conc   |-> IF ty = "closed_loop" THEN g.concurrency ELSE Absent]

\* which override governs which policy field
OvPeriodOn(d, g) == Ov(d, "ov_period") /\ g.policy \in {"fixed", "periodic"}
OvNOn(d, g)      == Ov(d, "ov_n") /\ g.policy \in Conv.overrideNPolicies
OvRateOn(d, g)   == Ov(d, "ov_rate") /\ g.policy \in {"poisson", "gamma"}
OvCoefOn(d, g)   == Ov(d, "ov_coef") /\ g.policy = "gamma"

-----------------------------------------------------------------------------
(* 5. Faithful(desc, objs): clause by clause                                 *)

GraphIso(d, o) ==
    /\ NoDup(NameSeq(o.jobgraphs))
    /\ (~Replicated(d) => Names(o.jobgraphs) = ExpNames(d))
    /\ \A x \in Pairs(d, o) :
          LET j == Obs(o, x.name) IN
          /\ j.key = x.name
          /\ NoDup(NameSeq(j.nodes)) /\ Names(j.nodes) = Names(x.g.nodes)
    /\ \A np \in NodePairs(d, o) : np.m.children = np.n.children     \* ordered

ReplicationOK(d, o) ==
    /\ Names(o.jobgraphs) = ExpNames(d)
    /\ Len(o.jobgraphs) = Repl(d) * Len(d.graphs)

AttrMismatch(d, np) ==      \* names of the per-node attributes that differ
    (IF np.m.conditional # np.n.conditional THEN {"conditional"} ELSE {})
    \cup (IF np.m.terminal # np.n.terminal THEN {"terminal"} ELSE {})
    \cup (IF np.m.prob # EffProb(np.n) THEN {"probability"} ELSE {})
    \cup (IF ~Ov(d, "ov_slo") /\ np.m.slo # np.n.slo THEN {"slo"} ELSE {})
NodeAttrs(d, o)  == \A np \in NodePairs(d, o) : AttrMismatch(d, np) = {}
OverrideSlo(d, o) == \A np \in NodePairs(d, o) : np.m.slo = d.flags.ov_slo

ProfileNameOK(dn, on) ==
    \/ on = dn
    \/ \E k \in 1..Conv.maxCopy : on = dn \o "_" \o ToString(k)
SharedAcross(d) == Conv.uniqueShares /\ Flagged(d) /\ d.flags.unique
ProfileOK(d, o) ==
    LET NP == NodePairs(d, o) IN
    /\ \A np \in NP : ProfileNameOK(np.n.profile, np.m.profile.name)
    /\ \A a, b \in NP :
          (a.m.profile.id = b.m.profile.id) <=>
              /\ a.n.profile = b.n.profile
              /\ (a.jg = b.jg \/ SharedAcross(d))

StratSeqOK(ds, os) ==
    /\ Len(os) = Len(ds)
    /\ \A i \in DOMAIN ds : os[i].batch = EffStrat(ds[i]).batch /\ os[i].runtime = EffStrat(ds[i]).runtime
ResSeqOK(ds, os) ==
    \A i \in DOMAIN ds : i \in DOMAIN os =>
        /\ ResSet(os[i]) = ResSet(ds[i]) /\ Len(os[i].res) = Len(ds[i].res)
DescProfile(d, np) == ByName(d.profiles, np.n.profile)
StrategyOK(d, o) ==
    \A np \in NodePairs(d, o) :
        /\ StratSeqOK(DescProfile(d, np).exec, np.m.profile.exec)
        /\ StratSeqOK(DescProfile(d, np).load, np.m.profile.load)
ResourcesOK(d, o) ==
    \A np \in NodePairs(d, o) :
        /\ ResSeqOK(DescProfile(d, np).exec, np.m.profile.exec)
        /\ ResSeqOK(DescProfile(d, np).load, np.m.profile.load)

\* policy parameters not governed by an active override equal the declared ones
PolicyParams(d, o) ==
    \A x \in Pairs(d, o) :
        LET e == EffPolicy(d, x.g)  p == Obs(o, x.name).policy IN
        /\ p.type = e.type /\ p.start = e.start /\ p.conc = e.conc
        /\ (~OvPeriodOn(d, x.g) => p.period = e.period)
        /\ (~OvNOn(d, x.g) => p.n = e.n)
        /\ (~OvRateOn(d, x.g) => p.rate = e.rate)
        /\ (~OvCoefOn(d, x.g) => p.coef = e.coef)
OverrideHolds(d, o, On(_, _), f) ==
    \A x \in Pairs(d, o) : On(d, x.g) => Obs(o, x.name).policy[f] = EffPolicy(d, x.g)[f]
OverrideUsed(d, On(_, _)) == \E k \in DOMAIN d.graphs : On(d, d.graphs[k])

Faithful(d, o) ==
    /\ GraphIso(d, o) /\ (Replicated(d) => ReplicationOK(d, o))
    /\ NodeAttrs(d, o) /\ (Ov(d, "ov_slo") => OverrideSlo(d, o))
    /\ ProfileOK(d, o) /\ StrategyOK(d, o) /\ ResourcesOK(d, o) /\ PolicyParams(d, o)

-----------------------------------------------------------------------------
(* 6. Invocations: releases, fresh copies, deadlines, closed loop            *)

InitialTGs(o, nm) == SelectSeq(o.taskgraphs, LAMBDA t : t.jg = nm)
EventsOf(o, nm)   == SelectSeq(o.events, LAMBDA e : e.jg = nm)
Refills(o, nm)    == SelectSeq(EventsOf(o, nm), LAMBDA e : e.has_new)
NewTGs(o, nm)     == [i \in DOMAIN Refills(o, nm) |-> Refills(o, nm)[i].new]
AllTGs(o, nm)     == InitialTGs(o, nm) \o NewTGs(o, nm)
RelSeq(tgs)       == [i \in DOMAIN tgs |-> tgs[i].release]
GraphsOfType(d, T) == {x \in ExpJG(d) : x.g.policy \in T}

ReleaseClause(d, o, T) ==
    \A x \in GraphsOfType(d, T) :
        /\ ReleasesOK(EffPolicy(d, x.g), RelSeq(InitialTGs(o, x.name)), Horizon(d))
        /\ ("closed_loop" \notin T => Len(Refills(o, x.name)) = 0)   \* a completion releases nothing

\* number of graphs in flight after the first k completion events of job graph nm
InFlightAfter(o, nm, k) ==
    Len(InitialTGs(o, nm)) + Cardinality({i \in 1..k : EventsOf(o, nm)[i].has_new}) - k
ClosedLoopInFlight(d, o) ==
    \A x \in GraphsOfType(d, {"closed_loop"}) :
        /\ \A k \in DOMAIN EventsOf(o, x.name) : EventsOf(o, x.name)[k].extra = 0   \* at most one per completion
        /\ \A k \in 0..Len(EventsOf(o, x.name)) :
            /\ InFlightAfter(o, x.name, k) >= 0
            /\ InFlightAfter(o, x.name, k) <= EffPolicy(d, x.g).conc
ClosedLoopTotal(d, o) ==
    \A x \in GraphsOfType(d, {"closed_loop"}) :
        /\ \A i \in DOMAIN o.loops : o.loops[i].jg = x.name => ~o.loops[i].capped
        /\ Len(AllTGs(o, x.name)) = EffPolicy(d, x.g).n
        /\ InFlightAfter(o, x.name, Len(EventsOf(o, x.name))) = 0

FreshOne(jg, tg, idx) ==
    /\ tg.name = jg.name \o "@" \o ToString(idx)
    /\ NoDup(NameSeq(tg.tasks)) /\ Names(tg.tasks) = Names(jg.nodes)
    /\ \A i \in DOMAIN tg.tasks :
          LET t == tg.tasks[i] IN
          /\ t.timestamp = idx /\ t.tg = tg.name /\ t.job = t.name /\ t.job_same
          /\ Has(jg.nodes, t.name)
          /\ t.children = ByName(jg.nodes, t.name).children
          /\ t.profile_id = ByName(jg.nodes, t.name).profile.id
          /\ (t.name \in Sources(tg.tasks) => t.release = tg.release)
AllInvocations(o) ==
    LET rf == SelectSeq(o.events, LAMBDA e : e.has_new)
    IN  o.taskgraphs \o [i \in DOMAIN rf |-> rf[i].new]
\* no task object is shared between invocations or reused: as many ids as tasks
DistinctTasks(o) ==
    LET tgs == AllInvocations(o)
        Pos == UNION {{<<i, k>> : k \in DOMAIN tgs[i].tasks} : i \in DOMAIN tgs}
        Ids == {tgs[x[1]].tasks[x[2]].id : x \in Pos}
    IN  Cardinality(Ids) = Cardinality(Pos)
FreshCopies(o) ==
    /\ DistinctTasks(o)
    /\ \A j \in DOMAIN o.jobgraphs :
          LET jg == o.jobgraphs[j]  tgs == AllTGs(o, jg.name) IN
          \A i \in DOMAIN tgs : FreshOne(jg, tgs[i], i - 1)
    /\ \A i \in DOMAIN o.taskgraphs : Has(o.jobgraphs, o.taskgraphs[i].jg)

Deadlines(d, o) ==
    \A x \in Pairs(d, o) :
        LET jg == Obs(o, x.name)  tgs == AllTGs(o, x.name) IN
        \A i \in DOMAIN tgs : DeadlineOK(jg, EffVar(x.g), EffBounds(d), tgs[i])

-----------------------------------------------------------------------------
(* 7. Cluster descriptions                                                   *)

WResOK(dr, or) ==          \* resources of one worker: same multiset of (name, id, q)
    /\ Len(or) = Len(dr)
    /\ \A i \in DOMAIN dr : i \in DOMAIN or =>
          /\ or[i].name = dr[i].name /\ or[i].q = dr[i].q
          /\ (dr[i].id # "" => or[i].id = dr[i].id)
          /\ (dr[i].id = "" => or[i].id # "")
WorkersOK(d, o) ==
    /\ Len(o.pools) = Len(d.pools)
    /\ \A p \in DOMAIN d.pools : p \in DOMAIN o.pools =>
          /\ o.pools[p].name = d.pools[p].name
          /\ Len(o.pools[p].workers) = Len(d.pools[p].workers)
          /\ \A w \in DOMAIN d.pools[p].workers : w \in DOMAIN o.pools[p].workers =>
                /\ o.pools[p].workers[w].name = d.pools[p].workers[w].name
                /\ WResOK(d.pools[p].workers[w].resources, o.pools[p].workers[w].resources)

-----------------------------------------------------------------------------
(* 8. Clause table                                                           *)

AllClauses == << "C19.load", "C19.graph_iso", "C19.replication", "C19.node_attrs", "C19.profile",
                 "C19.strategy", "C19.resources", "C19.policy_params",
                 "C19.override_slo", "C19.override_arrival_period", "C19.override_num_invocation",
                 "C19.override_poisson_arrival_rate", "C19.override_gamma_coefficient",
                 "C19.release_fixed", "C19.release_periodic", "C19.release_poisson",
                 "C19.release_gamma", "C19.closed_loop_initial", "C19.closed_loop_inflight",
                 "C19.closed_loop_total", "C19.fresh_copy", "C19.deadline", "C19.workers" >>

HasType(d, ty) == \E k \in DOMAIN d.graphs : d.graphs[k].policy = ty

Exercised(rec, c) ==
    LET d == rec.desc  o == rec.objs IN
    IF c = "C19.load" THEN TRUE
    ELSE IF ~o.loaded THEN FALSE
    ELSE IF rec.kind = "cluster" THEN c = "C19.workers"
    ELSE CASE c = "C19.workers" -> FALSE
           [] c = "C19.replication" -> Replicated(d)
           [] c = "C19.override_slo" -> Ov(d, "ov_slo")
           [] c = "C19.override_arrival_period" -> OverrideUsed(d, OvPeriodOn)
           [] c = "C19.override_num_invocation" -> OverrideUsed(d, OvNOn)
           [] c = "C19.override_poisson_arrival_rate" -> OverrideUsed(d, OvRateOn)
           [] c = "C19.override_gamma_coefficient" -> OverrideUsed(d, OvCoefOn)
           [] c = "C19.release_fixed" -> HasType(d, "fixed")
           [] c = "C19.release_periodic" -> HasType(d, "periodic")
           [] c = "C19.release_poisson" -> HasType(d, "poisson")
           [] c = "C19.release_gamma" -> HasType(d, "gamma")
           [] c = "C19.closed_loop_initial" -> HasType(d, "closed_loop")
           [] c \in {"C19.closed_loop_inflight", "C19.closed_loop_total"}
                 -> HasType(d, "closed_loop") /\ o.looped
           [] OTHER -> TRUE

Holds(rec, c) ==
    LET d == rec.desc  o == rec.objs IN
    CASE c = "C19.load" -> o.loaded
      [] c = "C19.workers" -> WorkersOK(d, o)
      [] c = "C19.graph_iso" -> GraphIso(d, o)
      [] c = "C19.replication" -> ReplicationOK(d, o)
      [] c = "C19.node_attrs" -> NodeAttrs(d, o)
      [] c = "C19.profile" -> ProfileOK(d, o)
      [] c = "C19.strategy" -> StrategyOK(d, o)
      [] c = "C19.resources" -> ResourcesOK(d, o)
      [] c = "C19.policy_params" -> PolicyParams(d, o)
      [] c = "C19.override_slo" -> OverrideSlo(d, o)
      [] c = "C19.override_arrival_period" -> OverrideHolds(d, o, OvPeriodOn, "period")
      [] c = "C19.override_num_invocation" -> OverrideHolds(d, o, OvNOn, "n")
      [] c = "C19.override_poisson_arrival_rate" -> OverrideHolds(d, o, OvRateOn, "rate")
      [] c = "C19.override_gamma_coefficient" -> OverrideHolds(d, o, OvCoefOn, "coef")
      [] c = "C19.release_fixed" -> ReleaseClause(d, o, {"fixed"})
      [] c = "C19.release_periodic" -> ReleaseClause(d, o, {"periodic"})
      [] c = "C19.release_poisson" -> ReleaseClause(d, o, {"poisson"})
      [] c = "C19.release_gamma" -> ReleaseClause(d, o, {"gamma"})
      [] c = "C19.closed_loop_initial" -> ReleaseClause(d, o, {"closed_loop"})
      [] c = "C19.closed_loop_inflight" -> ClosedLoopInFlight(d, o)
      [] c = "C19.closed_loop_total" -> ClosedLoopTotal(d, o)
      [] c = "C19.fresh_copy" -> FreshCopies(o)
      [] c = "C19.deadline" -> Deadlines(d, o)
      [] OTHER -> FALSE

\* a short class of the failing input, part of the finding key
SloClass(jg) ==
    LET S == {jg.nodes[i].slo : i \in DOMAIN jg.nodes} IN
    IF S = {Absent} THEN "slo_none" ELSE IF Cardinality(S) = 1 THEN "slo_uniform" ELSE "slo_mixed"
Kind(rec, c) ==
    LET d == rec.desc  o == rec.objs IN
    CASE c = "C19.node_attrs" ->
            LET M == UNION {AttrMismatch(d, np) : np \in NodePairs(d, o)} IN
            Join(SelectSeq(<<"conditional", "terminal", "probability", "slo">>, LAMBDA f : f \in M))
      [] c = "C19.deadline" ->
            LET bad == {x \in Pairs(d, o) :
                          \E i \in DOMAIN AllTGs(o, x.name) :
                             ~DeadlineOK(Obs(o, x.name), EffVar(x.g), EffBounds(d), AllTGs(o, x.name)[i])}
                C == {SloClass(Obs(o, x.name)) : x \in bad}
            IN  Join(SelectSeq(<<"slo_none", "slo_uniform", "slo_mixed">>, LAMBDA f : f \in C))
      [] OTHER -> ""

\* expected / got material for the report (strings and integers only)
Witness(rec, c) ==
    LET d == rec.desc  o == rec.objs IN
    CASE c = "C19.load" -> <<o.error>>
      [] c = "C19.node_attrs" ->
            <<{<<np.jg, np.n.name, "slo", np.n.slo, np.m.slo>> :
                  np \in {q \in NodePairs(d, o) : "slo" \in AttrMismatch(d, q)}},
              {<<np.jg, np.n.name, "probability", EffProb(np.n), np.m.prob>> :
                  np \in {q \in NodePairs(d, o) : "probability" \in AttrMismatch(d, q)}},
              {<<np.jg, np.n.name, "conditional/terminal", B2S(np.n.conditional) \o B2S(np.n.terminal),
                 B2S(np.m.conditional) \o B2S(np.m.terminal)>> :
                  np \in {q \in NodePairs(d, o) : AttrMismatch(d, q) \cap {"conditional", "terminal"} # {}}}>>
      [] c \in {"C19.graph_iso", "C19.replication"} -> <<ExpNames(d), Names(o.jobgraphs)>>
      [] c \in {"C19.release_fixed", "C19.release_periodic", "C19.release_poisson",
                "C19.release_gamma", "C19.closed_loop_initial"} ->
            <<{<<x.name, EffPolicy(d, x.g), Horizon(d), RelSeq(InitialTGs(o, x.name)),
                 Len(Refills(o, x.name))>> : x \in ExpJG(d)}>>
      [] c \in {"C19.closed_loop_inflight", "C19.closed_loop_total"} ->
            <<{<<x.name, EffPolicy(d, x.g).conc, EffPolicy(d, x.g).n, Len(InitialTGs(o, x.name)),
                 [k \in 0..Len(EventsOf(o, x.name)) |-> InFlightAfter(o, x.name, k)],
                 Len(AllTGs(o, x.name))>> : x \in GraphsOfType(d, {"closed_loop"})}>>
      [] c = "C19.deadline" ->
            <<{<<x.name, IF WellFormed(Obs(o, x.name)) THEN CPSet(Obs(o, x.name)) ELSE {},
                 EffVar(x.g), EffBounds(d),
                 [i \in DOMAIN AllTGs(o, x.name) |->
                     <<AllTGs(o, x.name)[i].release,
                       {AllTGs(o, x.name)[i].tasks[k].deadline : k \in DOMAIN AllTGs(o, x.name)[i].tasks}>>]>>
               : x \in Pairs(d, o)}>>
      [] c \in {"C19.policy_params", "C19.override_arrival_period", "C19.override_num_invocation",
                "C19.override_poisson_arrival_rate", "C19.override_gamma_coefficient"} ->
            <<{<<x.name, EffPolicy(d, x.g), Obs(o, x.name).policy>> : x \in Pairs(d, o)}>>
      [] OTHER -> <<>>

\* evaluate one record: one "@@E" line with the exercised clauses, one "@@F" tuple per failure
CheckRecord(rec) ==
    LET ex    == SelectSeq(AllClauses, LAMBDA c : Exercised(rec, c))
        fails == SelectSeq(ex, LAMBDA c : ~Holds(rec, c))
    IN  /\ PrintT("@@E " \o rec.id \o " " \o Join(ex))
        /\ \A j \in DOMAIN fails :
              PrintT(<<"@@F", rec.id, fails[j], Kind(rec, fails[j]), Witness(rec, fails[j])>>)

\* batch sub-spec: st.i = number of records evaluated so far
BatchInit          == st = [mode |-> "batch", i |-> 0]
BatchNext(Records) == /\ st.i < Len(Records)
                      /\ CheckRecord(Records[st.i + 1])
                      /\ st' = [st EXCEPT !.i = @ + 1]

-----------------------------------------------------------------------------
(* 9. Closed loop as a state machine: Workload.notify_task_graph_completion  *)
(*    + JobGraph.get_next_task_graph.  generate_task_graphs releases         *)
(*    min(c, n) graphs and keeps n - that many in reserve; every completion  *)
(*    releases at most one graph from the reserve.                           *)

LoopInit ==
    \E c \in 1..LoopMaxC, n \in 1..LoopMaxN :
        st = [mode |-> "loop", c |-> c, n |-> n, released |-> Min2(c, n),
              remaining |-> n - Min2(c, n), inflight |-> Min2(c, n), done |-> 0]
CompleteRefill ==      \* a graph completes, the reserve is not empty: one new release
    /\ st.inflight > 0 /\ st.remaining > 0
    /\ st' = [st EXCEPT !.remaining = @ - 1, !.released = @ + 1, !.done = @ + 1]
CompleteDrain ==       \* a graph completes, nothing left to release
    /\ st.inflight > 0 /\ st.remaining = 0
    /\ st' = [st EXCEPT !.inflight = @ - 1, !.done = @ + 1]
LoopNext == CompleteRefill \/ CompleteDrain
LoopSpec == LoopInit /\ [][LoopNext]_st /\ WF_st(LoopNext)

C19_InFlight   == st.inflight <= st.c /\ st.inflight >= 0
C19_Total      == st.released + st.remaining = st.n /\ st.released <= st.n
C19_Accounting == st.inflight = st.released - st.done
C19_StopsAtN   == (~ENABLED LoopNext) => (st.released = st.n /\ st.inflight = 0 /\ st.done = st.n)
C19_AllReleased == <>(st.released = st.n /\ st.inflight = 0)
=============================================================================
