-------------------------------- MODULE Strl --------------------------------
(* Semantics of STRL expression DAGs (schedulers/tetrisched) over partitions   *)
(* with quantities and a unit time grid, and the checker that binds them to    *)
(* the C++ compiler: every record of a JSON batch carries a tree, the linear   *)
(* model the real `parse()` produced for it, one solution of that model and    *)
(* what the real `populateResults()` read back from it.                        *)
(*                                                                             *)
(* Part 1  semantics:  Valid(T, X, P), Utility(T, X, P), Best(T, X)            *)
(* Part 2  ModelSat(M, x), ObjVal(M, x)                                        *)
(* Part 3  record / summary checkers, attribution, the batch state machine     *)
(*                                                                             *)
(* A tree T is [now, H, q, root, nodes]: q[p] is the quantity of partition p,  *)
(* time runs over 0..H-1 in unit steps (occupancy start <= t < end), nodes is  *)
(* a sequence of uniform records (children `ch` are indices: a node with two   *)
(* parents is a shared sub-expression).  A placement P maps every leaf         *)
(* (Choose / WindowedChoose / MalleableChoose) to                              *)
(*   [on, start, end, alloc]   alloc = set of <<partition, time, amount>>.     *)
(*                                                                             *)
(* Every operator takes a context X = [v, cp, purge].  X.v = {} is THE         *)
(* specification (what the property demands).  A non-empty X.v switches on     *)
(* "pinned-model" variants: for each known defect of the library one variant   *)
(* of the semantics under which the library's behaviour is correct.  They are  *)
(* used only to ATTRIBUTE a failure (it must fail under X.v = {} first): a     *)
(* failure that disappears under the smallest set V of variants is reported    *)
(* with the causes V, one that no variant explains is reported as unexplained. *)
(* cp / purge say whether the critical-path / capacity-purge pass ran (some    *)
(* defects only exist with a pass).                                            *)
(*                                                                             *)
(* Conventions the property statement leaves open and the pinned code fixes    *)
(* (DESIGN 7): ConvTrivialMinBonus (a Min none of whose children depends on    *)
(* the placement is worth that constant); Min and LessThan couple their        *)
(* placement-dependent children all-or-nothing (equality on the indicators),   *)
(* which also binds a child shared with another parent; the utility of a       *)
(* shared sub-expression counts once per parent; an Allocation holds its       *)
(* resources unconditionally and has utility 0; a Choose / MalleableChoose     *)
(* that starts before `now` is never placed; a MalleableChoose occupies whole  *)
(* slots and ends at the end of its last occupied slot.                        *)
EXTENDS Integers, Sequences, FiniteSets, TLC, Json

CONSTANTS BatchFile,            \* path of the JSON batch (Part 3)
          ConvTrivialMinBonus   \* utility of a Min none of whose children depends on the placement

\* the fixed vocabulary of causes (known defects of the pinned library)
F1 == "F1_lessthan_constant_times_untied"
F2 == "F2_malleable_end_is_last_slot_start"
F3 == "F3_lessthan_row_unconditional"
F4 == "F4_critical_path_uint_underflow"
F6 == "F6_critical_path_leaves_past_only_max"
F7 == "F7_shared_subexpression_dead_without_passes"
F8 == "F8_critical_path_treats_malleable_as_rigid"
SemCauses == {F1, F2, F3, F7, F8}      \* have a variant semantics; F4 / F6 are crashes (trigger patterns)
Spec0 == [v |-> {}, cp |-> FALSE, purge |-> FALSE]

-----------------------------------------------------------------------------
(* generic helpers *)

RECURSIVE SumSet3(_)            \* sum of the third components of a set of triples
SumSet3(S) == IF S = {} THEN 0
              ELSE LET e == CHOOSE e \in S : TRUE IN e[3] + SumSet3(S \ {e})

RECURSIVE SumFun(_, _)          \* sum of f[x] for x in D
SumFun(f, D) == IF D = {} THEN 0
                ELSE LET x == CHOOSE x \in D : TRUE IN f[x] + SumFun(f, D \ {x})

RECURSIVE SetToSeq(_)
SetToSeq(S) == IF S = {} THEN <<>>
               ELSE LET x == CHOOSE x \in S : \A y \in S : x <= y
                    IN  <<x>> \o SetToSeq(S \ {x})

SeqToSet(s) == {s[j] : j \in 1..Len(s)}
MaxOf(S) == CHOOSE x \in S : \A y \in S : x >= y
MinOf(S) == CHOOSE x \in S : \A y \in S : x <= y

-----------------------------------------------------------------------------
(* Part 1: semantics *)

LeafKinds == {"Choose", "WindowedChoose", "MalleableChoose"}
NodeIdx(T) == 1..Len(T.nodes)
Leaves(T) == {i \in NodeIdx(T) : T.nodes[i].k \in LeafKinds}
Parts(T) == 1..Len(T.q)
Times(T) == 0..(T.H - 1)
Kids(T, i) == SeqToSet(T.nodes[i].ch)
OfKind(T, k) == {i \in NodeIdx(T) : T.nodes[i].k = k}
AllocNodes(T) == OfKind(T, "Allocation")

RECURSIVE Desc(_, _)            \* the node and everything below it
Desc(T, i) == {i} \cup UNION {Desc(T, c) : c \in Kids(T, i)}

Unplaced == [on |-> FALSE, start |-> 0, end |-> 0, alloc |-> {}]

\* start times a WindowedChoose may pick: multiples of its granularity inside
\* its [start, end] window (end = latest start).  The property statement does not
\* say that nothing is placed before `now`; the pinned ChooseExpression refuses
\* such options, the pinned WindowedChooseExpression offers them when its window
\* opens before `now` -- both are taken as they are (the harness counts the latter
\* as an observation, not as a C20 clause).
WStarts(T, n) == {s \in n.start..n.end : s % n.gran = 0}
\* slots of a MalleableChoose
MSlots(n) == {s \in n.start..(n.end - 1) : (s - n.start) % n.gran = 0}

\* --- static facts about a tree ---------------------------------------------
\* start / end of a node when they do not depend on the placement, else -1
RECURSIVE CStart(_, _)
CStart(T, i) ==
    LET n == T.nodes[i] IN
    CASE n.k \in {"Choose", "Allocation"} -> n.start
      [] n.k = "Scale" -> CStart(T, n.ch[1])
      [] n.k = "LessThan" -> CStart(T, n.ch[1])
      [] OTHER -> -1
RECURSIVE CEnd(_, _)
CEnd(T, i) ==
    LET n == T.nodes[i] IN
    CASE n.k \in {"Choose", "Allocation"} -> n.start + n.dur
      [] n.k = "Scale" -> CEnd(T, n.ch[1])
      [] n.k = "LessThan" -> CEnd(T, n.ch[2])
      [] OTHER -> -1
\* a LessThan whose ordering is decided by constants
ConstLt(T, i) == CEnd(T, T.nodes[i].ch[1]) >= 0 /\ CStart(T, T.nodes[i].ch[2]) >= 0

RECURSIVE Cond0(_, _)           \* does the satisfaction of node i depend on the placement?
Cond0(T, i) ==
    LET n == T.nodes[i] IN
    CASE n.k \in LeafKinds -> TRUE
      [] n.k = "Allocation" -> FALSE
      [] n.k = "Max" -> TRUE
      [] OTHER -> \E c \in Kids(T, i) : Cond0(T, c)

HasW(T, i) == \E j \in Desc(T, i) : T.nodes[j].k = "WindowedChoose"
HasM(T, i) == \E j \in Desc(T, i) : T.nodes[j].k = "MalleableChoose"

\* earliest end / latest start any option of a node can have (what an ordering can rely on)
RECURSIVE EarliestEnd(_, _)
EarliestEnd(T, i) ==
    LET n == T.nodes[i] IN
    CASE n.k \in {"Choose", "Allocation"} -> n.start + n.dur
      [] n.k = "WindowedChoose" -> n.start + n.dur
      [] n.k = "MalleableChoose" -> n.start + n.gran
      [] n.k = "Max" -> MinOf({EarliestEnd(T, c) : c \in Kids(T, i)})
      [] n.k = "LessThan" -> EarliestEnd(T, n.ch[2])
      [] n.k = "Scale" -> EarliestEnd(T, n.ch[1])
      [] OTHER -> MaxOf({EarliestEnd(T, c) : c \in Kids(T, i)})
RECURSIVE LatestStart(_, _)
LatestStart(T, i) ==
    LET n == T.nodes[i] IN
    CASE n.k \in {"Choose", "Allocation"} -> n.start
      [] n.k = "WindowedChoose" -> n.end
      [] n.k = "MalleableChoose" -> n.end - n.gran
      [] n.k = "Max" -> MaxOf({LatestStart(T, c) : c \in Kids(T, i)})
      [] n.k = "LessThan" -> LatestStart(T, n.ch[1])
      [] n.k = "Scale" -> LatestStart(T, n.ch[1])
      [] OTHER -> MinOf({LatestStart(T, c) : c \in Kids(T, i)})

\* --- trigger patterns of the known defects -----------------------------------
\* F1: LessThan over constant times with a placement-dependent child
F1Node(T, i) == T.nodes[i].k = "LessThan" /\ ConstLt(T, i)
                /\ \E c \in Kids(T, i) : Cond0(T, c)
\* F7 (needs the critical-path pass): an ordering over a WindowedChoose that no
\* pair of options can meet is dropped by the pass together with its coupling
F7Node(T, i) == /\ T.nodes[i].k = "LessThan" /\ HasW(T, i)
                /\ EarliestEnd(T, T.nodes[i].ch[1]) > LatestStart(T, T.nodes[i].ch[2])
\* F4 (crash, critical-path pass): a WindowedChoose below an ordering
F4Tree(T) == \E i \in OfKind(T, "LessThan") : HasW(T, i)
\* F6 (crash, critical-path pass): a Max below an ordering that has an option in the past
F6Tree(T) == \E i \in OfKind(T, "LessThan") : \E m \in Desc(T, i) :
                 /\ T.nodes[m].k = "Max"
                 /\ \E c \in Kids(T, m) : T.nodes[c].k = "Choose" /\ T.nodes[c].start < T.now

Applicable(T, X) ==
    {c \in SemCauses :
        CASE c = F1 -> \E i \in NodeIdx(T) : F1Node(T, i)
          [] c = F2 -> OfKind(T, "MalleableChoose") # {}
          [] c = F3 -> \E i \in OfKind(T, "LessThan") : ~ConstLt(T, i)
          [] c = F7 -> X.cp /\ \E i \in NodeIdx(T) : F7Node(T, i)
          [] c = F8 -> X.cp /\ \E i \in OfKind(T, "LessThan") : HasM(T, i)
          [] OTHER -> FALSE}

\* --- nodes that can never provide utility (the library parses them to NO_UTILITY) ---
RECURSIVE NoU(_, _, _)
NoU(T, X, i) ==
    LET n == T.nodes[i] IN
    CASE n.k \in {"Choose", "MalleableChoose"} -> n.start < T.now
      [] n.k = "WindowedChoose" -> T.now > n.end
      [] n.k = "Allocation" -> FALSE
      [] n.k = "Max" -> \A c \in Kids(T, i) : NoU(T, X, c)
      [] n.k = "Min" -> \E c \in Kids(T, i) : NoU(T, X, c)
      [] n.k = "Scale" -> NoU(T, X, n.ch[1])
      [] n.k = "LessThan" ->
            \/ NoU(T, X, n.ch[1]) \/ NoU(T, X, n.ch[2])
            \/ (ConstLt(T, i) /\ CEnd(T, n.ch[1]) > CStart(T, n.ch[2]))   \* wrong order, statically
            \/ (F7 \in X.v /\ X.cp /\ F7Node(T, i))                        \* pinned: dropped by the pass
      [] OTHER -> FALSE

\* pinned F1: such a LessThan is "trivially satisfied" and does not tie its children
Untied(T, X, i) == F1 \in X.v /\ F1Node(T, i)

RECURSIVE Cond(_, _, _)   \* does the satisfaction of node i depend on the placement?
Cond(T, X, i) ==
    LET n == T.nodes[i] IN
    CASE n.k \in LeafKinds -> TRUE
      [] n.k = "Allocation" -> FALSE
      [] n.k = "Max" -> TRUE
      [] n.k = "LessThan" -> IF Untied(T, X, i) THEN FALSE ELSE \E c \in Kids(T, i) : Cond(T, X, c)
      [] OTHER -> \E c \in Kids(T, i) : Cond(T, X, c)

RECURSIVE Sat(_, _, _, _)
Sat(T, X, P, i) ==
    LET n == T.nodes[i] IN
    IF NoU(T, X, i) THEN FALSE
    ELSE CASE n.k \in LeafKinds -> P[i].on
           [] n.k = "Allocation" -> TRUE
           [] n.k = "Max" -> \E c \in Kids(T, i) : Sat(T, X, P, c)
           [] n.k = "Min" -> \A c \in Kids(T, i) : Sat(T, X, P, c)
           [] n.k = "LessThan" -> IF Untied(T, X, i) THEN TRUE
                                  ELSE Sat(T, X, P, n.ch[1]) /\ Sat(T, X, P, n.ch[2])
           [] n.k = "Scale" -> Sat(T, X, P, n.ch[1])
           [] OTHER -> TRUE

\* --- exactness of one leaf (C20.choose_exact / C20.unsat_nothing) ---
AllocShapeOK(T, n, al, times) ==
    /\ al # {}
    /\ \A e \in al : /\ e[1] \in SeqToSet(n.ps) /\ e[1] \in Parts(T)
                     /\ e[2] \in times /\ e[3] >= 1
    /\ \A e, f \in al : (e[1] = f[1] /\ e[2] = f[2]) => e = f

\* the span a placed leaf really occupies.  MalleableChoose: first slot .. end of last
\* slot; pinned F2: the library's end variable is the START of the last slot; pinned F8
\* (critical-path pass): the pass reasons about it as the rigid block [start, end)
LeafStart(T, X, P, i) ==
    LET n == T.nodes[i] IN
    IF n.k = "MalleableChoose" /\ P[i].alloc # {}
    THEN IF F8 \in X.v /\ X.cp THEN n.start ELSE MinOf({e[2] : e \in P[i].alloc})
    ELSE P[i].start
LeafEnd(T, X, P, i) ==
    LET n == T.nodes[i] IN
    IF n.k = "MalleableChoose" /\ P[i].alloc # {}
    THEN IF F8 \in X.v /\ X.cp THEN n.end
         ELSE MaxOf({e[2] : e \in P[i].alloc}) + (IF F2 \in X.v THEN 0 ELSE n.gran)
    ELSE P[i].end

\* which requirements a leaf's placement misses (empty = exact)
LeafBad(T, X, P, i) ==
    LET n == T.nodes[i]  pl == P[i]
        If(c, tag) == IF c THEN {tag} ELSE {}
        times == {e[2] : e \in pl.alloc}
    IN
    IF ~pl.on THEN If(pl.alloc # {}, "unplaced_alloc")
    ELSE CASE n.k = "Choose" ->
                If(n.start < T.now, "past")
                \cup If(pl.start # n.start, "start")
                \cup If(pl.end # n.start + n.dur, "end")
                \cup If(~AllocShapeOK(T, n, pl.alloc, {n.start}), "alloc")
                \cup If(SumSet3(pl.alloc) # n.num, "amount")
           [] n.k = "WindowedChoose" ->
                If(pl.start \notin WStarts(T, n), "start")
                \cup If(pl.end # pl.start + n.dur, "end")
                \cup If(~AllocShapeOK(T, n, pl.alloc, {pl.start}), "alloc")
                \cup If(SumSet3(pl.alloc) # n.num, "amount")
           [] n.k = "MalleableChoose" ->
                If(n.start < T.now, "past")
                \cup If(~AllocShapeOK(T, n, pl.alloc, MSlots(n)), "alloc")
                \cup If(SumSet3(pl.alloc) # n.slots, "amount")
                \cup If(times # {} /\ pl.start # MinOf(times), "start")
                \cup If(times # {} /\ pl.end # MaxOf(times) + (IF F2 \in X.v THEN 0 ELSE n.gran), "end")
LeafOK(T, X, P, i) == LeafBad(T, X, P, i) = {}

\* --- capacity (C20.capacity) ---
LeafUse(T, P, i, p, t) ==
    LET n == T.nodes[i]  pl == P[i] IN
    IF ~pl.on THEN 0
    ELSE IF n.k = "MalleableChoose"
         THEN SumSet3({e \in pl.alloc : e[1] = p /\ e[2] <= t /\ t < e[2] + n.gran})
         ELSE IF pl.start <= t /\ t < pl.end
              THEN SumSet3({e \in pl.alloc : e[1] = p}) ELSE 0

AllocUse(T, i, p, t) ==
    LET n == T.nodes[i] IN
    IF n.start <= t /\ t < n.start + n.dur
    THEN SumFun([j \in 1..Len(n.alloc) |-> IF n.alloc[j][1] = p THEN n.alloc[j][2] ELSE 0],
                1..Len(n.alloc))
    ELSE 0

Use(T, P, p, t) ==
    SumFun([i \in Leaves(T) |-> LeafUse(T, P, i, p, t)], Leaves(T))
    + SumFun([i \in AllocNodes(T) |-> AllocUse(T, i, p, t)], AllocNodes(T))

UseTable(T, P) == [c \in Parts(T) \X Times(T) |-> Use(T, P, c[1], c[2])]

\* pinned F2 with the capacity-purge pass: the pass trusts an ordering to keep its two
\* sides apart and drops their common capacity rows; with the short MalleableChoose end
\* the last slot of the first side and the second side may then share a cell
PurgedCell(T, X, P, c) ==
    /\ F2 \in X.v /\ X.purge
    /\ \E l \in OfKind(T, "LessThan") :
         \E x \in Desc(T, T.nodes[l].ch[1]) \cap OfKind(T, "MalleableChoose") :
           \E y \in Desc(T, T.nodes[l].ch[2]) \cap Leaves(T) :
              LeafUse(T, P, x, c[1], c[2]) > 0 /\ LeafUse(T, P, y, c[1], c[2]) > 0

CapViolIn(T, X, P, ut) == {c \in DOMAIN ut : ut[c] > T.q[c[1]] /\ ~PurgedCell(T, X, P, c)}
CapOK(T, X, P) == \A p \in Parts(T), t \in Times(T) :
                      Use(T, P, p, t) <= T.q[p] \/ PurgedCell(T, X, P, <<p, t>>)

\* --- structure ---
\* span of a satisfied node: earliest start / latest end of what it places
RECURSIVE StartOf(_, _, _, _)
StartOf(T, X, P, i) ==
    LET n == T.nodes[i] IN
    CASE n.k \in LeafKinds -> LeafStart(T, X, P, i)
      [] n.k = "Allocation" -> n.start
      [] OTHER -> MinOf({StartOf(T, X, P, c) : c \in {c \in Kids(T, i) : Sat(T, X, P, c)}})
RECURSIVE EndOf(_, _, _, _)
EndOf(T, X, P, i) ==
    LET n == T.nodes[i] IN
    CASE n.k \in LeafKinds -> LeafEnd(T, X, P, i)
      [] n.k = "Allocation" -> n.start + n.dur
      [] OTHER -> MaxOf({EndOf(T, X, P, c) : c \in {c \in Kids(T, i) : Sat(T, X, P, c)}})

MaxOK(T, X, P, i) == Cardinality({c \in Kids(T, i) : Sat(T, X, P, c)}) <= 1
\* the children a Min ties together: placement-dependent and able to provide utility
Tied(T, X, i) == {c \in Kids(T, i) : Cond(T, X, c) /\ ~NoU(T, X, c)}
MinOK(T, X, P, i) ==
    (\E c \in Tied(T, X, i) : Sat(T, X, P, c)) => (\A c \in Tied(T, X, i) : Sat(T, X, P, c))
LtLive(T, X, i) == ~NoU(T, X, i) /\ ~Untied(T, X, i)
LtOrderOK(T, X, P, i) ==
    LET a == T.nodes[i].ch[1]  b == T.nodes[i].ch[2] IN
    (LtLive(T, X, i) /\ Sat(T, X, P, a) /\ Sat(T, X, P, b) /\ (Cond(T, X, a) \/ Cond(T, X, b)))
        => EndOf(T, X, P, a) <= StartOf(T, X, P, b)
LtBothOK(T, X, P, i) ==
    LET a == T.nodes[i].ch[1]  b == T.nodes[i].ch[2] IN
    (LtLive(T, X, i) /\ Cond(T, X, a) /\ Cond(T, X, b)) => (Sat(T, X, P, a) <=> Sat(T, X, P, b))

\* pinned F3: the library's happens-before row  end(first) <= start(second)  is not
\* conditioned on the LessThan being satisfied.  LoEnd / HiStart are the smallest end /
\* largest start value the library's time variables of a node can take under P.
RECURSIVE LoEnd(_, _, _, _)
LoEnd(T, X, P, i) ==
    LET n == T.nodes[i] IN
    CASE n.k \in {"Choose", "Allocation"} -> n.start + n.dur
      [] n.k = "WindowedChoose" -> IF P[i].on THEN P[i].start + n.dur ELSE 0
      [] n.k = "MalleableChoose" -> IF P[i].on /\ P[i].alloc # {} THEN MaxOf({e[2] : e \in P[i].alloc}) ELSE 0
      [] n.k = "Max" -> SumFun([c \in Kids(T, i) |->
                            IF T.nodes[c].k = "Choose"
                            THEN (IF P[c].on THEN T.nodes[c].start + T.nodes[c].dur ELSE 0)
                            ELSE LoEnd(T, X, P, c)], Kids(T, i))
      [] n.k = "LessThan" -> LoEnd(T, X, P, n.ch[2])
      [] n.k = "Scale" -> LoEnd(T, X, P, n.ch[1])
      [] OTHER -> MaxOf({LoEnd(T, X, P, c) : c \in Kids(T, i)} \cup {0})
RECURSIVE HiStart(_, _, _, _)
HiStart(T, X, P, i) ==
    LET n == T.nodes[i] IN
    CASE n.k \in {"Choose", "Allocation"} -> n.start
      [] n.k = "WindowedChoose" -> IF P[i].on THEN P[i].start ELSE n.start
      [] n.k = "MalleableChoose" -> IF P[i].on /\ P[i].alloc # {} THEN MinOf({e[2] : e \in P[i].alloc}) ELSE 0
      [] n.k = "Max" ->
            LET live == {c \in Kids(T, i) : ~NoU(T, X, c)}
                first == MinOf({T.nodes[c].start : c \in live})
            IN  SumFun([c \in live |->
                            IF T.nodes[c].k = "Choose"
                            THEN (IF P[c].on THEN T.nodes[c].start ELSE 0)
                            ELSE HiStart(T, X, P, c)], live)
                + (IF \E c \in live : P[c].on THEN 0 ELSE first)
      [] n.k = "LessThan" -> HiStart(T, X, P, n.ch[1])
      [] n.k = "Scale" -> HiStart(T, X, P, n.ch[1])
      [] OTHER -> MinOf({HiStart(T, X, P, c) : c \in Kids(T, i)})
RowsOK(T, X, P) ==
    \A i \in OfKind(T, "LessThan") :
        (~NoU(T, X, i) /\ ~ConstLt(T, i))
            => LoEnd(T, X, P, T.nodes[i].ch[1]) <= HiStart(T, X, P, T.nodes[i].ch[2])

StructOK(T, X, P) ==
    /\ \A i \in OfKind(T, "Max") : MaxOK(T, X, P, i)
    /\ \A i \in OfKind(T, "Min") : MinOK(T, X, P, i)
    /\ \A i \in OfKind(T, "LessThan") : LtOrderOK(T, X, P, i) /\ LtBothOK(T, X, P, i)
    /\ (F3 \in X.v => RowsOK(T, X, P))

Valid(T, X, P) ==
    /\ \A i \in Leaves(T) : LeafOK(T, X, P, i)
    /\ CapOK(T, X, P)
    /\ StructOK(T, X, P)

\* --- utility ---
\* pinned F1: the library adds the children's utility terms without a guard (they vanish
\* only through the indicator equalities), so an untied child's utility leaks through
RECURSIVE Utility(_, _, _, _)
Utility(T, X, P, i) ==
    LET n == T.nodes[i]
        kids == [j \in 1..Len(n.ch) |-> Utility(T, X, P, n.ch[j])]   \* a shared child counts per parent
        sum == SumFun(kids, 1..Len(n.ch))
        open == F1 \in X.v
    IN
    IF NoU(T, X, i) THEN 0
    ELSE CASE n.k \in LeafKinds -> IF P[i].on THEN n.util ELSE 0
           [] n.k = "Allocation" -> 0
           [] n.k = "Max" -> sum
           [] n.k = "Min" -> IF open \/ Sat(T, X, P, i)
                             THEN sum + (IF Cond(T, X, i) THEN 0 ELSE ConvTrivialMinBonus)
                             ELSE 0
           [] n.k = "LessThan" -> IF open \/ Sat(T, X, P, i) THEN sum ELSE 0
           [] n.k = "Scale" -> IF n.disr = 1
                               THEN (IF Sat(T, X, P, n.ch[1]) THEN n.factor ELSE 0)
                               ELSE n.factor * sum
           [] OTHER -> sum

TreeUtility(T, X, P) == Utility(T, X, P, T.root)

\* --- brute force optimum ---
\* all ways to take `num` units from the partitions ps at one time t
Splits(T, ps, num, t) ==
    LET PS == SeqToSet(ps) \cap Parts(T)
        F == {f \in [PS -> 0..num] : /\ \A p \in PS : f[p] <= T.q[p]
                                      /\ SumFun(f, PS) = num}
    IN  {{<<p, t, f[p]>> : p \in {p \in PS : f[p] > 0}} : f \in F}

Options(T, i) ==
    LET n == T.nodes[i] IN
    CASE n.k = "Choose" ->
            IF n.start < T.now THEN {}
            ELSE {[on |-> TRUE, start |-> n.start, end |-> n.start + n.dur, alloc |-> a] :
                        a \in Splits(T, n.ps, n.num, n.start)}
      [] n.k = "WindowedChoose" ->
            UNION {{[on |-> TRUE, start |-> s, end |-> s + n.dur, alloc |-> a] :
                        a \in Splits(T, n.ps, n.num, s)} : s \in WStarts(T, n)}
      [] n.k = "MalleableChoose" ->
            IF n.start < T.now THEN {}
            ELSE LET PS == SeqToSet(n.ps) \cap Parts(T)
                     cells == PS \X MSlots(n)
                     qmax == MaxOf({T.q[p] : p \in Parts(T)})
                     F == {f \in [cells -> 0..qmax] :
                              /\ \A c \in cells : f[c] <= T.q[c[1]]
                              /\ SumFun(f, cells) = n.slots}
                 IN  {LET al == {<<c[1], c[2], f[c]>> : c \in {c \in cells : f[c] > 0}}
                      IN  [on |-> TRUE, start |-> MinOf({e[2] : e \in al}),
                           end |-> MaxOf({e[2] : e \in al}) + n.gran, alloc |-> al] :
                        f \in {f \in F : n.slots > 0}}

\* depth first over the leaves with capacity pruning; -1 = no valid placement at all
RECURSIVE BestRec(_, _, _, _, _)
BestRec(T, X, ls, k, P) ==
    IF k > Len(ls)
    THEN IF StructOK(T, X, P) THEN TreeUtility(T, X, P) ELSE -1
    ELSE LET i == ls[k]
             ext == {o \in Options(T, i) : CapOK(T, X, [P EXCEPT ![i] = o])}
         IN  MaxOf({BestRec(T, X, ls, k + 1, P)} \cup
                   {BestRec(T, X, ls, k + 1, [P EXCEPT ![i] = o]) : o \in ext})

Best(T, X) ==
    LET P0 == [i \in Leaves(T) |-> Unplaced] IN
    IF ~CapOK(T, X, P0) THEN -1 ELSE BestRec(T, X, SetToSeq(Leaves(T)), 1, P0)

-----------------------------------------------------------------------------
(* Part 2: the dumped linear model.  M = [lb, ub, hub, cons, obj]; variable    *)
(* indices are 1-based, index 0 in a term is the constant 1; only constraints  *)
(* the library marks active are shipped (the back-ends skip inactive ones).    *)

TermVal(x, t) == t[1] * (IF t[2] = 0 THEN 1 ELSE x[t[2]])
LinVal(x, terms) == SumFun([j \in 1..Len(terms) |-> TermVal(x, terms[j])], 1..Len(terms))

BoundViol(M, x) == {v \in 1..Len(M.lb) : x[v] < M.lb[v] \/ (M.hub[v] = 1 /\ x[v] > M.ub[v])}
ConOK(x, c) == LET l == LinVal(x, c.t) IN
               CASE c.s = "LE" -> l <= c.rhs
                 [] c.s = "GE" -> l >= c.rhs
                 [] OTHER -> l = c.rhs
ConViol(M, x) == {j \in 1..Len(M.cons) : ~ConOK(x, M.cons[j])}
ModelSat(M, x) == Len(x) = Len(M.lb) /\ BoundViol(M, x) = {} /\ ConViol(M, x) = {}
ObjVal(M, x) == LinVal(x, M.obj)

-----------------------------------------------------------------------------
(* Part 3: batch checking.  Batch = [trees, models, recs, sums].               *)
(*  rec = [id, tree, model, x, cp, purge, robj, rutil, pl, nclaim, nutil, nown]*)
(*    cp / purge  1 = the pass ran for the instance the record comes from      *)
(*    pl      root placements as read back: [leaf, start, end, alloc]          *)
(*    nclaim  per node: 1 = the library reports the node satisfied (utility    *)
(*            # 0), 0 = not; nutil: the node's reported utility; nown: 1 = the *)
(*            node's own solution carries a placement                          *)
(*  sum = [id, tree, runs]                                                     *)
(*    run = [id, g, passes, status, err, feasible, max, fine, fineix]          *)
(*    status "ok" | "timeout" | "exception" (the compilation itself failed     *)
(*    although the tree compiles without passes at discretisation 1)           *)
(* Every clause that fails under the specification (X.v = {}) is printed as    *)
(*   @@ <id> <clause> <causes> <detail>                                        *)
(* <causes> = the smallest set of pinned variants under which the record /     *)
(* run has no failing clause at all, '+'-joined, or `unexplained`.  The        *)
(* checker itself never fails, so one run reports every failing record.        *)

Batch == JsonDeserialize(BatchFile)
NRecs == Len(Batch.recs)
NSums == Len(Batch.sums)

CauseOrder == <<F1, F2, F3, F4, F6, F7, F8>>
RECURSIVE JoinFrom(_, _)
JoinFrom(V, k) ==
    IF k > Len(CauseOrder) THEN ""
    ELSE LET rest == JoinFrom(V, k + 1) IN
         IF CauseOrder[k] \in V
         THEN CauseOrder[k] \o (IF rest = "" THEN "" ELSE "+" \o rest)
         ELSE rest
CauseStr(V) == IF V = {} THEN "unexplained" ELSE JoinFrom(V, 1)

Report(id, clause, causes, detail) ==
    PrintT("@@ " \o id \o " " \o clause \o " " \o causes \o " " \o detail)

Item(c, d) == [c |-> c, d |-> ToString(d)]
When(b, item) == IF b THEN {item} ELSE {}

\* vacuity counters: how often each structural situation was exercised
Tally(T, P, ut) ==
    <<Cardinality({i \in Leaves(T) : P[i].on}),
      Cardinality({c \in DOMAIN ut : ut[c] > 0}),
      Cardinality({i \in OfKind(T, "Max") : Sat(T, Spec0, P, i)}),
      Cardinality({i \in OfKind(T, "Min") : Sat(T, Spec0, P, i) /\ Cond(T, Spec0, i)}),
      Cardinality({i \in OfKind(T, "LessThan") : Sat(T, Spec0, P, i) /\ Cond(T, Spec0, i)}),
      Cardinality({i \in OfKind(T, "Scale") : Sat(T, Spec0, P, i)}),
      Cardinality({c \in DOMAIN ut : ut[c] = T.q[c[1]]})>>
NTally == 7
AddTally(t) == \A k \in 1..NTally : TLCSet(k, TLCGet(k) + t[k])

ASSUME \A k \in 1..NTally : TLCSet(k, 0)

PlacementOf(T, r) ==
    [i \in Leaves(T) |->
        IF \E j \in 1..Len(r.pl) : r.pl[j].leaf = i
        THEN LET e == r.pl[CHOOSE j \in 1..Len(r.pl) : r.pl[j].leaf = i]
             IN  [on |-> TRUE, start |-> e.start, end |-> e.end, alloc |-> SeqToSet(e.alloc)]
        ELSE Unplaced]

\* deepest node on a path from the root whose reported utility differs from the
\* specified one while all of its children agree: names the culprit of a mismatch
RECURSIVE Culprit(_, _, _, _, _)
Culprit(T, X, P, r, i) ==
    LET bad == {c \in Kids(T, i) : r.nutil[c] # Utility(T, X, P, c)} IN
    IF bad = {} THEN i ELSE Culprit(T, X, P, r, MinOf(bad))

\* the clauses a read-back fails under the semantics X (placement-level clauses only)
RecFails(T, X, r, P, ut) ==
    LET strays == {j \in 1..Len(r.pl) : \/ r.pl[j].leaf \notin Leaves(T)
                                         \/ \E k \in 1..Len(r.pl) : k # j /\ r.pl[k].leaf = r.pl[j].leaf}
        U == TreeUtility(T, X, P)
        over == CapViolIn(T, X, P, ut)
    IN
    When(strays # {}, Item("C20.choose_exact", [kind |-> "placement that belongs to no leaf (or two to one)", n |-> strays]))
    \cup UNION {
           When(P[i].on /\ ~LeafOK(T, X, P, i),
                Item("C20.choose_exact", [node |-> i, bad |-> LeafBad(T, X, P, i), got |-> P[i]]))
           \cup When(~P[i].on /\ ~LeafOK(T, X, P, i),
                Item("C20.unsat_nothing", [node |-> i, bad |-> LeafBad(T, X, P, i), got |-> P[i]]))
           \cup When(r.nclaim[i] = 0 /\ (r.nown[i] = 1 \/ P[i].on),
                Item("C20.unsat_nothing", [node |-> i, kind |-> "unsatisfied leaf carries a placement"]))
           : i \in Leaves(T)}
    \cup When(over # {},
              Item("C20.capacity",
                   [over |-> {<<c[1], c[2], ut[c]>> : c \in over},
                    users |-> {i \in Leaves(T) \cup AllocNodes(T) : \E c \in over :
                                  IF i \in Leaves(T) THEN LeafUse(T, P, i, c[1], c[2]) > 0
                                  ELSE AllocUse(T, i, c[1], c[2]) > 0}]))
    \cup UNION {
           When(~MaxOK(T, X, P, i), Item("C20.max_one", [node |-> i, kind |-> "placed"]))
           \cup When(Cardinality({c \in Kids(T, i) : r.nclaim[c] = 1}) > 1,
                     Item("C20.max_one", [node |-> i, kind |-> "reported"]))
           : i \in OfKind(T, "Max")}
    \cup UNION {
           When(~MinOK(T, X, P, i), Item("C20.min_all", [node |-> i, kind |-> "partial"]))
           \cup When(/\ r.nclaim[i] = 1
                     /\ \E c \in Tied(T, X, i) : r.nclaim[c] = 0
                     \* pinned F1: an untied child's utility leaks into the Min's reported utility
                     /\ ~(F1 \in X.v /\ \E j \in Desc(T, i) : F1Node(T, j)),
                     Item("C20.min_all", [node |-> i, kind |-> "reported satisfied with an unsatisfied child"]))
           : i \in OfKind(T, "Min")}
    \cup UNION {
           When(~LtOrderOK(T, X, P, i), Item("C20.lessthan", [node |-> i, kind |-> "order"]))
           \cup When(~LtBothOK(T, X, P, i), Item("C20.lessthan", [node |-> i, kind |-> "one side only"]))
           : i \in OfKind(T, "LessThan")}
    \cup When(U # r.robj,
              Item("C20.utility_eq", [kind |-> "semantic", spec |-> U, reported |-> r.robj,
                                      node |-> Culprit(T, X, P, r, T.root)]))

\* smallest set of applicable pinned variants under which `ok(V)` holds; {} = none does
SmallestCause(app, ok(_)) ==
    LET good == {V \in SUBSET app : V # {} /\ ok(V)} IN
    IF good = {} THEN {}
    ELSE LET k == MinOf({Cardinality(V) : V \in good}) IN
         CHOOSE V \in good : Cardinality(V) = k

CheckRec(r) ==
    LET T == Batch.trees[r.tree]
        M == Batch.models[r.model]
        X0 == [v |-> {}, cp |-> r.cp = 1, purge |-> r.purge = 1]
        P == PlacementOf(T, r)
        ut == UseTable(T, P)
        fails == RecFails(T, X0, r, P, ut)
        Ok(V) == RecFails(T, [X0 EXCEPT !.v = V], r, P, ut) = {}
        causes == IF fails = {} THEN "" ELSE CauseStr(SmallestCause(Applicable(T, X0), Ok))
    IN
    \* the model part does not depend on any reading of the tree: never attributed
    /\ IF ModelSat(M, r.x) THEN TRUE
       ELSE Report(r.id, "C20.model_sat", "unexplained",
                   ToString([bounds |-> BoundViol(M, r.x),
                             cons |-> {M.cons[j].name : j \in IF Len(r.x) = Len(M.lb) THEN ConViol(M, r.x) ELSE {}}]))
    /\ IF Len(r.x) # Len(M.lb) \/ (ObjVal(M, r.x) = r.robj /\ r.robj = r.rutil) THEN TRUE
       ELSE Report(r.id, "C20.utility_eq", "unexplained",
                   ToString([kind |-> "objective", model |-> ObjVal(M, r.x), reported |-> r.robj, root |-> r.rutil]))
    /\ \A f \in fails : Report(r.id, f.c, causes, f.d)
    /\ AddTally(Tally(T, P, ut))

\* --- per tree: the optimum with / without passes, coarse discretisation ---
XOfRun(run, V) == [v |-> V, cp |-> run.passes % 2 = 1, purge |-> (run.passes \div 2) % 2 = 1]
FineOK(run, b) == (run.feasible = 0 /\ b = -1) \/ (run.feasible = 1 /\ run.max = b)

\* verdict of one run: [ok, v]; ok = FALSE and v = {} means unexplained
RECURSIVE Judge(_, _, _, _)
Judge(T, best, runs, j) ==
    LET run == runs[j]
        X0 == XOfRun(run, {})
        app == Applicable(T, X0)
    IN
    IF run.status = "timeout"
    THEN [ok |-> FALSE, v |-> IF X0.cp /\ F4Tree(T) THEN {F4} ELSE {}]
    ELSE IF run.status = "exception"
    THEN [ok |-> FALSE, v |-> IF X0.cp /\ run.err = "max_no_child" /\ F6Tree(T) THEN {F6} ELSE {}]
    ELSE IF run.g = 1
    THEN IF FineOK(run, best) THEN [ok |-> TRUE, v |-> {}]
         ELSE LET Ok(V) == FineOK(run, Best(T, XOfRun(run, V))) IN
              [ok |-> FALSE, v |-> SmallestCause(app, Ok)]
    ELSE \* coarse discretisation may only lose utility with respect to the fine run
         IF run.feasible = 0 \/ run.fineix = 0 \/ run.max <= run.fine THEN [ok |-> TRUE, v |-> {}]
         ELSE LET fine == Judge(T, best, runs, run.fineix) IN
              IF run.max <= best /\ ~fine.ok /\ fine.v # {}
              THEN [ok |-> FALSE, v |-> fine.v]     \* the coarse run is fine, the fine run is the defective one
              ELSE LET Ok(V) == run.max <= Best(T, XOfRun(run, V)) IN
                   [ok |-> FALSE, v |-> SmallestCause(app, Ok)]

CheckSum(s) ==
    LET T == Batch.trees[s.tree]
        best == Best(T, Spec0)
    IN  /\ PrintT("@@BEST " \o s.id \o " " \o ToString(best))
        /\ \A j \in 1..Len(s.runs) :
              LET run == s.runs[j]
                  verdict == Judge(T, best, s.runs, j)
                  clause == IF run.g > 1 THEN "C20.coarse_le"
                            ELSE IF run.passes = 0 THEN "C20.best_eq" ELSE "C20.pass_invariant"
              IN  IF verdict.ok THEN TRUE
                  ELSE Report(run.id, clause, CauseStr(verdict.v),
                              ToString([best |-> best, max |-> run.max, feasible |-> run.feasible,
                                        fine |-> run.fine, g |-> run.g, passes |-> run.passes,
                                        status |-> run.status]))

VARIABLE idx
Init == idx = 0
Next ==
    /\ idx < NRecs + NSums
    /\ idx' = idx + 1
    /\ IF idx' <= NRecs
       THEN CheckRec(Batch.recs[idx'])
       ELSE CheckSum(Batch.sums[idx' - NRecs])
    /\ (idx' = NRecs + NSums) =>
          PrintT("@@TALLY " \o ToString([k \in 1..NTally |-> TLCGet(k)]))
Spec == Init /\ [][Next]_idx
=============================================================================
