"""C03 — decided on the shared sim corpus (SimTrace.tla) and the exhaustive Simulator model; see simprops.py / simmc.py."""
from . import simprops
from .common import CheckResult


def run(tier):
    res = CheckResult("C03", tier)
    simprops.check("C03", tier, res)
    return res
