"""C20 plumbing: solve / enumerate the linear model dumped by the STRL driver.

Nothing here decides the property: the solvers only *propose* assignments; every
proposed assignment is re-checked by TLC (`ModelSat`) before anything is concluded
from it.  They are trusted for completeness only (no decision assignment is missed
below the cap, the reported optimum is the optimum) -- recorded as an assumption in
the evidence, and cross-checked (z3 exhaustive maximum == Gurobi optimum) whenever
the enumeration was not capped.
"""
from __future__ import annotations

try:  # the venv carries an unrelated `z3` distribution that shadows z3-solver's package __init__
    from z3 import z3
except ImportError:  # pragma: no cover
    import z3

_GRB_ENV = None


def _grb_env():
    global _GRB_ENV
    if _GRB_ENV is None:
        import gurobipy as gp

        env = gp.Env(empty=True)
        env.setParam("OutputFlag", 0)
        env.setParam("LogToConsole", 0)
        env.start()
        _GRB_ENV = env
    return _GRB_ENV


class ModelShapeError(Exception):
    """The dumped model is not a pure integer linear model (not expected: every lowered
    variable is INTEGER or INDICATOR with integral coefficients in the generated range)."""


def _as_int(x, what):
    if x is None:
        return None
    if abs(x - round(x)) > 1e-9:
        raise ModelShapeError(f"non-integral {what}: {x}")
    return int(round(x))


def normalise(model: dict) -> dict:
    """Integer view of the dumped model: vars [(kind, lb, ub|None)], active constraints
    [(sense, rhs, [(coef, idx|-1)])], objective [(coef, idx|-1)].  Raises ModelShapeError
    for anything TLC (integers only) could not evaluate."""
    vs = []
    for v in model["vars"]:
        if v["type"] not in ("INTEGER", "INDICATOR"):
            raise ModelShapeError(f"variable {v['name']} has type {v['type']}")
        lb = _as_int(v["lb"], "lower bound")
        ub = _as_int(v["ub"], "upper bound")
        if v["type"] == "INDICATOR":
            # Gurobi/CPLEX back-ends translate INDICATOR to a binary variable
            lb = max(0, 0 if lb is None else lb)
            ub = 1 if ub is None else min(1, ub)
        elif lb is None:
            lb = 0  # the back-ends default a missing lower bound to 0
        vs.append((v["type"], lb, ub))
    cons = []
    for c in model["cons"]:
        terms = []
        for coef, idx in c["terms"]:
            if idx == -2:
                raise ModelShapeError(f"constraint {c['name']} uses a variable that is not in the model")
            terms.append((_as_int(coef, "coefficient"), int(idx)))
        cons.append({"name": c["name"], "sense": c["sense"], "rhs": _as_int(c["rhs"], "rhs"), "terms": terms, "active": bool(c["active"])})
    obj = []
    if model["obj"] is None:
        raise ModelShapeError("model has no objective")
    if model["obj"]["sense"] != "MAX":
        raise ModelShapeError("objective is not a maximisation")
    for coef, idx in model["obj"]["terms"]:
        if idx == -2:
            raise ModelShapeError("objective uses a variable that is not in the model")
        obj.append((_as_int(coef, "objective coefficient"), int(idx)))
    return {"vars": vs, "cons": cons, "obj": obj}


def time_vars(model: dict) -> set:
    """Indices of the variables that some node reports as its start / end time."""
    out = set()
    for n in model["nodes"].values():
        if not n.get("parsed"):
            continue
        for k in ("start", "end"):
            v = n.get(k)
            if isinstance(v, dict) and "v" in v and v["v"] >= 0:
                out.add(int(v["v"]))
    return out


def magnitude(nm: dict) -> int:
    m = 1
    for _, lb, ub in nm["vars"]:
        m = max(m, abs(lb), abs(ub or 0))
    for c in nm["cons"]:
        m = max(m, abs(c["rhs"]))
        for coef, _ in c["terms"]:
            m = max(m, abs(coef))
    return m


def objective_value(nm: dict, x: list) -> int:
    return sum(c * (1 if i < 0 else x[i]) for c, i in nm["obj"])


def enumerate_z3(nm: dict, decision: list, tvars: list, cap: int, tcap: int):
    """All assignments of the decision variables that extend to a solution of the active
    constraints (blocking clauses on the projection), each with z3's witness for the
    remaining variables.  Returns (solutions, exhausted?)."""
    xs = [z3.Int(f"x{i}") for i in range(len(nm["vars"]))]
    s = z3.Solver()
    s.set("random_seed", 1)
    for i, (_, lb, ub) in enumerate(nm["vars"]):
        s.add(xs[i] >= lb)
        if ub is not None:
            s.add(xs[i] <= ub)
        elif i in tvars:
            s.add(xs[i] <= tcap)  # keep witnesses of unbounded time variables small
        else:
            s.add(xs[i] <= tcap)
    for c in nm["cons"]:
        if not c["active"]:
            continue
        lhs = z3.IntVal(0)
        for coef, idx in c["terms"]:
            lhs = lhs + (coef if idx < 0 else coef * xs[idx])
        if c["sense"] == "LE":
            s.add(lhs <= c["rhs"])
        elif c["sense"] == "GE":
            s.add(lhs >= c["rhs"])
        else:
            s.add(lhs == c["rhs"])
    sols = []
    exhausted = False
    while len(sols) < cap:
        r = s.check()
        if r == z3.unsat:
            exhausted = True
            break
        if r != z3.sat:
            raise ModelShapeError("z3 returned unknown")
        m = s.model()
        x = [m.eval(v, model_completion=True).as_long() for v in xs]
        sols.append(x)
        if not decision:
            exhausted = True
            break
        s.add(z3.Or([xs[i] != x[i] for i in decision]))
    return sols, exhausted


def _grb_model(nm: dict, tcap: int):
    import gurobipy as gp
    from gurobipy import GRB

    m = gp.Model(env=_grb_env())
    xs = []
    for i, (kind, lb, ub) in enumerate(nm["vars"]):
        xs.append(m.addVar(lb=lb, ub=(tcap if ub is None else ub), vtype=GRB.INTEGER, name=f"x{i}"))
    for c in nm["cons"]:
        if not c["active"]:
            continue
        lhs = gp.LinExpr()
        for coef, idx in c["terms"]:
            if idx < 0:
                lhs += coef
            else:
                lhs += coef * xs[idx]
        sense = {"LE": GRB.LESS_EQUAL, "GE": GRB.GREATER_EQUAL, "EQ": GRB.EQUAL}[c["sense"]]
        m.addLConstr(lhs, sense, c["rhs"])
    m.update()
    return m, xs


def optimum_gurobi(nm: dict, tcap: int):
    """(status, objective, assignment) with status in {"optimal", "infeasible"}."""
    from gurobipy import GRB
    import gurobipy as gp

    m, xs = _grb_model(nm, tcap)
    obj = gp.LinExpr()
    for coef, idx in nm["obj"]:
        if idx < 0:
            obj += coef
        else:
            obj += coef * xs[idx]
    m.setObjective(obj, GRB.MAXIMIZE)
    m.setParam("MIPGap", 0)
    m.setParam("MIPGapAbs", 0)
    m.optimize()
    if m.Status == GRB.OPTIMAL:
        x = [int(round(v.X)) for v in xs]
        val = int(round(m.ObjVal))
        m.dispose()
        return "optimal", val, x
    st = m.Status
    m.dispose()
    if st in (GRB.INFEASIBLE, GRB.INF_OR_UNBD):
        return "infeasible", None, None
    raise ModelShapeError(f"gurobi status {st}")


def extremal_witnesses(nm: dict, decision: list, tvars: list, base: list, tcap: int):
    """For one decision assignment: the witnesses that push every time variable down / up
    (inside the cap).  Returns a list of 0..2 assignments different from `base`."""
    if not tvars:
        return []
    from gurobipy import GRB
    import gurobipy as gp

    m, xs = _grb_model(nm, tcap)
    for i in decision:
        xs[i].LB = base[i]
        xs[i].UB = base[i]
    out = []
    for sense in (GRB.MINIMIZE, GRB.MAXIMIZE):
        m.setObjective(gp.quicksum(xs[i] for i in tvars), sense)
        m.optimize()
        if m.Status == GRB.OPTIMAL:
            x = [int(round(v.X)) for v in xs]
            if x != base and x not in out:
                out.append(x)
    m.dispose()
    return out
