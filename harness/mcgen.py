"""Generate a model-checking wrapper module + cfg from Python constants, so that the
harness and TLC share one source of truth for every configuration."""
from __future__ import annotations

import os

from . import tlaval
from .tlc import SPEC_DIR


def write_mc(
    scratch: str,
    base: str,
    constants: dict,
    *,
    name: str | None = None,
    spec: str = "Spec",
    invariants=(),
    properties=(),
    constraint: str | None = None,
    view: str | None = None,
    extra_defs: str = "",
    deadlock: bool = False,
    init_next: tuple | None = None,
    postcondition: str | None = None,
    extends: str = "",
    symmetry: str | None = None,
):
    """Write `<name>.tla` (EXTENDS base) and `<name>.cfg` into scratch; returns (module path, cfg path).
    `constants` maps constant name -> Python value (printed with to_tla) or a raw TLA+ string
    wrapped in Raw()."""
    name = name or f"MC_{base}"
    lines = [f"---- MODULE {name} ----", f"EXTENDS {base}{(', ' + extends) if extends else ''}"]
    cfg = []
    if init_next:
        cfg += [f"INIT {init_next[0]}", f"NEXT {init_next[1]}"]
    else:
        cfg.append(f"SPECIFICATION {spec}")
    if constants:
        cfg.append("CONSTANTS")
    for k, v in constants.items():
        txt = v.text if isinstance(v, Raw) else tlaval.to_tla(v)
        lines.append(f"MC_{k} == {txt}")
        cfg.append(f"  {k} <- MC_{k}")
    if extra_defs:
        lines.append(extra_defs)
    lines.append("====")
    for i in invariants:
        cfg.append(f"INVARIANT {i}")
    for p in properties:
        cfg.append(f"PROPERTY {p}")
    if constraint:
        cfg.append(f"CONSTRAINT {constraint}")
    if view:
        cfg.append(f"VIEW {view}")
    if symmetry:
        cfg.append(f"SYMMETRY {symmetry}")
    if postcondition:
        cfg.append(f"POSTCONDITION {postcondition}")
    cfg.append(f"CHECK_DEADLOCK {'TRUE' if deadlock else 'FALSE'}")
    mod = os.path.join(scratch, f"{name}.tla")
    cf = os.path.join(scratch, f"{name}.cfg")
    with open(mod, "w") as f:
        f.write("\n".join(lines) + "\n")
    with open(cf, "w") as f:
        f.write("\n".join(cfg) + "\n")
    return mod, cf


class Raw:
    def __init__(self, text):
        self.text = text


LIB_OPT = [f"-DTLA-Library={SPEC_DIR}"]
