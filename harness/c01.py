"""C01 — decided on the shared sim corpus (SimTrace.tla) and the exhaustive Simulator model; see simprops.py / simmc.py."""
from . import simprops
from .common import CheckResult


def run(tier):
    res = CheckResult("C01", tier)
    simprops.check("C01", tier, res)
    return res
