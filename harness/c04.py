"""C04 — resource ledger conservation.

M: TLC checks Ledger.tla and Cluster.tla exhaustively (invariants C04_*).
R: the reachable graphs are dumped and replayed on real `Resources` / `WorkerPool`
   objects: all paths to depth D, then an edge-covering walk, then random walks.
T: (sim corpus) `C04_IdleMeansFull` is evaluated by SimTrace (see simcheck.py).
"""
from __future__ import annotations

import copy
import os
import time

from . import mcgen, replay, tlc
from .common import CheckResult, Scratch, parallel, rng
from .realobj import mk_profile, mk_request, mk_strategy, mk_task, mk_vector, ns, us


def R(n, i, q):
    return {"name": n, "id": i, "q": q}


def I(n, i, c):
    return {"name": n, "id": i, "cap": c}


LEDGER_CFG = {
    "quick": {
        "Insts": [I("gpu", "g1", 2), I("gpu", "g2", 1), I("cpu", "c1", 2)],
        "Comps": {"a", "b"},
        "Reqs": [R("gpu", "any", 1), R("gpu", "any", 3), R("gpu", "g2", 1), R("cpu", "any", 2), R("tpu", "any", 1)],
        "Dems": [
            [R("gpu", "any", 2), R("cpu", "any", 1)],
            [R("gpu", "g1", 1)],
            [R("cpu", "c1", 2), R("gpu", "any", 1)],
            # an entry BEFORE one that names a specific instance: when that instance is exhausted while a sibling of the
            # same name is free the whole request must be refused with nothing allocated
            [R("cpu", "any", 1), R("gpu", "g2", 1)],
        ],
    },
    "thorough": {
        "Insts": [I("gpu", "g1", 2), I("gpu", "g2", 2), I("cpu", "any", 2)],
        "Comps": {"a", "b", "c"},
        "Reqs": [R("gpu", "any", 1), R("gpu", "any", 3), R("gpu", "g2", 2), R("cpu", "any", 1), R("cpu", "c9", 1)],
        "Dems": [
            [R("gpu", "any", 2), R("cpu", "any", 1)],
            [R("gpu", "g1", 1)],
            [R("gpu", "any", 3)],
            [R("cpu", "any", 2), R("gpu", "g2", 1)],
        ],
    },
}

CLUSTER_CFG = {
    "quick": {
        "WInsts": [[I("gpu", "g1", 2), I("cpu", "c1", 1)], [I("gpu", "g2", 1)]],
        "Tasks": {"t1", "t2", "t3"},
        "Strat": {
            "s1": {"dem": [R("gpu", "any", 1)], "batch": False, "size": 1},
            "s2": {"dem": [R("gpu", "any", 2), R("cpu", "any", 1)], "batch": False, "size": 1},
            "b1": {"dem": [R("gpu", "any", 2)], "batch": True, "size": 2},
        },
        "SOrder": ["s1", "s2", "b1"],
        "Profiles": {"m1"},
        "LoadDem": {"m1": [R("gpu", "any", 1)]},
    },
    "thorough": {
        "WInsts": [[I("gpu", "g1", 1), I("gpu", "g2", 2), I("cpu", "c1", 2)], [I("gpu", "g3", 2)]],
        "Tasks": {"t1", "t2", "t3", "t4"},
        "Strat": {
            "s1": {"dem": [R("gpu", "any", 2)], "batch": False, "size": 1},
            "s2": {"dem": [R("cpu", "any", 1), R("gpu", "g2", 1)], "batch": False, "size": 1},
            "b1": {"dem": [R("gpu", "any", 2)], "batch": True, "size": 2},
            "b2": {"dem": [R("gpu", "any", 1), R("cpu", "any", 1)], "batch": True, "size": 3},
        },
        "SOrder": ["s1", "s2", "b1", "b2"],
        "Profiles": {"m1"},
        "LoadDem": {"m1": [R("gpu", "any", 1)]},
    },
}

LEDGER_INV = ["C04_Conserve", "C04_IdleFull", "C04_NonNeg"]
CLUSTER_INV = ["C04_Conserve", "C04_HeldIffResident", "C04_IdleFull", "C01_NoOversub", "C01_SingleWorker"]


# ---------------------------------------------------------------------------
# adapters


def _norm(v):
    """canonical JSON-ish form for comparison: sets -> sorted lists, tuples -> lists"""
    if isinstance(v, dict):
        return {str(k): _norm(x) for k, x in v.items()}
    if isinstance(v, (set, frozenset)):
        return sorted(_norm(x) for x in v)
    if isinstance(v, (list, tuple)):
        return [_norm(x) for x in v]
    return v


class LedgerAdapter:
    def __init__(self, cfg):
        self.cfg = cfg
        self.comps = sorted(cfg["Comps"])

    def fresh(self):
        N = ns()
        vec, self.inst_res = mk_vector(self.cfg["Insts"])
        self.objs = {"main": vec, "cp": None}
        self.comp_obj = {c: mk_task(c) for c in self.comps}
        self.req_res = [N.Resource(name=r["name"], _id=r["id"]) for r in self.cfg["Reqs"]]

    def apply(self, name, args):
        N = ns()
        if name == "Copy":
            self.objs["cp"] = copy.copy(self.objs["main"])
            return True
        if name == "DeepCopy":
            self.objs["cp"] = copy.deepcopy(self.objs["main"])
            return True
        o = self.objs[args[0]]
        try:
            if name == "Allocate":
                r = self.cfg["Reqs"][args[1] - 1]
                o.allocate(N.Resource(name=r["name"], _id=r["id"]), self.comp_obj[args[2]], r["q"])
            elif name == "AllocateMultiple":
                o.allocate_multiple(mk_request(self.cfg["Dems"][args[1] - 1]), self.comp_obj[args[2]])
            elif name == "Deallocate":
                o.deallocate(self.comp_obj[args[1]])
            else:
                raise AssertionError(name)
        except ValueError:
            return False
        return True

    def project(self):
        out = {}
        rev = {id(v): k for k, v in self.comp_obj.items()}
        for oname, o in self.objs.items():
            if o is None:
                out[oname] = {"none": True}
                continue
            held = {c: [0] * len(self.inst_res) for c in self.comps}
            for i, r in enumerate(self.inst_res):
                for comp, q in o.get_allocated_computation(r):
                    held[rev[id(comp)]][i] += q
            out[oname] = {
                "avail": [o.get_available_quantity(r) for r in self.req_res],
                "total": [o.get_total_quantity(r) for r in self.req_res],
                "allocd": [o.get_allocated_quantity(r) for r in self.req_res],
                "iavail": [o.get_available_quantity(r) for r in self.inst_res],
                "held": held,
            }
        return _norm(out)

    def abstract(self, state):
        return _norm(state["obs"])


class ClusterAdapter:
    def __init__(self, cfg):
        self.cfg = cfg
        self.tasks = sorted(cfg["Tasks"])

    def fresh(self):
        N = ns()
        self.inst_res = []
        workers = []
        for wi, insts in enumerate(self.cfg["WInsts"]):
            vec, rs = mk_vector(insts)
            self.inst_res.append(rs)
            workers.append(N.Worker(name=f"w{wi+1}", resources=vec))
        self.wids = [w.id for w in workers]
        self.objs = {"main": N.WorkerPool(name="pool", workers=workers), "cp": None}
        self.strat = {}
        for sname, s in self.cfg["Strat"].items():
            es = mk_strategy(s["dem"], runtime=5, batch_size=s["size"])
            self.strat[sname] = N.BatchStrategy(es) if s["batch"] else es
        self.task_obj = {t: mk_task(t) for t in self.tasks}
        self.prof = {}
        self.load = {}
        for p, dem in self.cfg["LoadDem"].items():
            self.load[p] = mk_strategy(dem, runtime=3)
            self.prof[p] = mk_profile(p, [], [self.load[p]])

    def apply(self, name, args):
        if name == "Copy":
            self.objs["cp"] = copy.copy(self.objs["main"])
            return True
        if name == "DeepCopy":
            self.objs["cp"] = copy.deepcopy(self.objs["main"])
            return True
        pool = self.objs[args[0]]
        try:
            if name == "PlaceOn":
                return bool(
                    pool.place_task(
                        self.task_obj[args[1]], execution_strategy=self.strat[args[2]], worker_id=self.wids[args[3] - 1]
                    )
                )
            if name == "PlaceAny":
                return bool(pool.place_task(self.task_obj[args[1]], execution_strategy=self.strat[args[2]]))
            if name == "Remove":
                pool.remove_task(current_time=us(0), task=self.task_obj[args[1]])
                return True
            if name == "Load":
                pool.load_profile(self.prof[args[2]], copy.copy(self.load[args[2]]), self.wids[args[1] - 1])
                return True
            if name == "Evict":
                pool.evict_profile(self.prof[args[2]], self.wids[args[1] - 1])
                return True
            if name == "StepProfiles":
                pool.step(us(0), us(100))
                return True
        except (ValueError, RuntimeError):
            return False
        raise AssertionError(name)

    def project(self):
        out = {}
        trev = {id(v): k for k, v in self.task_obj.items()}
        prev = {id(v): k for k, v in self.prof.items()}
        for oname, pool in self.objs.items():
            if pool is None:
                out[oname] = {"none": True}
                continue
            ws = pool.workers
            iavail, placed, canacc, pend, avl = [], [], [], [], []
            alloc = {t: [] for t in self.tasks}
            for wi, w in enumerate(ws):
                iavail.append([w.resources.get_available_quantity(r) for r in self.inst_res[wi]])
                pt = w.get_placed_tasks()
                placed.append({trev[id(t)] for t in pt})
                for t in pt:
                    try:
                        lst = w.get_allocated_resources(t)
                        alloc[trev[id(t)]] = [
                            [next(k + 1 for k, r in enumerate(self.inst_res[wi]) if r.id == res.id), q] for res, q in lst
                        ]
                    except Exception as ex:  # noqa
                        alloc[trev[id(t)]] = f"raised {type(ex).__name__}"
                canacc.append([bool(w.can_accomodate_strategy(self.strat[s])) for s in self.cfg["SOrder"]])
                pend.append({prev[id(p)] for p in w.get_pending_profiles()})
                avl.append({prev[id(p)] for p in w.get_available_profiles()})
            pool_placed = {trev[id(t)] for t in pool.get_placed_tasks()}
            all_placed = set().union(*placed) if placed else set()
            out[oname] = {
                "iavail": iavail,
                "placed": placed,
                "alloc": alloc,
                "canacc": canacc,
                "pend": pend,
                "avl": avl,
            }
            if pool_placed != all_placed:
                out[oname]["pool_placed_mismatch"] = [sorted(pool_placed), sorted(all_placed)]
        return _norm(out)

    def abstract(self, state):
        return _norm(state["obs"])


# ---------------------------------------------------------------------------


def _mc_and_replay(base, cfg, invs, adapter_cls, tier, name, depth, cover_steps, walks, budget):
    """One model: TLC (exhaustive + dot dump) then replay on the real objects.  Runs in a
    worker process; returns a partial CheckResult."""
    res = CheckResult("C04", tier)
    adapter = adapter_cls(cfg)
    with Scratch() as scratch:
        _mc_and_replay_in(res, scratch, base, cfg, invs, adapter, tier, name, depth, cover_steps, walks, budget)
    return res


def _mc_and_replay_in(res, scratch, base, cfg, invs, adapter, tier, name, depth, cover_steps, walks, budget):
    mod, cf = mcgen.write_mc(
        scratch,
        base,
        {k: v for k, v in cfg.items()},
        name=f"MC_{base}_{tier}",
        invariants=invs,
        properties=["C04_OneObject"],
    )
    dot = os.path.join(scratch, f"{base}_{tier}")
    r = tlc.run_tlc(mod, cf, workers=8, dump_dot=dot, java_opts=mcgen.LIB_OPT, timeout=3000)
    res.add_tlc(name, r)
    if not r.ok:
        res.violate(
            f"C04.{r.violation_name}",
            f"TLC: {r.violation_kind} {r.violation_name} violated in {base} ({tier} constants)",
            {"trace": [[h, s] for h, s in r.trace]},
            key=f"spec:{base}:{r.violation_name}",
        )
        return
    g = tlc.load_dot(dot + ".dot")
    os.remove(dot + ".dot")
    rp = replay.Replayer(g, adapter)
    t0 = time.time()
    rp.all_paths(depth, budget_s=budget * 0.4)
    n_paths_exh = rp.paths
    frac = rp.greedy_cover(rp.steps + cover_steps, rng(name), budget_s=budget * 0.5)
    rp.random_walks(walks, 25, rng(name + "w"))
    total_edges = sum(len(v) for v in g.edges.values())
    res.traces_validated += rp.paths
    res.extra.setdefault("replay", []).append(
        {
            "model": name,
            "graph_states": len(g.states),
            "graph_edges": total_edges,
            "all_paths_depth": depth,
            "paths_exhaustive": n_paths_exh,
            "paths_total": rp.paths,
            "steps_executed": rp.steps,
            "edges_covered": len(rp.covered),
            "edge_cover_fraction": round(len(rp.covered) / max(1, total_edges), 4),
            "divergence_keys": dict(rp.div_keys),
            "wall_s": round(time.time() - t0, 1),
        }
    )
    for d in rp.divergences:
        res.violate("C04.replay", f"{base}: {d.describe()}", d.detail(), key=f"{base}:{d.key()}")
    if rp.divergences:
        res.samples.append({"model": name, "diverging_path": rp.divergences[0].path})
    # one sample path
    node = g.init[0]
    sample = []
    for _ in range(4):
        if not g.edges[node]:
            break
        lab, node = g.edges[node][len(sample) % len(g.edges[node])]
        sample.append(lab)
    res.samples.append({"model": name, "replayed_path": sample})


def _mc_and_simulate(base, cfg, invs, adapter_cls, name, nbeh, depth):
    """Large constants: exhaustive TLC without dumping the graph, then replay of `-simulate` behaviours."""
    import glob

    from .common import seed

    res = CheckResult("C04", "thorough")
    adapter = adapter_cls(cfg)
    with Scratch() as scratch:
        mod, cf = mcgen.write_mc(scratch, base, cfg, name=f"MC_{base}_big", invariants=invs, properties=["C04_OneObject"])
        r = tlc.run_tlc(mod, cf, workers=8, coverage=False, java_opts=mcgen.LIB_OPT, timeout=2400, allow_timeout=True)
        res.add_tlc(name + " (exhaustive, bounded by 40 min)", r)
        if r.violation_kind:
            res.violate(f"C04.{r.violation_name}", f"TLC: {r.violation_kind} {r.violation_name} violated in {base} (thorough constants)",
                        {"trace": [[h, s] for h, s in r.trace]}, key=f"spec:{base}:{r.violation_name}")
            return res
        out = os.path.join(scratch, "beh")
        rs = tlc.run_tlc(mod, cf, workers=1, simulate=f"file={out},num={nbeh}", depth=depth, seed=seed() + 7, coverage=False,
                         java_opts=mcgen.LIB_OPT, timeout=1800, allow_timeout=True)
        rp = replay.Replayer(tlc.Graph({}, {}, []), adapter)
        files = sorted(glob.glob(out + "*"))
        for f in files:
            rp.run_behaviour(tlc.load_behaviour(f))
        res.traces_validated += rp.paths
        res.extra.setdefault("replay", []).append({"model": name, "simulated_behaviours": len(files), "depth": depth,
                                                   "steps_executed": rp.steps, "divergence_keys": dict(rp.div_keys)})
        for d in rp.divergences:
            res.violate("C04.replay", f"{base}: {d.describe()}", d.detail(), key=f"{base}:{d.key()}")
    return res


def run(tier: str) -> CheckResult:
    res = CheckResult("C04", tier)
    res.assumptions = [
        "TLC explores Ledger.tla / Cluster.tla exhaustively for the stated constants only",
        "projection of the real objects goes through public getters (get_available_quantity, "
        "get_allocated_quantity, get_total_quantity, get_allocated_computation, get_placed_tasks, "
        "get_allocated_resources, can_accomodate_strategy, get_pending/available_profiles)",
        "worker resource instances have distinct specific ids, or a single 'any' instance per name",
    ]
    q = tier == "quick"
    lcfgs = ["quick"]
    jobs = []
    for c in lcfgs:
        jobs.append(("Ledger", LEDGER_CFG[c], LEDGER_INV, LedgerAdapter, c, f"Ledger/{c}",
                     3 if q else 4, 60000 if q else 3_000_000, 300 if q else 5000, 40 if q else 600))
        jobs.append(("Cluster", CLUSTER_CFG[c], CLUSTER_INV, ClusterAdapter, c, f"Cluster/{c}",
                     3 if q else 4, 60000 if q else 3_000_000, 300 if q else 5000, 50 if q else 900))
    for part in parallel(_mc_and_replay, jobs):
        res.merge(part)
    if not q:
        # the larger constants: exhaustive model checking + replay of TLC-simulated behaviours (the graph is too big to dump)
        big = [("Ledger", LEDGER_CFG["thorough"], LEDGER_INV, LedgerAdapter, "Ledger/thorough", 3000, 40),
               ("Cluster", CLUSTER_CFG["thorough"], CLUSTER_INV, ClusterAdapter, "Cluster/thorough", 3000, 40)]
        for part in parallel(_mc_and_simulate, big):
            res.merge(part)
    # T: "whenever no task is running every worker is back at full capacity" on the sim corpus
    from . import simmc, simprops

    simmc.check("C04", tier, res)
    simprops.check("C04", tier, res)
    return res
