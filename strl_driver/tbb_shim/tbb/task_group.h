// Sequential stand-in for tbb::task_group (verification driver only): run()
// executes the task immediately on the calling thread, wait() is a no-op.
#ifndef VERIF_TBB_SHIM_TASK_GROUP_H
#define VERIF_TBB_SHIM_TASK_GROUP_H
#include <utility>

namespace tbb {
class task_group {
 public:
  task_group() = default;
  task_group(const task_group&) = delete;
  task_group& operator=(const task_group&) = delete;
  template <typename F>
  void run(F&& f) {
    std::forward<F>(f)();
  }
  template <typename F>
  void run_and_wait(F&& f) {
    std::forward<F>(f)();
  }
  void wait() {}
  void cancel() {}
};
}  // namespace tbb
#endif
