"""C12 - deadline enforcement: no plan that misses a deadline, hopeless tasks dropped.

spec/PlanRules.tla is the oracle (Admit, HopelessCancelled, HopelessNotPlaced, DeadlineOK,
PlansViolatingOnly("deadline"), CompletedOK).

T1  instances with deadlines relative to now in {past, tight-1, tight, tight+1, tight+2, loose}
    (tight = now + runtime of the fastest strategy), 1-2 strategies (the fast one may fit only
    the bigger worker), 1-2 workers, a second independent task, a busy worker, chains whose
    child deadline is tight relative to the chain: real objects, real `schedule()` of EDF, FIFO,
    Clockwork, TetriSched-CPLEX (hopeless -> CANCEL), ILP task-by-task and TetriSched-Gurobi
    (hopeless -> left unplaced; placed => start + chosen runtime <= deadline, also for
    TetriSched-CPLEX and Clockwork); TLC judges every decision record.
T2  solution pools of the captured ILP / TetriSched-Gurobi models -> C12.model_solution.
R   TLC enumerates the plans that violate only the deadline rule (PlansViolatingOnly); each
    must be INFEASIBLE in the captured model (Gurobi copies; for TetriSched-CPLEX a clone of the
    docplex model taken at solve()) -> C12.model_admits_late_plan.
E   end to end: worlds simulated with ILP (task-by-task), TetriSched-Gurobi, TetriSched-CPLEX
    and Clockwork, enforce_deadlines, zero runtime variance (harness/simrun.run_world); the
    final task states of the trace go to TLC: every COMPLETED task finished by its deadline
    -> C12.completed_by_deadline.  Every other ILP / TetriSched-CPLEX world runs with
    batching=True.  Every scheduler invocation inside the simulated run is a call record too
    (the tasks as they were when the policy was invoked, the returned placements): T1 clauses.
MI  multi-invocation scenarios (cc.realize_steps): ONE scheduler object is invoked 2-3 times;
    between two invocations the answer is applied to the real tasks / workers with the calls the
    Simulator makes (Task.schedule / unschedule, TaskGraph.cancel, WorkerPool.place_task +
    Task.start at the planned time, WorkerPool.step, remove_task + Task.finish), time advances,
    new work is released (urgent / loose / hopeless).  Every invocation is a call record (T1),
    its captured model goes through T2 and R: a SCHEDULED task that is planned again must still
    meet its deadline.  Families: mi-replan (ILP, TetriSched-Gurobi, TetriSched-CPLEX: a planned
    task pushed by an urgent arrival, deadline swept over the boundary), mi-batch (ILP and
    TetriSched-CPLEX with batching=True: a batch whose members have different deadlines, tight
    member first / not first in creation order and in the scheduler's set order (salt), is
    rebuilt and planned again; BatchGurobiView / BatchCplexView map per-task plans to the
    BatchTask variables of the captured model), mi-queue (Clockwork, EDF, FIFO: a waiting task
    whose deadline passes while the worker is busy), mi-rnd (seeded random scenarios).
CWQ Clockwork request queues over 3-5 invocations (mi-cwq directed, mi-cwq-rnd seeded random histories): one or two
    models with 2-3 strategies (batch sizes 1 / 2 / 4, different runtimes, listed fastest or slowest first), the worker
    held by a RUNNING task of another model for a while, a request whose deadline lies on the boundary of each strategy
    at each invocation time (it runs out of time for the slow strategies first, for the faster ones later, is hopeless
    in the end), loose requests that fill the batches, later arrivals with looser deadlines.  EVERY answer is judged:
    the strategy chosen for each placed request finishes by its deadline, a hopeless request is cancelled and not
    placed, one answer never cancels AND places a task (C12.cancelled_and_placed: decision field `c`).
VAR admit-multi (a worker's capacity listed under several resource ids of one name), admit-units / busy-units (the
    instance on a clock 1000 times coarser, runtimes / deadlines / release / now / discretisation handed to the code
    in different EventTime units, same microsecond values) for all six policies.
"""
from __future__ import annotations

import json
import os
import time

from . import c11c12_common as cc
from .common import GUARD, CheckResult, parallel, rng, seed
from .c11c12_common import S1, S1L, S2, S2E, mk_inst, mk_task

NOW = 3
CANCEL = ("EDF", "FIFO", "TSC", "CW")
PLANNERS = ("ILP", "TSG")
POLICIES = CANCEL + PLANNERS
DELTAS = {"past": None, "tight-1": -1, "tight": 0, "tight+1": 1, "tight+2": 2, "loose": 9}

CFG = {
    "quick": dict(n_inst=62, chunks=9, cw_all=False, cw_random=40, cw_chunks=2, pool_cap=80, pool_time=2, plan_cap=200, max_product=4000, tlc_timeout=300, worlds=12,
                  judge_batch=300, agree_small=0,
                  mi_scenarios=120, mi_random=32, mi_chunks=6, mi_pool_cap=24, mi_pool_time=0.4, mi_plan_cap=40, mi_max_product=2500, mi_r_max=7),
    "thorough": dict(n_inst=100000, chunks=12, cw_all=True, cw_random=1500, cw_chunks=4, pool_cap=400, pool_time=4, plan_cap=4000, max_product=30000, tlc_timeout=3000, worlds=60,
                     judge_batch=4000, agree_small=600,
                     mi_scenarios=100000, mi_random=800, mi_chunks=12, mi_pool_cap=120, mi_pool_time=1, mi_plan_cap=300, mi_max_product=8000, mi_r_max=40),
}

STRATS = {"one": S1L, "two": S2, "twoE": S2E}


def _opts(policy, **kw):
    o = {"rtg": False, "lookahead": 0, "retract": policy == "TSG", "plan_ahead": -1}
    o.update(kw)
    return o


def _deadline(strats, dk):
    f = min(s["rt"] for s in strats)
    return NOW - 1 if DELTAS[dk] is None else NOW + f + DELTAS[dk]


def admission_instance(policy, skind, dk, workers, second, grid=1):
    st = STRATS[skind]
    tasks = [mk_task([], st, state="REL", release=1, deadline=_deadline(st, dk))]
    if second:
        # an independent task of another graph with room to spare
        tasks.append(mk_task([], S1, state="REL", release=2, deadline=NOW + 12, graph="H"))
    name = f"{policy}/admit/{skind}/{dk}/w{'+'.join(map(str, workers))}{'/second' if second else ''}/g{grid}"
    inst = mk_inst(name, policy, tasks, workers, now=NOW, horizon=NOW + 9, grid=grid, enforce=True, **_opts(policy))
    if policy in ("TSG", "TSC") and dk == "loose":
        inst["opts"]["plan_ahead"] = inst["horizon"] - NOW
    return inst


def admission_many(policy, nh, dk, feasible_first):
    """several hopeless tasks of different graphs offered next to each other in ONE invocation (plus a feasible one) on a
    worker with room for all: every one of them is dropped / left unplaced, not only the first of a run"""
    st = STRATS["one"]
    hop = [mk_task([], st, state="REL", release=1, deadline=_deadline(st, dk), graph=f"H{i}") for i in range(nh)]
    ok = [mk_task([], S1, state="REL", release=1, deadline=NOW + 12, graph="F")]
    tasks = (ok + hop) if feasible_first else (hop + ok)
    name = f"{policy}/admit-many/one/{dk}/h{nh}{'/ffirst' if feasible_first else ''}/g1"
    return mk_inst(name, policy, tasks, [4], now=NOW, horizon=NOW + 9, grid=1, enforce=True, **_opts(policy))


UNITS = (
    {"rt": "MS", "deadline": "US", "release": "US", "now": "US", "grid": "US"},
    {"rt": "US", "deadline": "MS", "release": "MS", "now": "MS", "grid": "MS"},
    {"rt": "MS", "deadline": "US", "release": "MS", "now": "US", "cur": "MS", "grid": "MS"},
)


def variant_instances():
    """two classes of inputs: workers that list a capacity under several resource ids of one name (`admit-multi`,
    `busy-multi`); times handed to the code in mixed EventTime units, same microsecond values (`admit-units`, `busy-units`:
    the instance on a clock 1000 times coarser, runtimes / deadlines / now in different units)"""
    out = []
    for policy in POLICIES:
        for dk in DELTAS:
            for skind in ("two", "twoE", "one"):
                for split, workers in (("ones", [2]), ("uneven", [1, 2]), ("ones", [1, 2])):
                    i = admission_instance(policy, skind, dk, workers, skind == "twoE")
                    i["name"] = i["name"].replace("/admit/", "/admit-multi/") + f"/{split}"
                    i["wsplit"] = split
                    out.append(i)
                for ux, units in enumerate(UNITS):
                    i = cc.scale_times(admission_instance(policy, skind, dk, [2] if ux != 1 else [1, 2], ux == 2), 1000)
                    i["name"] = i["name"].replace("/admit/", "/admit-units/") + f"/u{ux}"
                    i["units"] = units
                    out.append(i)
            i = cc.scale_times(busy_instance(policy, dk), 1000)
            i["name"] = i["name"].replace("/busy/", "/busy-units/")
            i["units"] = UNITS[2]
            out.append(i)
    return out


def busy_instance(policy, dk, grid=1):
    """the only worker is held by a RUNNING task of another graph until now + 2"""
    run = mk_task([], [{"dem": 1, "rt": 4}], state="RUN", release=0, deadline=NOW + 20, graph="H", cur={"w": 1, "s": NOW - 2, "k": 1})
    st = S2E
    t = mk_task([], st, state="REL", release=1, deadline=_deadline(st, dk) + 2)
    name = f"{policy}/busy/{dk}/g{grid}"
    return mk_inst(name, policy, [run, t], [1], now=NOW, horizon=NOW + 10, grid=grid, enforce=True, **_opts(policy))


def chain_instance(policy, mode, dk, workers, skind):
    """a chain whose child deadline is tight relative to the chain"""
    pa = STRATS[skind]
    fa = min(s["rt"] for s in pa)
    child_dl = NOW - 1 if DELTAS[dk] is None else NOW + fa + 2 + DELTAS[dk]
    a = mk_task([], pa, state="REL", release=0, deadline=NOW + 12)
    b = mk_task([1], S1, state="REL" if mode == "rel" else "VIRT", release=0, deadline=child_dl)
    o = _opts(policy)
    if mode == "virt":
        if policy == "ILP":
            o["lookahead"] = 20
        else:
            o["rtg"] = True
    name = f"{policy}/chain/{mode}/{skind}/{dk}/w{'+'.join(map(str, workers))}"
    return mk_inst(name, policy, [a, b], workers, now=NOW, horizon=NOW + 9, enforce=True, **o)


# ---------------------------------------------------------------------------
# multi-invocation scenarios: one scheduler object is invoked several times; between two invocations the answer is
# applied to the real tasks / workers the way the Simulator does (cc.realize_steps); EVERY invocation is a call record.

PB2 = [{"dem": 1, "rt": 3, "bs": 2}]  # a profile that only runs as a batch of two
PB12 = [{"dem": 1, "rt": 2, "bs": 1}, {"dem": 1, "rt": 3, "bs": 2}]  # alone (faster) or as a batch of two
MI_PLANNERS = ("ILP", "TSG", "TSC")
MI_BATCHING = ("ILP", "TSC")
MI_GREEDY = ("CW", "EDF", "FIFO")


def _mi(name, policy, tasks, workers, steps, horizon, salt=0, **kw):
    inst = mk_inst(name, policy, tasks, workers, now=steps[0], horizon=horizon, enforce=True, **_opts(policy, retract=False, **kw))
    inst["steps"], inst["salt"] = list(steps), salt
    return inst


def replan_scenario(policy, d_a, du, hopeless, workers, steps=(3, 4), retract=False):
    """A1 takes the worker first, A2 (deadline d_a) is planned behind it; before the second invocation an urgent
    task U (deadline = now2 + its runtime + du), optionally a hopeless H and a loose L arrive.  A2, still SCHEDULED,
    is planned again together with them."""
    now2 = steps[-1]
    tasks = [
        mk_task([], S1, state="REL", release=1, deadline=30, graph="A1"),
        mk_task([], S1, state="REL", release=2, deadline=d_a, graph="A2"),
        mk_task([], S1, deadline=now2 + 2 + du, graph="U", phase=len(steps), rel_at=now2),
    ]
    if hopeless:
        tasks.append(mk_task([], S1L, deadline=now2 + 2, graph="H", phase=len(steps), rel_at=now2))
        tasks.append(mk_task([], S2E, deadline=now2 + 20, graph="L", phase=len(steps), rel_at=now2))
    name = (f"{policy}/mi-replan/a{d_a}/u{du}{'/hopeless' if hopeless else ''}/w{'+'.join(map(str, workers))}/t{'-'.join(map(str, steps))}"
            f"{'/retract' if retract else ''}")
    inst = _mi(name, policy, tasks, workers, steps, horizon=steps[0] + (8 if hopeless else 10))
    # retract_schedules: the SCHEDULED task is offered again and may be left unplaced or planned again
    inst["opts"]["retract"] = retract
    return inst


def batch_scenario(policy, d_t, du, tight_first, blocker, strats, salt, steps):
    """two tasks of one work profile with different deadlines (loose / d_t) are planned as a batch; before the next
    invocation an urgent task of another profile arrives that wants the same worker.  The batch, still SCHEDULED, is
    rebuilt by the scheduler and planned again: it must still meet the deadline of *every* member."""
    now2 = steps[-1]
    pair = [
        mk_task([], strats, state="REL", release=2, deadline=d_t, prof="B", graph="T"),
        mk_task([], strats, state="REL", release=1, deadline=24, prof="B", graph="L"),
    ]
    if not tight_first:
        pair.reverse()
    tasks = []
    if blocker:
        tasks.append(mk_task([], [{"dem": 1, "rt": 4}], state="RUN", release=0, deadline=30, graph="R", cur={"w": 1, "s": steps[0] - 2, "k": 1}))
    tasks += pair
    tasks.append(mk_task([], S1L, deadline=now2 + 3 + du, graph="U", phase=len(steps), rel_at=now2))
    sk = "b2" if strats is PB2 else "b12"
    name = (f"{policy}/mi-batch/{sk}/t{d_t}/u{du}/{'tight' if tight_first else 'loose'}-first{'/blocker' if blocker else ''}"
            f"/s{salt}/t{'-'.join(map(str, steps))}")
    return _mi(name, policy, tasks, [1], steps, horizon=steps[0] + (12 if blocker else 10), salt=salt, batching=True)


def queue_scenario(policy, d_q, du, hopeless, shared, steps):
    """policies that only place now: A runs, Q (deadline d_q) waits for the worker; at the later invocations the
    worker is (about to be) free, an urgent U and optionally a hopeless H have arrived"""
    now_l = steps[-1]
    st = PB12 if shared else S1
    kw = {"prof": "M"} if shared else {}
    tasks = [
        mk_task([], st, state="REL", release=1, deadline=30, graph="A", **kw),
        mk_task([], st, state="REL", release=2, deadline=d_q, graph="Q", **kw),
        mk_task([], st, deadline=now_l + 2 + du, graph="U", phase=len(steps), rel_at=now_l, **kw),
    ]
    if hopeless:
        tasks.append(mk_task([], S1L, deadline=now_l + 2, graph="H", phase=len(steps), rel_at=now_l))
    name = f"{policy}/mi-queue/q{d_q}/u{du}{'/hopeless' if hopeless else ''}{'/shared' if shared else ''}/t{'-'.join(map(str, steps))}"
    return _mi(name, policy, tasks, [1], steps, horizon=steps[0] + 10)


# Clockwork request queues over several invocations (second strengthening round).  One model with 2-3 strategies of
# batch size 1 / 2 / 4 and different runtimes; the only worker is held by a RUNNING task of another model for a while, so
# requests wait over 3-5 invocations: a request runs out of time for the slow strategies first and for the faster ones
# later, others arrive later with looser deadlines.  EVERY answer is a judged record (the strategy chosen for each placed
# request meets its deadline, a hopeless request is cancelled and not placed, never both).
CW_MODELS = {
    "m2": [{"dem": 1, "rt": 2, "bs": 1}, {"dem": 1, "rt": 4, "bs": 2}],
    "m3": [{"dem": 1, "rt": 2, "bs": 1}, {"dem": 1, "rt": 4, "bs": 2}, {"dem": 1, "rt": 6, "bs": 4}],
    "m3c": [{"dem": 1, "rt": 3, "bs": 1}, {"dem": 1, "rt": 4, "bs": 2}, {"dem": 1, "rt": 5, "bs": 4}],
    # listed slowest first (the order of the queues inside the scheduler follows the profile)
    "m3r": [{"dem": 1, "rt": 6, "bs": 4}, {"dem": 1, "rt": 4, "bs": 2}, {"dem": 1, "rt": 2, "bs": 1}],
}


def cw_queue_scenario(mk, free_at, d1, fill, late, steps):
    """R1 (deadline d1) and `fill` loose requests of model M wait while the worker is held until `free_at`; `late`:
    another request arrives before the third invocation with a looser deadline (d1 + 3) and one with a loose one"""
    st = CW_MODELS[mk]
    tasks = [
        mk_task([], [{"dem": 1, "rt": free_at - (steps[0] - 1)}], state="RUN", release=0, deadline=60, graph="B", prof="X",
                cur={"w": 1, "s": steps[0] - 1, "k": 1}),
        mk_task([], st, state="REL", release=2, deadline=d1, graph="R1", prof="M"),
    ]
    for j in range(fill):
        tasks.append(mk_task([], st, state="REL", release=1 + j % 2, deadline=40 + 3 * j, graph=f"F{j}", prof="M"))
    if late and len(steps) >= 3:
        tasks.append(mk_task([], st, deadline=d1 + 3, graph="N1", prof="M", phase=3, rel_at=steps[2]))
        tasks.append(mk_task([], st, deadline=50, graph="N2", prof="M", phase=len(steps), rel_at=steps[-1]))
    name = f"CW/mi-cwq/{mk}/f{free_at}/d{d1}/n{fill}{'/late' if late else ''}/t{'-'.join(map(str, steps))}"
    return _mi(name, "CW", tasks, [1], steps, horizon=steps[0] + 10)


def cw_directed_scenarios():
    out = []
    for mk in CW_MODELS:
        for free_at in (5, 6, 7):
            steps = sorted({3, 4, free_at - 1, free_at, free_at + 1})
            for d1 in range(4, 15):
                for fill, late in ((1, False), (3, True), (1, True), (4, False)):
                    if (d1 + free_at + fill) % 2 and mk in ("m3c", "m3r"):
                        continue
                    out.append(cw_queue_scenario(mk, free_at, d1, fill, late, steps))
    return out


def cw_random_history(rnd, n):
    """seeded: 1-2 models with 2-3 strategies, a held worker, 4-8 requests released over the invocations with deadlines
    around the boundary of one of the strategies at one of the (later) invocation times"""
    nsteps = rnd.choice([3, 4, 5])
    steps = [3]
    for _ in range(nsteps - 1):
        steps.append(steps[-1] + rnd.choice([1, 1, 2]))
    models = {"M": CW_MODELS[rnd.choice(sorted(CW_MODELS))]}
    if rnd.random() < 0.4:
        models["K"] = rnd.choice([CW_MODELS["m2"], [{"dem": 1, "rt": 3, "bs": 1}], [{"dem": 1, "rt": 1, "bs": 1}, {"dem": 1, "rt": 3, "bs": 2}]])
    workers = rnd.choice([[1], [1], [1], [1, 1]])
    tasks = []
    for w in range(len(workers)):
        if w == 0 or rnd.random() < 0.6:
            free_at = rnd.choice(steps[1:]) + rnd.choice([0, 0, 1])
            tasks.append(mk_task([], [{"dem": 1, "rt": free_at - (steps[0] - 1)}], state="RUN", release=0, deadline=90, graph=f"B{w}", prof=f"X{w}",
                                 cur={"w": w + 1, "s": steps[0] - 1, "k": 1}))
    for j in range(rnd.choice([4, 5, 6, 8])):
        pn = rnd.choice(sorted(models)) if j else "M"
        st = models[pn]
        phase = 1 if j < 2 else rnd.choice([1, 1] + list(range(2, nsteps + 1)))
        if rnd.random() < 0.35:
            dl = rnd.choice([30, 40, 50]) + j
        else:
            # on the boundary of strategy k at a later invocation time
            at = rnd.choice(steps[phase - 1:])
            dl = at + rnd.choice(st)["rt"] + rnd.choice([-1, -1, 0, 0, 1, 2])
        if phase == 1:
            tasks.append(mk_task([], st, state="REL", release=rnd.choice([1, 2, 3]), deadline=dl, graph=f"G{j}", prof=pn))
        else:
            tasks.append(mk_task([], st, deadline=dl, graph=f"G{j}", prof=pn, phase=phase, rel_at=steps[phase - 1]))
    return _mi(f"CW/mi-cwq-rnd/{n}", "CW", tasks, workers, steps, horizon=steps[0] + 10, salt=rnd.randrange(4))


def directed_scenarios():
    out = []
    for policy in MI_PLANNERS:
        for d_a in (7, 8, 9, 10, 11, 12, 13, 15):
            for du in (0, 1, 3):
                for hopeless in (False, True):
                    out.append(replan_scenario(policy, d_a, du, hopeless, [1]))
            out.append(replan_scenario(policy, d_a, 0, False, [1, 1]))
            out.append(replan_scenario(policy, d_a, 1, False, [1], steps=(3, 3)))
            out.append(replan_scenario(policy, d_a, 0, True, [1], steps=(3, 4, 5)))
            out.append(replan_scenario(policy, d_a, 1, d_a % 2 == 0, [1], retract=True))
    for policy in MI_BATCHING:
        for strats in (PB2, PB12):
            for blocker in (False, True):
                steps = (3, 4) if blocker else (3, 3)
                for d_t in ((6, 7, 8, 9, 10, 12) if not blocker else (9, 10, 11, 12, 13, 14, 16)):
                    for du in (1, 2):
                        for tight_first in (False, True):
                            for salt in (0, 1):
                                out.append(batch_scenario(policy, d_t, du, tight_first, blocker, strats, salt, steps))
    for policy in MI_GREEDY:
        for d_q in (5, 6, 7, 8, 12):
            for du in (0, 1):
                for hopeless in (False, True):
                    for shared in ((False, True) if policy == "CW" else (False,)):
                        out.append(queue_scenario(policy, d_q, du, hopeless, shared, (3, 5)))
                out.append(queue_scenario(policy, d_q, du, True, False, (3, 4, 5)))
    return out


def random_scenario(rnd, n):
    """seeded: 3-5 tasks over 1-2 work profiles, 2-3 invocations, deadlines around the boundary of what can still
    be met at the invocation the task is released for"""
    kind = rnd.choice(["ILP", "ILP+b", "ILP+b", "TSG", "TSC", "TSC+b", "TSC+b", "CW", "CW"])
    policy, batching = kind.split("+")[0], kind.endswith("+b")
    nsteps = rnd.choice([2, 2, 3])
    steps = [3]
    for _ in range(nsteps - 1):
        steps.append(steps[-1] + rnd.choice([0, 1, 1, 2]) if policy != "CW" else steps[-1] + rnd.choice([1, 2, 3]))
    profs = {"B": rnd.choice([PB2, PB12, PB12]), "C": rnd.choice([S1, S1L, S2E])}
    workers = rnd.choice([[1], [1], [1, 1], [2]])
    tasks = []
    if policy != "CW" and rnd.random() < 0.5:
        tasks.append(mk_task([], [{"dem": 1, "rt": 4}], state="RUN", release=0, deadline=30, graph="R", cur={"w": 1, "s": steps[0] - rnd.choice([1, 2]), "k": 1}))
    for j in range(rnd.choice([3, 3, 4])):
        pn = rnd.choice(["B", "B", "C"]) if (batching or policy == "CW") else "C"
        st = profs[pn]
        phase = 1 if j < 2 else rnd.randrange(1, nsteps + 1)
        at = steps[phase - 1]
        fast = min(s["rt"] for s in st)
        dl = at + fast + rnd.choice([-1, 0, 0, 1, 1, 2, 3, 4, 6, 9, 15])
        kw = {"prof": pn} if (pn == "B" or policy == "CW") else {}
        if phase == 1:
            tasks.append(mk_task([], st, state="REL", release=rnd.choice([1, 2, 3]), deadline=dl, graph=f"G{j}", **kw))
        else:
            tasks.append(mk_task([], st, deadline=dl, graph=f"G{j}", phase=phase, rel_at=at, **kw))
    name = f"{policy}/mi-rnd/{'batching/' if batching else ''}{n}"
    return _mi(name, policy, tasks, workers, steps, horizon=steps[0] + 9, salt=rnd.randrange(4), batching=batching)


def scenario_selection(scns, n, rnd):
    """quick tier: every policy x family x boundary parameter at least once; the rest seeded"""
    by = {}
    for i in scns:
        parts = i["name"].split("/")
        by.setdefault((parts[0], parts[1], parts[2] if parts[1] != "mi-batch" else parts[3]), []).append(i)
    sel, names = [], set()
    for key in sorted(by):
        c = rnd.choice(by[key])
        sel.append(c)
        names.add(c["name"])
    rest = [i for i in scns if i["name"] not in names]
    rnd.shuffle(rest)
    sel += rest[: max(0, n - len(sel))]
    return sel


def all_instances():
    out = []
    for policy in POLICIES:
        for skind in ("one", "two", "twoE"):
            for dk in DELTAS:
                for workers in ([2], [1, 2], [1]):
                    for second in (False, True):
                        grids = (1, 2) if policy in ("TSG", "TSC") and not second and skind == "one" else (1,)
                        for grid in grids:
                            out.append(admission_instance(policy, skind, dk, workers, second, grid))
        for dk in DELTAS:
            out.append(busy_instance(policy, dk))
    for policy in PLANNERS:
        for mode in ("rel", "virt"):
            for skind in ("one", "twoE", "two"):
                for dk in DELTAS:
                    for workers in ([2], [1, 2]):
                        out.append(chain_instance(policy, mode, dk, workers, skind))
    for policy in POLICIES:
        for nh in (2, 3):
            for dk in ("past", "tight-1"):
                for ff in (False, True):
                    out.append(admission_many(policy, nh, dk, ff))
    out += variant_instances()
    return out


def quick_selection(insts, n, rnd):
    """every policy x deadline kind at least once, every class per policy; the rest seeded"""
    by = {}
    for i in insts:
        parts = i["name"].split("/")
        dk = next(p for p in parts if p in DELTAS)
        by.setdefault((parts[0], dk), []).append(i)
    sel, names = [], set()
    for key in sorted(by):
        c = rnd.choice(by[key])
        sel.append(c)
        names.add(c["name"])
    for policy in POLICIES:
        for cls in ("busy", "chain", "admit-multi", "admit-units", "busy-units", "admit-many"):
            cands = [i for i in insts if i["name"].startswith(f"{policy}/{cls}/") and i["name"] not in names]
            if cands:
                c = rnd.choice(cands)
                sel.append(c)
                names.add(c["name"])
    rest = [i for i in insts if i["name"] not in names]
    rnd.shuffle(rest)
    for i in rest:
        if len(sel) >= n:
            break
        sel.append(i)
    return sel[: max(n, len(by))]


# ---------------------------------------------------------------------------
# end to end


def e2e_worlds(n, rnd):
    R = lambda q: [{"name": "gpu", "id": "any", "q": q}]  # noqa: E731
    I = lambda i, c: {"name": "gpu", "id": i, "cap": c}  # noqa: E731
    zero_load = [{"dem": [], "rt": 0, "bs": 1}]
    out = []
    kinds = ["ilp", "ts_gurobi", "ts_cplex", "clockwork"]
    k = 0
    while len(out) < n:
        kind = kinds[k % len(kinds)]
        k += 1
        two = rnd.random() < 0.5
        # ILP / TetriSched-CPLEX: every other world of the kind with batching=True (BatchTasks, a strategy of batch size 2)
        batching = kind in ("ilp", "ts_cplex") and (k // len(kinds)) % 2 == 1
        rt1 = rnd.choice([1, 2, 4])
        profiles = [
            {"name": "P0", "strats": [{"dem": R(1), "rt": rnd.choice([2, 3]), "bs": 1}]
             + ([{"dem": R(2), "rt": 1, "bs": 1}] if two and kind != "clockwork" else []), "loading": zero_load},
            {"name": "P1", "strats": [{"dem": R(1), "rt": rt1, "bs": 1}]
             + ([{"dem": R(1), "rt": rt1 + 1, "bs": 2}] if batching or (kind == "clockwork" and two) else []), "loading": zero_load},
        ]
        shape = rnd.choice(["single", "chain2", "fork", "chain2"])
        jobs = {
            "single": [{"name": "A", "profile": 0}],
            "chain2": [{"name": "A", "profile": 0, "children": ["B"]}, {"name": "B", "profile": 1}],
            "fork": [{"name": "A", "profile": 1, "children": ["B", "C"]}, {"name": "B", "profile": 0}, {"name": "C", "profile": 1}],
        }[shape]
        graphs = [
            {"name": "G0", "jobs": jobs, "policy": {"type": "fixed", "period": rnd.choice([1, 2, 3]), "n": rnd.choice([3, 4]), "start": rnd.choice([0, 1])},
             "dv": rnd.choice([[0, 0], [20, 60], [50, 150], [0, 100]])},
        ]
        if rnd.random() < 0.5:
            graphs.append({"name": "G1", "jobs": [{"name": "X", "profile": 1}],
                           "policy": {"type": "fixed", "period": 2, "n": 3, "start": 0}, "dv": rnd.choice([[0, 50], [30, 90]])})
        pools = [[[I("g1", rnd.choice([1, 2]))]] + ([[I("g2", 1)]] if rnd.random() < 0.4 else [])]
        sched = {"kind": kind, "runtime": 0, "enforce": True, "lookahead": 0, "retract": kind == "ts_gurobi", "rtg": False,
                 "goal": "max_goodput", "disc": 1, "plan_ahead": 10, "batching": batching}
        out.append({
            "name": f"e2e/{kind}{'+batching' if batching else ''}/{len(out)}", "profiles": profiles, "graphs": graphs, "pools": pools, "sched": sched,
            "flags": {"timeout": 120, "variance": 0, "frequency": -1, "drop_skipped": rnd.random() < 0.3},
            "seed": rnd.randrange(10**6), "preload": kind == "clockwork",
        })
    return out


def _e2e_job(world):
    """simulate one world under the tracer (forked child); returns the final task states"""
    os.environ[GUARD] = "1"
    from . import simrun, worlds
    from .realobj import ns, us

    if world["sched"]["kind"] in ("ilp", "ts_gurobi"):
        cc.quiet_gurobi()
    if not getattr(worlds, "_c12_wrapped", False):
        orig = worlds.build

        def build(w):
            pools, sched, loader, flags, fl, sc = orig(w)
            if w.get("preload"):
                # Simulator never calls scheduler.start(): the models are loaded here (zero-cost loading strategy)
                N = ns()
                profs = {}
                for tg in loader._workload.task_graphs.values():
                    for t in tg.get_nodes():
                        profs[t.profile.id] = t.profile
                for pool in pools.worker_pools:
                    for w_ in pool.workers:
                        for p in profs.values():
                            w_.load_profile(p, N.ExecutionStrategy(resources=N.Resources(), batch_size=1, runtime=us(0)))
                        w_.step(us(0), us(1))
            return pools, sched, loader, flags, fl, sc

        orig_flags = worlds.mk_flags

        def mk_flags(w):
            f, fl, sc = orig_flags(w)
            f.scheduler_log_times = []  # an absl list flag: the solver-based schedulers iterate over it
            return f, fl, sc

        worlds.mk_flags = mk_flags
        worlds.build = build
        worlds._c12_wrapped = True
    import contextlib
    import io

    with contextlib.redirect_stdout(io.StringIO()):
        tr = simrun.run_world(world, wall_limit=90)
    last, static = {}, {}

    def statics(delta):
        for g in delta.get("new", []):
            for t in g["tasks"]:
                static[t["t"]] = t

    statics(tr.get("init", {}))
    for i, dyn in tr.get("init", {}).get("ts", []):
        last[i] = dyn
    nsched = 0
    calls = []
    for rec in tr.get("recs", []):
        if rec.get("sched"):
            nsched += 1
            # one record per scheduler invocation inside the Simulator: the tasks the policy was offered / answered for,
            # as they were when it was invoked (`last` = the state before this event), and the answers
            offered = set(rec["offers"][0]["res"]) if rec.get("offers") else set()
            decs = [d for d in rec["sched"]["decs"] if d["kind"] in (3, 4) and d["t"]]
            ids = sorted(offered | {d["t"] for d in decs})
            if ids and all(i in last and i in static for i in ids):
                calls.append({
                    "now": rec["tm"], "call": nsched,
                    "tasks": [{"t": i, "st": last[i]["st"], "rel": last[i]["rel"], "dl": last[i]["dl"], "plan": last[i]["plan"],
                               "strats": static[i]["strats"], "prof": static[i]["prof"], "offered": i in offered} for i in ids],
                    "decs": decs,
                })
        statics(rec.get("post", {}))
        for i, dyn in rec.get("post", {}).get("ts", []):
            last[i] = dyn
    return {
        "name": world["name"], "kind": world["sched"]["kind"], "end": tr.get("end"), "tasks": [last[i] for i in sorted(last)],
        "scheduler_calls": nsched, "wall_s": tr.get("wall_s"), "machinery_error": tr.get("machinery_error"),
        "calls": calls, "pools": tr.get("pools"), "batching": bool(world["sched"].get("batching")),
    }


def e2e_call_records(o):
    """the scheduler invocations of a simulated world -> call records of PlanRules (src "returned"): every returned plan,
    also of SCHEDULED tasks planned again, is judged with DeadlineOK / the admission clauses"""
    pol = {"ilp": "ILP", "ts_gurobi": "TSG", "ts_cplex": "TSC", "clockwork": "CW"}[o["kind"]]
    caps = [sum(r["cap"] for r in w) for pool in (o.get("pools") or []) for w in pool] or [1]
    out, skipped = [], 0
    for c in o.get("calls", []):
        tasks, dec, pos = [], [], {}
        ok = True
        for t in c["tasks"]:
            st = cc.TASK_STATES.get(t["st"])
            if st is None:
                ok = False
                break
            strats = [{"dem": sum(x["q"] for x in s["dem"]), "rt": s["rt"], "bs": s["bs"]} for s in t["strats"]]
            plan = t["plan"]
            cur = {"w": 0, "s": 0, "k": 0}
            if st in ("SCHED", "RUN"):
                k = next((j + 1 for j, s in enumerate(strats) if (s["rt"], s["bs"]) == (plan["sd"]["rt"], plan["sd"]["bs"])), 0)
                cur = {"w": max(1, plan["wk"]), "s": max(0, plan["tm"]), "k": k}
                ok = ok and k > 0
            pos[t["t"]] = len(tasks)
            tasks.append(mk_task([], strats, state=st, release=max(0, t["rel"]) if st != "VIRT" else -1, deadline=t["dl"], cur=cur,
                                 fin=(cur["s"] + strats[cur["k"] - 1]["rt"]) if cur["k"] else -1,
                                 offered=t["offered"], dec=True, prof=f"P{t['prof']}"))
            dec.append({"kind": "none", "w": 0, "s": 0, "k": 0})
        for d in c["decs"] if ok else []:
            j = pos[d["t"]]
            if d["kind"] == 3:
                if dec[j]["kind"] == "place":
                    dec[j]["c"] = True  # one answer cancels and places the task
                    continue
                dec[j] = {"kind": "cancel", "w": 0, "s": 0, "k": 0, "c": True}
            elif not d["placed"]:
                if dec[j]["kind"] == "none":
                    dec[j] = {"kind": "unplaced", "w": 0, "s": 0, "k": 0}
            else:
                st_ = tasks[j]["strats"]
                k = next((x + 1 for x, s in enumerate(st_) if (s["rt"], s["bs"]) == (d["sd"]["rt"], d["sd"]["bs"])), 0)
                if k == 0 or d["wk"] > len(caps):
                    ok = False
                    break
                dec[j] = {"kind": "place", "w": max(1, d["wk"]), "s": d["tm"], "k": k, "c": dec[j]["kind"] == "cancel"}
        if not ok:
            skipped += 1
            continue
        inst = mk_inst(f"{o['name']}/call{c['call']}", pol, tasks, caps, now=c["now"], horizon=c["now"], enforce=True,
                       batching=o.get("batching", False))
        inst["step"] = c["call"]
        out.append({"src": "returned", "inst": inst, "dec": dec, "info": {"e2e_call": True}})
    return out, skipped


def e2e_record(o):
    """final task states -> a record of PlanRules (only state / fin / deadline matter)"""
    pol = {"ilp": "ILP", "ts_gurobi": "TSG", "ts_cplex": "TSC", "clockwork": "CW"}[o["kind"]]
    tasks = []
    for t in o["tasks"]:
        done = t["st"] == 7
        tasks.append(mk_task([], [{"dem": 1, "rt": 1}], state="DONE" if done else "REL", release=max(0, t["rel"]),
                             deadline=t["dl"], fin=t["fin"] if done else -1, cur={"w": 1, "s": max(0, t["start"]), "k": 1}))
    if not tasks:
        return None
    inst = mk_inst(o["name"], pol, tasks, [1], now=0, horizon=0, enforce=True)
    dec = [{"kind": "none", "w": 0, "s": 0, "k": 0} for _ in tasks]
    return {"src": "e2e", "inst": inst, "dec": dec, "info": {}}


# ---------------------------------------------------------------------------


def _job(kind, *a):
    if kind == "chunk":
        tag, insts, cfg = a
        return cc.run_chunk(tag, insts, "deadline", cfg)
    return _e2e_job(a[0])


def key_of(inst, what):
    """policy + circumstance (instance class, deadline relative to now / which invocation) + clause"""
    parts = inst["name"].split("/")
    dk = next((p for p in parts if p in DELTAS), "")
    if parts[1].startswith("mi-"):
        dk = ("batching/" if inst["opts"].get("batching") else "") + f"invocation{min(inst.get('step', 1), 2)}"
    return f"{parts[0]}/{parts[1]}/{dk}|{what}"


def run(tier: str) -> CheckResult:
    res = CheckResult("C12", tier)
    cfg = dict(CFG[tier], seed=seed(), models=True)
    rnd = rng("c12")
    insts = all_instances()
    if len(insts) > cfg["n_inst"]:
        insts = quick_selection(insts, cfg["n_inst"], rnd)
    # TetriSched-CPLEX and Gurobi calls are the slow ones: spread the policies over the chunks
    insts.sort(key=lambda i: i["policy"])
    parts = [insts[k::cfg["chunks"]] for k in range(cfg["chunks"])]
    jobs = [("chunk", f"c12/{k}", p, cfg) for k, p in enumerate(parts) if p]
    # multi-invocation scenarios (directed families + seeded random ones), chunks of their own
    scns = directed_scenarios()
    n_directed = len(scns)
    if len(scns) > cfg["mi_scenarios"]:
        scns = scenario_selection(scns, cfg["mi_scenarios"], rng("c12-mi"))
    rr = rng("c12-mi-rnd")
    scns += [random_scenario(rr, n) for n in range(cfg["mi_random"])]
    scns.sort(key=lambda i: (i["policy"], i["name"]))
    # Clockwork request queues over 3-5 invocations: chunks of their own (no solver model: cheap), every answer judged
    cw = cw_directed_scenarios()
    n_cw_directed = len(cw)
    if not cfg["cw_all"]:
        # one (fill, late arrival) variant per model x time the worker is released x deadline of the waiting request
        pick, by = rng("c12-cwq"), {}
        for i in cw:
            by.setdefault(tuple(i["name"].split("/")[2:5]), []).append(i)
        cw = [pick.choice(by[k]) for k in sorted(by)]
    rc = rng("c12-cwq-rnd")
    cw += [cw_random_history(rc, n) for n in range(cfg["cw_random"])]
    mi_cfg = dict(cfg, pool_cap=cfg["mi_pool_cap"], pool_time=cfg["mi_pool_time"], plan_cap=cfg["mi_plan_cap"], max_product=cfg["mi_max_product"], r_from_invocation=2,
                  r_max_instances=cfg["mi_r_max"])
    mi_parts = [scns[k::cfg["mi_chunks"]] for k in range(cfg["mi_chunks"])]
    # (the multi-invocation chunks are the long ones: first in the queue of the process pool)
    jobs = [("chunk", f"c12/mi{k}", p, mi_cfg) for k, p in enumerate(mi_parts) if p] + jobs
    jobs += [("chunk", f"c12/cw{k}", cw[k::cfg["cw_chunks"]], dict(cfg, pool_cap=0, plan_cap=0)) for k in range(cfg["cw_chunks"]) if cw[k::cfg["cw_chunks"]]]
    scns = scns + cw
    worlds_ = e2e_worlds(cfg["worlds"], rng("c12-e2e"))
    jobs += [("e2e", w) for w in worlds_]
    t0 = time.time()
    outs_all = parallel(_job, jobs, procs=min(16, cfg["chunks"] + cfg["mi_chunks"] + cfg["cw_chunks"] + 1))
    t_jobs = time.time() - t0
    outs = [o for j, o in zip(jobs, outs_all) if j[0] == "chunk"]
    e2e = [o for j, o in zip(jobs, outs_all) if j[0] == "e2e"]
    recs = []
    for o in outs:
        for r in o["records"]:
            r["id"] = len(recs) + 1
            recs.append(r)
    e2e_stats = {"worlds": len(e2e), "tasks": 0, "completed": 0, "cancelled": 0, "by_policy": {}, "crashed": 0, "scheduler_calls": 0,
                 "call_records": 0, "call_records_not_projectable": 0, "call_records_with_scheduled_task_planned_again": 0}
    notes = []
    for o in e2e:
        if o.get("machinery_error"):
            raise cc.tlc.TLCMachineryError(f"e2e world {o['name']}: {o['machinery_error']}")
        end = o.get("end") or {}
        if end.get("exc") or end.get("hang"):
            e2e_stats["crashed"] += 1
            notes.append(f"{o['name']}: simulate() ended with {end.get('exc') or end.get('hang')} (final states still checked)")
        r = e2e_record(o)
        if r is None:
            if end.get("exc"):
                raise cc.tlc.TLCMachineryError(f"e2e world {o['name']} could not be built / run: {end.get('exc')}\n{end.get('tb', '')}")
            continue
        r["id"] = len(recs) + 1
        recs.append(r)
        crecs, skipped = e2e_call_records(o)
        for cr in crecs:
            cr["id"] = len(recs) + 1
            recs.append(cr)
        e2e_stats["call_records"] += len(crecs)
        e2e_stats["call_records_not_projectable"] += skipped
        e2e_stats["call_records_with_scheduled_task_planned_again"] += sum(
            1 for cr in crecs if any(t["state"] == "SCHED" and d["kind"] == "place" for t, d in zip(cr["inst"]["tasks"], cr["dec"]))
        )
        done = sum(1 for t in o["tasks"] if t["st"] == 7)
        e2e_stats["tasks"] += len(o["tasks"])
        e2e_stats["completed"] += done
        e2e_stats["cancelled"] += sum(1 for t in o["tasks"] if t["st"] == 8)
        e2e_stats["scheduler_calls"] += o["scheduler_calls"]
        bp = e2e_stats["by_policy"].setdefault(o["kind"] + ("+batching" if o.get("batching") else ""), {"worlds": 0, "completed": 0, "tasks": 0})
        bp["worlds"] += 1
        bp["completed"] += done
        bp["tasks"] += len(o["tasks"])
    t0 = time.time()
    fails, stats, truns = cc.judge_parallel(recs, batch=min(cfg["judge_batch"], max(100, -(-len(recs) // 14))), procs=14)
    t_judge = time.time() - t0
    for tr in truns:
        res.states += tr["distinct"]
        res.transitions += tr["generated"]
    res.extra["tlc_record_runs"] = truns
    res.traces_validated = len(recs)
    byid = {r["id"]: r for r in recs}
    by_name = {i["name"]: i for i in scns}
    counters = {}
    for o in outs:
        for k, v in o["counters"].items():
            counters[k] = counters.get(k, 0) + v
        notes += o["notes"]
        if "tlc" in o:
            res.states += o["tlc"]["distinct"]
            res.transitions += o["tlc"]["generated"]
    wf = 0
    for rid, clauses in sorted(fails.items()):
        r = byid[rid]
        for c in clauses:
            if c == "harness.wf":
                wf += 1
                notes.append(f"record of {r['inst']['name']} ({r['src']}) is not well formed: {r['dec']}")
                continue
            if not c.startswith("C12."):
                continue
            if r["src"] == "pool":
                clause, what = "C12.model_solution", f"a feasible solution of the {r['inst']['policy']} model violates {c}"
            elif r["src"] == "e2e":
                clause, what = c, f"a task completed after its deadline in a run with {r['inst']['policy']}, enforce_deadlines, exact runtimes"
            elif r["info"].get("e2e_call"):
                clause, what = c, f"an answer of {r['inst']['policy']} given inside a simulated run violates {c}"
            else:
                clause, what = c, f"the answer of {r['inst']['policy']} violates {c}"
            detail = {"source": r["src"], "failed_clause": c, "raw": {"inst": r["inst"], "dec": r["dec"]}}
            if r["src"] == "e2e":
                detail["late"] = [
                    {"task": i + 1, "finished": t["fin"], "deadline": t["deadline"], "started": t["cur"]["s"]}
                    for i, t in enumerate(r["inst"]["tasks"]) if t["state"] == "DONE" and t["fin"] > t["deadline"]
                ]
                detail["world"] = next((w for w in worlds_ if w["name"] == r["inst"]["name"]), None)
            else:
                detail["instance"] = cc.compact_inst(r["inst"], r["dec"])
                if "steps" in r["inst"]:
                    detail["scenario"] = by_name.get(r["inst"]["name"].rsplit("@", 1)[0])
            res.violate(clause, f"{what} [{r['inst']['name']}]", detail,
                        key=key_of(r["inst"], c if r["src"] != "pool" else f"model_solution:{c}"))
    if wf:
        raise cc.tlc.TLCMachineryError(f"{wf} malformed records: {notes[-3:]}")
    r_checked = r_complete = 0
    for o in outs:
        for rr in o["r"]:
            r_checked += 1
            r_complete += 1 if rr["complete"] else 0
            if rr["n_admitted"]:
                a = rr["admitted"][0]
                res.violate(
                    "C12.model_admits_late_plan",
                    f"the {rr['inst']['policy']} model admits a plan that misses a deadline (and breaks no other rule) [{rr['name']}]",
                    {
                        "instance": cc.compact_inst(rr["inst"], cc.dec_of_compact(rr["inst"], a["plan"])),
                        "late_by": a["margin"], "admitted_plans": rr["n_admitted"], "of_checked": rr["checked"],
                        "examples": rr["admitted"], "raw": {"inst": rr["inst"]},
                        **({"scenario": by_name.get(rr["name"].rsplit("@", 1)[0])} if "steps" in rr["inst"] else {}),
                    },
                    key=key_of(rr["inst"], "model_admits_late_plan"),
                )
    later = [r for r in recs if r["src"] == "returned" and r["inst"].get("step", 1) > 1]
    res.extra.update({
        "multi_invocation": {
            "directed_scenarios_defined": n_directed, "scenarios_run": len(scns),
            "clockwork_queue_scenarios": {
                "directed_defined": n_cw_directed, "run": len(cw), "seeded_random_histories": cfg["cw_random"],
                "by_model": {m: sum(1 for i in cw if i["name"].split("/")[2] == m) for m in sorted(CW_MODELS)},
                "by_number_of_invocations": {str(k): sum(1 for i in cw if len(i["steps"]) == k) for k in (3, 4, 5)},
                "answers_judged": sum(1 for r in recs if r["src"] == "returned" and "/mi-cwq" in r["inst"]["name"]),
                "answers_that_place": sum(1 for r in recs if r["src"] == "returned" and "/mi-cwq" in r["inst"]["name"]
                                          and any(d["kind"] == "place" for d in r["dec"])),
                "answers_that_cancel": sum(1 for r in recs if r["src"] == "returned" and "/mi-cwq" in r["inst"]["name"]
                                           and any(d["kind"] == "cancel" for d in r["dec"])),
            },
            "scenarios_by_policy": {
                p: sum(1 for i in scns if i["policy"] == p) for p in sorted({i["policy"] for i in scns})
            },
            "scenarios_with_batching": sum(1 for i in scns if i["opts"].get("batching")),
            "records_of_later_invocations": len(later),
            "later_invocations_by_policy": {
                p + ("+batching" if b else ""): sum(1 for r in later if r["inst"]["policy"] == p and bool(r["inst"]["opts"].get("batching")) == b)
                for p in sorted({r["inst"]["policy"] for r in later}) for b in (False, True)
                if any(r["inst"]["policy"] == p and bool(r["inst"]["opts"].get("batching")) == b for r in later)
            },
            "later_invocation_answers": {
                k: sum(1 for r in later for d in r["dec"] if d["kind"] == k) for k in ("place", "unplaced", "cancel", "none")
            },
            "scheduled_tasks_planned_again": sum(
                1 for r in later for t, d in zip(r["inst"]["tasks"], r["dec"]) if t["state"] == "SCHED" and d["kind"] == "place"
            ),
            "pool_records_of_later_invocations": sum(1 for r in recs if r["src"] == "pool" and r["inst"].get("step", 1) > 1),
            "pool_records_of_batching_models": sum(1 for r in recs if r["src"] == "pool" and r["inst"]["opts"].get("batching")),
            "r_instances_later_invocations": sum(1 for o in outs for x in o["r"] if x["inst"].get("step", 1) > 1),
            "r_instances_batching": sum(1 for o in outs for x in o["r"] if x["inst"]["opts"].get("batching")),
            "r_plans_checked_batching": sum(x["checked"] for o in outs for x in o["r"] if x["inst"]["opts"].get("batching")),
        },
        "instances": len(insts),
        "instances_by_policy": {p: sum(1 for i in insts if i["policy"] == p) for p in POLICIES},
        "instances_by_class": {c: sum(1 for i in insts if i["name"].split("/")[1] == c) for c in sorted({i["name"].split("/")[1] for i in insts})},
        "instances_with_capacity_under_several_resource_ids": sum(1 for i in insts if i.get("wsplit")),
        "instances_in_mixed_time_units": sum(1 for i in insts if i.get("units")),
        "records_returned": sum(1 for r in recs if r["src"] == "returned"),
        "records_pool": sum(1 for r in recs if r["src"] == "pool"),
        "records_e2e": sum(1 for r in recs if r["src"] == "e2e"),
        "answers": {
            k: sum(1 for r in recs if r["src"] == "returned" for d in r["dec"] if d["kind"] == k)
            for k in ("place", "unplaced", "cancel", "none")
        },
        "counters": counters,
        "r_instances": r_checked, "r_instances_all_plans_checked": r_complete,
        "record_stats": dict(zip(cc.STAT_NAMES, stats)),
        "e2e": e2e_stats,
        "timing_s": {"jobs": round(t_jobs, 1), "judge": round(t_judge, 1), "chunks": [o["timing"] for o in outs]},
        "constants": {k: v for k, v in cfg.items()},
    })
    want = [("cancel", 1), ("place", 2), ("unplaced", 1)]
    for kind, k in want:
        got = 0
        for r in recs:
            if r["src"] == "returned" and got < k and any(d["kind"] == kind for d in r["dec"]):
                res.samples.append({"instance": cc.compact_inst(r["inst"], r["dec"]), "verdict": fails.get(r["id"], "ok")})
                got += 1
    # later invocations: a SCHEDULED task planned again, without and with batching
    for batching in (False, True):
        r = next((r for r in later if "steps" in r["inst"] and bool(r["inst"]["opts"].get("batching")) == batching
                  and any(t["state"] == "SCHED" and d["kind"] == "place" and (d["s"], d["w"]) != (t["cur"]["s"], t["cur"]["w"])
                          for t, d in zip(r["inst"]["tasks"], r["dec"]))), None)
        if r is not None:
            res.samples.append({"instance": cc.compact_inst(r["inst"], r["dec"]), "verdict": fails.get(r["id"], "ok")})
    for o in outs:
        for rr in o["r"]:
            if len(res.samples) < 8 and rr["enumerated"] > 0:
                res.samples.append({"R": rr["name"], "plans_violating_only_the_deadline": rr["enumerated"], "fixed_in_model": rr["checked"], "feasible": rr["n_admitted"]})
    res.notes += notes[:40]
    res.notes.append(
        "covered: admission / cancellation answers of EDF, FIFO, Clockwork (one fresh scheduler per call, models pre-loaded), "
        "TetriSched-CPLEX; plans of ILP (task-by-task mode only: with release_taskgraphs the code makes enforcement conditional), "
        "TetriSched-Gurobi, TetriSched-CPLEX, Clockwork; T2 (solution pool) + R on the captured Gurobi models (ILP, TetriSched-Gurobi); "
        "R only on a clone of the docplex model taken when TetriSched-CPLEX calls solve() (the scheduler ends its own model before "
        "returning; no pool enumeration with the CPLEX community edition); Z3 is not part of C12 (its deadline constraint is soft); "
        "multi-invocation scenarios of ILP / TetriSched-Gurobi / TetriSched-CPLEX / Clockwork / EDF / FIFO (every invocation judged, "
        "T2 + R on the models of the later invocations), batching=True for ILP and TetriSched-CPLEX (BatchTask variables of the "
        "captured models); every scheduler invocation of the simulated worlds; Clockwork request queues over 3-5 invocations with "
        "2-3 strategies per model and a held worker (directed + seeded random histories, every answer judged); workers with a capacity "
        "listed under several resource ids; times handed over in mixed EventTime units"
    )
    res.assumptions += [
        "TLC; Gurobi's INFEASIBLE answers on models with all decision variables fixed; pools are samples (cap in constants)",
        "Admit(now, t) == ~(deadline < now + runtime of the fastest strategy), the comparison every policy codes; for the cancelling "
        "policies C12.hopeless_cancelled is read as an equivalence: exactly the non-admitted tasks are answered with CANCEL (a task that "
        "can still finish with its fastest strategy starting now, deadline == now + runtime included, is not dropped by the admission test)",
        "end to end: final task states (state, completion time, deadline) read by the tracer (harness/simrun.py) from the real tasks",
        "multi-invocation scenarios: between two invocations the harness makes the calls the Simulator makes on SCHEDULER_FINISHED / "
        "TASK_PLACEMENT / clock steps / TASK_FINISHED (finishes before placements before the scheduler at equal times, drop_skipped_tasks "
        "off); a plan the workers cannot take at the planned time (the Simulator would defer it: WORKER_NOT_READY) or a schedule() that "
        "raises ends the scenario there (counted in `counters`, never a verdict); the ids of the real Task objects (they fix the iteration "
        "order of the schedulers' task sets) are seeded per scenario (`salt`)",
    ]
    return res


def replay(d) -> int:
    raw = d["detail"].get("raw", {})
    inst = raw.get("inst")
    if not inst or d["detail"].get("source") == "e2e":
        return 0
    scn = d["detail"].get("scenario")
    if scn:
        # a multi-invocation scenario: run all its invocations again, judge every answer
        answers = cc.realize_steps(scn)
        recs = [{"id": k + 1, "src": "returned", "inst": a[0], "dec": a[1]} for k, a in enumerate(answers)]
        for a in answers:
            print(json.dumps(cc.compact_inst(a[0], a[1]), indent=1))
        fails, _, _ = cc.judge_records(recs)
        print("failing clauses per invocation:", {recs[k - 1]["inst"]["name"]: v for k, v in fails.items()})
        return 1 if any(c.startswith("C12.") for v in fails.values() for c in v) else 0
    if inst["name"].startswith("e2e/"):
        fails, _, _ = cc.judge_records([{"id": 1, "src": "returned", "inst": inst, "dec": raw.get("dec")}])
        print("failing clauses of the recorded answer:", fails.get(1, []))
        return 1 if any(c.startswith("C12.") for c in fails.get(1, [])) else 0
    inst2, dec, info, handle = cc.realize(inst)
    print(json.dumps(cc.compact_inst(inst2, dec), indent=1))
    fails, _, _ = cc.judge_records([{"id": 1, "src": "returned", "inst": inst2, "dec": dec}])
    print("failing clauses of the returned answer:", fails.get(1, []))
    return 1 if any(c.startswith("C12.") for c in fails.get(1, [])) else 0
