#!/bin/bash
# usage: try_seed.sh <Cxx> [check ids...]  -- confirm an independently written breaking change and run checks on it
# The change lives in the worktree /tmp/seed_<id> (left applied by its author); nothing touches /repo.
set -u
id=$1; shift
wt=/tmp/seed_$id; out=/tmp/seed_out/$id
echo "== tests with the change"
(cd $wt && timeout 1800 /venv/bin/python -m pytest -q -p no:cacheprovider --timeout=900 2>&1 | tail -1)
echo "== demo on pristine /repo (expect 0)"
timeout 600 /venv/bin/python $out/demo.py /repo > /tmp/seed_out/$id.pristine.log 2>&1; echo "exit=$?"
echo "== demo on the change (expect 1)"
timeout 600 /venv/bin/python $out/demo.py $wt > /tmp/seed_out/$id.mut.log 2>&1; echo "exit=$?"; tail -3 /tmp/seed_out/$id.mut.log
for c in "$@"; do
  echo "== check $c against the change"
  (cd /verif && VERIF_REPO=$wt PYTHONPATH=$wt PYTHONHASHSEED=0 timeout 3000 /venv/bin/python run.py --property $c --tier quick 2>&1 | grep -v "Unknown event" | tail -6; echo "rc=${PIPESTATUS[0]}")
done
