---------------------------- MODULE LedgerOps ----------------------------
(* Pure operators describing workload/resources.py `Resources` as a value.  *)
(*                                                                          *)
(* A resource vector is a sequence of *instances* [name, id, cap] in dict    *)
(* insertion order; a request is a sequence of entries [name, id, q] (id     *)
(* "any" is the wildcard on either side, Resource.__eq__).  A ledger value is *)
(* [av |-> available quantity per instance, al |-> computation -> sequence of *)
(* <<instance index, quantity>> in allocation order].                        *)
EXTENDS Naturals, Sequences, FiniteSets

Match(inst, req) ==
    /\ inst.name = req.name
    /\ (req.id = "any" \/ inst.id = "any" \/ inst.id = req.id)

RECURSIVE SumTo(_, _)
SumTo(f, n) == IF n = 0 THEN 0 ELSE f[n] + SumTo(f, n - 1)

\* get_available_quantity(req): summed over matching instances
AvailQ(insts, av, req) ==
    SumTo([i \in 1..Len(insts) |-> IF Match(insts[i], req) THEN av[i] ELSE 0], Len(insts))

TotalQ(insts, req) ==
    SumTo([i \in 1..Len(insts) |-> IF Match(insts[i], req) THEN insts[i].cap ELSE 0], Len(insts))

\* Resources.allocate: first fit over the instances in insertion order.
\* Returns <<av', allocation list'>>; caller guarantees AvailQ >= q.
RECURSIVE FirstFit(_, _, _, _, _, _)
FirstFit(insts, av, lst, i, req, rem) ==
    IF rem = 0 \/ i > Len(insts) THEN <<av, lst>>
    ELSE IF Match(insts[i], req) /\ av[i] >= rem
         THEN <<[av EXCEPT ![i] = @ - rem], Append(lst, <<i, rem>>)>>
    ELSE IF Match(insts[i], req) /\ av[i] > 0
         THEN FirstFit(insts, [av EXCEPT ![i] = 0], Append(lst, <<i, av[i]>>), i + 1, req, rem - av[i])
    ELSE FirstFit(insts, av, lst, i + 1, req, rem)

EmptyLedger(insts, comps) ==
    [av |-> [i \in 1..Len(insts) |-> insts[i].cap], al |-> [c \in comps |-> <<>>]]

Held(L, c) == L.al[c] # <<>>

CanAlloc(insts, L, req) == AvailQ(insts, L.av, req) >= req.q

Alloc(insts, L, req, c) ==
    LET r == FirstFit(insts, L.av, L.al[c], 1, req, req.q)
    IN  [av |-> r[1], al |-> [L.al EXCEPT ![c] = r[2]]]

\* allocate_multiple, intended meaning: all entries or nothing.  The entries are
\* taken one after the other (dict order), each against what the previous left.
RECURSIVE MultiOK(_, _, _, _)
MultiOK(insts, L, dem, k) ==
    IF k > Len(dem) THEN TRUE
    ELSE /\ CanAlloc(insts, L, dem[k])
         /\ MultiOK(insts, Alloc(insts, L, dem[k], "_probe"), dem, k + 1)

RECURSIVE MultiAlloc(_, _, _, _, _)
MultiAlloc(insts, L, dem, c, k) ==
    IF k > Len(dem) THEN L
    ELSE MultiAlloc(insts, Alloc(insts, L, dem[k], c), dem, c, k + 1)

\* The code's admission test `Resources.__gt__`: every entry fits on its own.
FitsEach(insts, L, dem) == \A k \in 1..Len(dem) : CanAlloc(insts, L, dem[k])

\* L extended with a scratch computation used by MultiOK
WithProbe(L) == [L EXCEPT !.al = [c \in DOMAIN L.al \cup {"_probe"} |->
                                    IF c \in DOMAIN L.al THEN L.al[c] ELSE <<>>]]

CanAllocMulti(insts, L, dem) == MultiOK(insts, WithProbe(L), dem, 1)

Dealloc(L, c) ==
    LET RECURSIVE Give(_, _)
        Give(av, k) == IF k > Len(L.al[c]) THEN av
                       ELSE Give([av EXCEPT ![L.al[c][k][1]] = @ + L.al[c][k][2]], k + 1)
    IN  [av |-> Give(L.av, 1), al |-> [L.al EXCEPT ![c] = <<>>]]

\* quantity of instance i held by computation c
HeldOn(L, c, i) ==
    SumTo([k \in 1..Len(L.al[c]) |-> IF L.al[c][k][1] = i THEN L.al[c][k][2] ELSE 0], Len(L.al[c]))

RECURSIVE SumSet(_, _)
SumSet(f, S) == IF S = {} THEN 0 ELSE LET x == CHOOSE y \in S : TRUE IN f[x] + SumSet(f, S \ {x})

\* C04: available + allocated = total, per instance
Conserved(insts, L) ==
    \A i \in 1..Len(insts) :
        L.av[i] + SumSet([c \in DOMAIN L.al |-> HeldOn(L, c, i)], DOMAIN L.al) = insts[i].cap

Idle(L) == \A c \in DOMAIN L.al : L.al[c] = <<>>
Full(insts, L) == \A i \in 1..Len(insts) : L.av[i] = insts[i].cap
=============================================================================
