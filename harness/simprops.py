"""Simulator-side properties (C01-C08) decided on the shared sim corpus.

corpus(tier) simulates the generated + directed worlds under the tracer, validates every
trace with TLC against SimTrace.tla and caches the per-world verdicts (keyed by the hash
of the /repo tree, the seed and the tier).  Each property filters the clauses it owns.
"""
from __future__ import annotations

import hashlib
import json
import os
import random
import re
import time

from . import simcheck, simrun, worlds
from .common import REPO, VERIF, CheckResult, seed

CACHE_DIR = os.path.join(VERIF, ".cache")

ASSUMPTIONS = [
    "TLC explores SimMC.tla exhaustively only for the small worlds of harness/simmc.py",
    "trace validation covers the executions actually recorded: generated + directed worlds of harness/worlds.py "
    "(policies EDF/FIFO/LSF and an arbitrary 'hostile' policy; preemption/migration and profile loading are not modelled)",
    "the projection of the Simulator's state reads private attributes (_event_queue, _future_placement_events, counters) "
    "through the add-only tracer harness/simrun.py; scheduler answers, branch draws, runtime fuzz and newly materialised "
    "task graphs are bound from the log",
]

# clause (as printed by SimTrace: a pair) -> owning properties
def owners(clause):
    a, b = clause[0], clause[1]
    if a == "cl":
        return ["C01", "C04"]
    if a == "inv":
        m = re.match(r"(C\d\d)_", b)
        return [m.group(1)] if m else []
    if a == "release":
        return ["C18", "C02"]
    if a == "now":
        return ["C03"]
    if a == "loop" or a == "pop":
        return ["C03", "C16"]
    if a == "fuzz":
        return ["C03"]
    if a == "fut":
        return ["C03"]
    if a == "q":
        return {
            1: ["C06"], 3: ["C03"], 4: ["C08"], 5: ["C02", "C07", "C18"], 6: ["C05"], 10: ["C03", "C08"],
            11: ["C05"], 12: ["C05"], 13: ["C05"], 14: ["C08"],
        }.get(b, ["C05"])
    if a == "sch":
        return ["C05"]
    if a == "ctr":
        return ["C08"] + (["C06"] if b == "gfin" else [])
    if a == "wl":
        return ["C19"]
    if a == "ts":
        return {
            "st": ["C06"], "pss": ["C06"], "cat": ["C06"], "prob": ["C07"], "rel": ["C02"], "irel": ["C02"],
            "dl": ["C08"], "start": ["C02", "C03"], "rem": ["C03"], "last": ["C03"], "fin": ["C03"],
            "pool": ["C03"], "plan": ["C03"],
        }.get(b, ["C06"])
    if a in ("ts.len", "cl.len"):
        return ["C05"]
    if a == "edge":
        return ["C06"]
    if a == "draw":
        return ["C07"]
    if a == "row":
        # pool-level utilisation rows are ledger statements too (totals / availability summed over the pool's workers)
        return ["C08", "C01", "C04"] if b == "WORKER_POOL_UTILIZATION" else ["C08"]
    if a == "frontier":
        return ["C18"]
    if a == "reader":
        return ["C08"]
    if a == "err_expected" and str(b).startswith("closed_loop"):
        return ["C19"]
    if a == "err_expected" and b == "cancel_bad_state":
        # the code cancelled a task that has run (RUNNING / PREEMPTED / COMPLETED) where the specification refuses
        return ["C06", "C05"]
    if a == "err_expected" and b in ("no_draw", "prob_sum", "child_beyond_scheduled"):
        # the completion of a conditional did not draw / release as the specification's NotifyCompletion does
        return ["C07", "C05"]
    if a == "exc" and b == "unexpected_in_placement":
        # the TASK_PLACEMENT handler raised where the specification defers / starts the task (start conditions: C02, C03)
        return ["C05", "C02", "C03"]
    if a in ("exc", "err_expected"):
        return ["C05"]
    return ["C05"]


def clause_id(clause):
    a, b = clause[0], clause[1]
    if a == "inv":
        return b.replace("_", ".", 1)
    if a == "edge":
        return f"C06.legal_edge"
    if a == "frontier":
        return b.replace("_", ".", 1)
    return f"{a}.{b}" if b != "" else str(a)


def repo_hash():
    h = hashlib.sha1()
    for root, dirs, files in os.walk(REPO):
        dirs[:] = sorted(d for d in dirs if d not in (".git", "__pycache__", "traces", "plots", "profiles", "configs"))
        for fn in sorted(files):
            if fn.endswith((".py", ".cpp", ".hpp")):
                p = os.path.join(root, fn)
                h.update(p.encode())
                with open(p, "rb") as f:
                    h.update(f.read())
    for fn in ("spec/Simulator.tla", "spec/SimTrace.tla", "spec/LedgerOps.tla", "harness/simrun.py", "harness/worlds.py",
               "harness/simcheck.py", "harness/hostile.py", "harness/simprops.py", "harness/simmc.py", "spec/SimMC.tla"):
        with open(os.path.join(VERIF, fn), "rb") as f:
            h.update(f.read())
    return h.hexdigest()[:16]


def make_worlds(tier):
    rnd = random.Random(f"corpus:{seed()}")
    n_rand, n_feas = (110, 40) if tier == "quick" else (2500, 800)
    ws = []
    for w in worlds.directed_worlds():
        w = dict(w)
        w["class"] = "directed"
        ws.append(w)
    for w in worlds.finding_worlds():
        w = dict(w)
        w["class"] = "finding"
        ws.append(w)
    for _ in range(n_rand):
        w = worlds.gen_world(rnd)
        w["class"] = "random"
        ws.append(w)
    for _ in range(n_feas):
        w = worlds.gen_feasible_world(rnd)
        w["class"] = "feasible"
        ws.append(w)
    # preemptive policies: TASK_PREEMPT / TASK_MIGRATION handlers, running tasks in the frontier
    n_pre = 16 if tier == "quick" else 300
    for i in range(n_pre):
        w = worlds.gen_world(rnd, kinds=("edf", "lsf", "hostile"))
        w["sched"]["preemptive"] = True
        w["class"] = "preemptive"
        ws.append(w)
    # Clockwork inside simulate(): the policy loads / evicts models itself (LOAD_PROFILE / EVICT_PROFILE events), batches
    n_cw = 16 if tier == "quick" else 300
    for i in range(n_cw):
        w = worlds.gen_clockwork_world(rnd)
        w["class"] = "clockwork"
        ws.append(w)
    # leg R: decision scripts taken from TLC-simulated behaviours of SimMC, played into the real Simulator
    from . import simmc

    for w in simmc.script_worlds(tier, seed()):
        w["class"] = "mc_script"
        ws.append(w)
    # the optimisation-based planners inside simulate() (future placements, explicit workers, plan-ahead)
    n_plan = 12 if tier == "quick" else 200
    for i in range(n_plan):
        kind = ("ilp", "ts_gurobi", "ts_cplex")[i % 3]
        w = worlds.gen_world(rnd, kinds=("edf",), closed_loop=(i % 2 == 0), extras=False)
        w["sched"] = {"kind": kind, "runtime": 0, "enforce": rnd.random() < 0.5, "lookahead": rnd.choice([0, 5]),
                      "retract": rnd.random() < 0.3, "rtg": rnd.random() < 0.4 and kind != "ts_cplex",
                      "goal": "max_goodput", "disc": rnd.choice([1, 2]), "plan_ahead": -1}
        if kind == "ilp" and not w["sched"]["enforce"]:
            w["sched"]["goal"] = "max_slack"  # ILP refuses max_goodput without deadline enforcement
        w["flags"]["timeout"] = rnd.choice([60, 100])
        w["class"] = "planner"
        ws.append(w)
    return ws


def crash_key(world, tr):
    """Stable key of a run-level failure: what failed + the circumstances that identify the finding."""
    end = tr["end"]
    sc = tr.get("sc", {})
    kind = sc.get("kind", world.get("sched", {}).get("kind"))
    if end.get("hang"):
        zero_rt = any(s["rt"] == 0 for p in world["profiles"] for s in p["strats"])
        what = "zero_length_steps" if "zero-length" in end["hang"] else ("too_many_actions" if "loop actions" in end["hang"] else "cpu_time")
        freq0 = world.get("flags", {}).get("frequency", -1) == 0
        return f"hang:{what}:zero_runtime_strategy={zero_rt}" + (":scheduler_frequency=0" if freq0 else "")
    msg = end.get("exc") or ""
    m = re.sub(r"[0-9a-f]{8}-[0-9a-f-]{27}", "<id>", msg)
    m = re.sub(r"\b[A-Za-z0-9_]+@[A-Za-z0-9_@]+", "<task>", m)
    m = re.sub(r"-?\d+(\.\d+)?", "N", m)[:90]
    ctx = ""
    if "occurred in the past" in msg:
        ctx = f":policy={kind},scheduler_runtime_nonzero={sc.get('runtime', 0) != 0}"
    if "sum of the probability" in msg:
        probs = re.findall(r"\[([^\]]*)\]", msg)
        zero = bool(probs) and any(float(x) == 0.0 for x in probs[-1].split(","))
        return f"crash:ValueError: sum of the probability of children != 1:a_child_was_cancelled_before_the_conditional_completed={zero}"
    if sc.get("preemptive"):
        ctx += ":preemptive_policy=True"
    return f"crash:{m}{ctx}"


def corpus(tier):
    os.makedirs(CACHE_DIR, exist_ok=True)
    key = f"{repo_hash()}_{seed()}_{tier}"
    path = os.path.join(CACHE_DIR, f"simcorpus_{key}.json")
    if os.path.exists(path):
        with open(path) as f:
            return json.load(f)
    t0 = time.time()
    ws = make_worlds(tier)
    os.environ["ERDOS_VERIF_TRACE"] = "1"
    traces = simrun.run_worlds(ws, procs=16, wall=30)
    t_sim = time.time() - t0
    mach = [t for t in traces if "machinery_error" in t]
    if mach:
        raise RuntimeError(f"tracer failed on {len(mach)} worlds: {mach[0]['machinery_error']}\n{mach[0].get('tb')}")
    # solver licence limits (restricted Gurobi / CPLEX community edition) are limits of this sandbox, not verdicts:
    # such worlds are dropped from the corpus and counted
    LIC = ("size-limited license", "CPLEX Error  1016", "Promotional version", "problem size limits")
    skipped = [i for i, t in enumerate(traces) if any(x in (t.get("end", {}).get("exc") or "") for x in LIC)]
    ws = [w for i, w in enumerate(ws) if i not in skipped]
    traces = [t for i, t in enumerate(traces) if i not in skipped]
    viols, stats = simcheck.validate(traces, nbatches=16)
    stats["skipped_solver_licence_limit"] = len(skipped)
    out = {"worlds": [], "stats": stats, "t_sim": round(t_sim, 1), "t_total": 0, "counts": {}}
    counts = {}
    for i, (w, tr) in enumerate(zip(ws, traces)):
        recs = tr["recs"]
        end = tr["end"]
        last_ev = next((r for r in reversed(recs) if r["k"] == "ev"), None)
        ended = bool((last_ev is not None and last_ev["ty"] == 13 and not end["exc"] and not end["hang"]) or end.get("truncated"))
        for r in recs:
            if r["k"] == "ev":
                counts[f"ev{r['ty']}"] = counts.get(f"ev{r['ty']}", 0) + 1
                for row in r["rows"]:
                    counts["row_" + row["ty"]] = counts.get("row_" + row["ty"], 0) + 1
                if r["draws"]:
                    counts["draws"] = counts.get("draws", 0) + len(r["draws"])
                if "new" in r["post"] and r["ty"] != 6:
                    counts["closed_loop_graphs"] = counts.get("closed_loop_graphs", 0) + len(r["post"]["new"])
            else:
                counts["steps"] = counts.get("steps", 0) + 1
        out["worlds"].append(
            {
                "i": i,
                "class": w["class"],
                "name": w.get("name", ""),
                "kind": tr.get("sc", {}).get("kind"),
                "nrecs": len(recs),
                "exc": end["exc"] or "",
                "hang": end["hang"] or "",
                "ended": ended,
                "run_key": crash_key(w, tr) if (end["exc"] or end["hang"]) else "",
                "viols": [[l, [list(c) for c in cl]] for l, cl in viols.get(i, [])],
                "world": {k: v for k, v in w.items()},
            }
        )
    counts["truncated_long_runs"] = sum(1 for t in traces if t.get("end", {}).get("truncated"))
    out["counts"] = counts
    out["t_total"] = round(time.time() - t0, 1)
    # keep the cache small: drop world descriptions of clean random worlds beyond the first 20
    with open(path, "w") as f:
        json.dump(out, f)
    # keep only the newest few corpus caches
    olds = sorted((os.path.join(CACHE_DIR, fn) for fn in os.listdir(CACHE_DIR) if fn.startswith("simcorpus_")),
                  key=os.path.getmtime)
    for fn in olds[:-6]:
        try:
            os.remove(fn)
        except OSError:
            pass
    return out


def check(pid: str, tier: str, res: CheckResult | None = None) -> CheckResult:
    """Add the sim-corpus verdicts owned by property `pid` to a CheckResult."""
    res = res or CheckResult(pid, tier)
    c = corpus(tier)
    res.states += c["stats"]["states"]
    res.transitions += c["stats"]["generated"]
    res.traces_validated += len(c["worlds"])
    exercised = {}
    nviol = 0
    for w in c["worlds"]:
        # run-level verdicts belong to C05
        if pid == "C05":
            if w["exc"] or w["hang"]:
                res.violate(
                    "C05.crash" if w["exc"] else "C05.hang",
                    f"simulate() did not reach SIMULATOR_END: {w['exc'] or w['hang']} (world class {w['class']} {w['name']})",
                    {"world": w["world"], "exc": w["exc"], "hang": w["hang"]},
                    key=w["run_key"],
                )
            elif not w["ended"]:
                res.violate("C05.end_reached", "simulate() returned without a SIMULATOR_END event", {"world": w["world"]},
                            key="end_reached")
        for l, clauses in w["viols"]:
            for cl in clauses:
                if pid in owners(cl):
                    nviol += 1
                    cid = clause_id(cl)
                    res.violate(
                        cid if cid.startswith(pid) else f"{pid}.{cid}",
                        f"trace of world #{w['i']} ({w['class']} {w['name']} policy={w['kind']}) record {l}: "
                        f"the code's step is not the specification's: {cl}",
                        {"world": w["world"], "record": l, "clause": cl},
                        key=f"simtrace:{cid}",
                    )
    res.extra["sim_corpus"] = {
        "worlds": len(c["worlds"]),
        "by_class": {k: sum(1 for w in c["worlds"] if w["class"] == k) for k in ("directed", "finding", "random", "feasible", "preemptive", "clockwork", "mc_script", "planner")},
        "by_policy": {k: sum(1 for w in c["worlds"] if w["kind"] == k) for k in sorted({w["kind"] for w in c["worlds"] if w["kind"]})},
        "records_validated": c["stats"]["records"],
        "event_and_row_counts": c["counts"],
        "incomplete_traces": c["stats"]["incomplete"],
        "worlds_skipped_solver_licence_limit": c["stats"].get("skipped_solver_licence_limit", 0),
        "sim_wall_s": c["t_sim"],
        "total_wall_s": c["t_total"],
        "clause_hits_for_this_property": nviol,
    }
    if c["stats"]["incomplete"]:
        raise RuntimeError(f"TLC did not consume traces {c['stats']['incomplete']} completely")
    w0 = next((w for w in c["worlds"] if w["class"] == "directed"), None)
    if w0:
        res.samples.append({"sim_world": w0["world"], "records": w0["nrecs"], "ended": w0["ended"]})
    return res
