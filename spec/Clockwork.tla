----------------------------- MODULE Clockwork -----------------------------
(* schedulers/clockwork_scheduler.py (ClockworkScheduler.schedule, with or     *)
(* without --scheduler_run_load) as a state machine over successive           *)
(* invocations.                                                               *)
(*                                                                            *)
(*   Arrive(r, d)  request r is released with deadline d                      *)
(*   Tick(d)       time advances; batches whose runtime has elapsed leave      *)
(*                 their worker, pending models whose load time has elapsed    *)
(*                 become available (Worker.step)                              *)
(*   Invoke        one schedule() call: admission ; (RunLoad: run_load, per    *)
(*                 worker: LOAD / EVICT decisions on the virtual workers) ;    *)
(*                 per worker (expiry of all queues ; model loop) ; the caller *)
(*                 applies the answer in the simulator's event order           *)
(*                 (cancel, evict, load, place)                                *)
(*                                                                            *)
(* Model loading.  A worker has `mem` units of model memory; model m takes     *)
(* LoadOf[m].mem of it from the LOAD until the EVICT and becomes available     *)
(* LoadOf[m].lt after the LOAD.  run_load orders the models by a priority that *)
(* is floating-point arithmetic over demand counters (Models.refresh_priorities*)
(* / get_model_priority): the machine leaves that order free (any permutation  *)
(* of the known models per worker, `pr`) and transcribes what is done with it  *)
(* (skip workers with pending loads, first absent model in priority order that *)
(* fits is loaded, otherwise loaded models are evicted from the low-priority   *)
(* end until it fits or the model itself is reached; evictions of a failed     *)
(* attempt stay; the LOAD itself is not applied to the virtual worker), so the *)
(* invariants hold for every priority function.                                *)
(*                                                                            *)
(* The order of everything that the implementation fixes is transcribed       *)
(* (insertion order of models, insort_right, (slack, -batch) strategy order,  *)
(* stable least-slack sort of the model deque), so the machine is             *)
(* deterministic given the history and `out` is the exact answer expected     *)
(* from the code.  The property C15 is stated once, on "call records"         *)
(* (Cl* operators): the invariants apply them to `out`, the record checker    *)
(* (RecCheck) applies them to JSON records of real executions.                *)
EXTENDS Integers, Sequences, FiniteSets, TLC

CONSTANTS Strats,     \* model -> sequence (profile order) of [b, rt, dem]
          Reqs,       \* sequence of [m |-> model, dls |-> set of deadlines, arr |-> earliest arrival]
          Workers,    \* sequence (pool order) of [cap |-> Nat, mem |-> Nat, loaded |-> set of models]
          RunLoad,    \* BOOLEAN: --scheduler_run_load
          LoadOf,     \* model -> [mem |-> memory of its loading strategy, lt |-> load time]
          Goal,       \* "clockwork" | "least_slack"
          InitOrder,  \* models registered by start(), in that order
          MaxT,       \* last instant
          Steps       \* allowed tick lengths

VARIABLES now,        \* current time
          arrived,    \* released requests
          dl,         \* request -> deadline (0 until it arrives)
          morder,     \* Models._models: models in insertion order
          queue,      \* model -> strategy index -> deadline-sorted sequence of requests
          nplaced,    \* request -> number of times it was placed (whole behaviour)
          cancelled,  \* requests cancelled so far
          running,    \* worker -> set of batches currently on the live worker
          avail,      \* worker -> set of models available (loaded) on the live worker
          pend,       \* worker -> model -> remaining load time (0 = not pending)
          out,        \* the answer of the last invocation (NoOut after other actions)
          obs         \* what the live workers' getters must show
vars == <<now, arrived, dl, morder, queue, nplaced, cancelled, running, avail, pend, out, obs>>

ModelSet == DOMAIN Strats
R == DOMAIN Reqs
W == DOMAIN Workers
ToSet(s) == {s[i] : i \in DOMAIN s}
Min(S) == CHOOSE x \in S : \A y \in S : x <= y
\* sum of a sequence of numbers (divide and conquer: record files hold thousands of histories)
RECURSIVE SumRange(_, _, _)
SumRange(s, lo, hi) == IF lo > hi THEN 0
                       ELSE IF lo = hi THEN s[lo]
                       ELSE LET mid == (lo + hi) \div 2 IN SumRange(s, lo, mid) + SumRange(s, mid + 1, hi)
SumSeq(s) == SumRange(s, 1, Len(s))

ASSUME /\ \A m \in ModelSet : /\ Len(Strats[m]) >= 1
                              /\ \A k \in DOMAIN Strats[m] :
                                    Strats[m][k].b >= 1 /\ Strats[m][k].rt >= 1 /\ Strats[m][k].dem >= 0
                              \* ties between strategies are broken by the batch size only
                              /\ \A j, k \in DOMAIN Strats[m] : j # k => Strats[m][j].b # Strats[m][k].b
       /\ \A r \in R : Reqs[r].m \in ModelSet
       /\ \A w \in W : Workers[w].loaded \subseteq ModelSet
       /\ RunLoad \in BOOLEAN
       /\ DOMAIN LoadOf = ModelSet
       /\ \A m \in ModelSet : LoadOf[m].mem >= 0 /\ LoadOf[m].lt >= 0
       \* with run_load: loading takes time, every model fits into an empty worker (run_load picks the
       \* loading strategy on an emptied copy of the worker), and the initial state is within memory
       /\ RunLoad => \A m \in ModelSet : LoadOf[m].lt >= 1 /\ \A w \in W : LoadOf[m].mem <= Workers[w].mem
       /\ Goal \in {"clockwork", "least_slack"}
       /\ ToSet(InitOrder) \subseteq ModelSet /\ Cardinality(ToSet(InitOrder)) = Len(InitOrder)

----------------------------------------------------------------------------
(* The property, on call records.                                            *)
(*   wd = [strats |-> model -> seq of [b, rt, dem], reqs |-> seq of [m, dl],  *)
(*         load |-> model -> [mem, lt]]                                        *)
(*   c  = [now, offered, cancelled (sets of requests),                        *)
(*         batches |-> seq of [m, b, rt, dem, w, reqs (seq)],                  *)
(*         free |-> per worker capacity left before the call,                  *)
(*         loaded |-> per worker set of models available before the call,      *)
(*         failed |-> requests the live worker refused,                        *)
(*         evicts |-> seq of [m, w], loads |-> seq of [m, w, mem, lt]: the     *)
(*         EVICT / LOAD decisions of the same answer (w = 0: unknown worker),  *)
(*         pending |-> per worker set of models still loading before the call, *)
(*         fmem |-> per worker model memory left before the call,              *)
(*         lfailed |-> indices of loads (i) / evictions (-i) the live worker   *)
(*         refused]                                                            *)
(* The simulator applies the decisions of one answer at the same instant in    *)
(* the order evict, load, place (EventType priorities), so a batch meets the   *)
(* worker after the evictions of its own answer.                               *)

FastestRt(wd, m) == Min({wd.strats[m][k].rt : k \in DOMAIN wd.strats[m]})

InBatch(c, r) == \E i \in DOMAIN c.batches : r \in ToSet(c.batches[i].reqs)

\* the batch uses one of the model's strategies and has exactly that many distinct members
ClFullBatch(wd, c, B) ==
    /\ B.m \in DOMAIN wd.strats
    /\ \E k \in DOMAIN wd.strats[B.m] :
          LET s == wd.strats[B.m][k] IN s.b = B.b /\ s.rt = B.rt /\ s.dem = B.dem
    /\ Len(B.reqs) = B.b
    /\ Cardinality(ToSet(B.reqs)) = B.b

ClSameModel(wd, c, B) == \A i \in DOMAIN B.reqs : wd.reqs[B.reqs[i]].m = B.m

\* models the answer itself evicts from worker w
EvictedAt(c, w) == {c.evicts[i].m : i \in {i \in DOMAIN c.evicts : c.evicts[i].w = w}}

\* the model is available on the worker (not merely pending) and still is once the evictions of the
\* same answer have taken effect
ClLoaded(wd, c, B) == B.w \in DOMAIN c.loaded /\ B.m \in c.loaded[B.w] \ EvictedAt(c, B.w)

\* run_load's part of "a worker where that model is loaded": a LOAD / EVICT names an existing worker and a
\* model of the world; an eviction names a model that is on that worker (once per answer); a load uses
\* the model's loading strategy
ClEvictTarget(wd, c, i) ==
    LET e == c.evicts[i] IN
    /\ e.w \in DOMAIN c.loaded /\ e.m \in DOMAIN wd.strats
    /\ e.m \in c.loaded[e.w] \cup c.pending[e.w]
    /\ \A j \in 1..(i - 1) : c.evicts[j] # e
ClLoadTarget(wd, c, i) ==
    LET l == c.loads[i] IN
    /\ l.w \in DOMAIN c.loaded /\ l.m \in DOMAIN wd.strats
    /\ l.mem = wd.load[l.m].mem /\ l.lt = wd.load[l.m].lt

\* the loads of the answer fit into the model memory left on the worker after the evictions of the same
\* answer, and the live worker took them
ClLoadFits(wd, c, w) ==
    LET freed == {m \in EvictedAt(c, w) : m \in DOMAIN wd.load /\ m \in c.loaded[w] \cup c.pending[w]}
        gain == SumSeq([i \in DOMAIN c.evicts |->
                          IF /\ c.evicts[i].w = w /\ c.evicts[i].m \in freed
                             /\ \A j \in 1..(i - 1) : c.evicts[j] # c.evicts[i]
                          THEN wd.load[c.evicts[i].m].mem ELSE 0])
    IN /\ SumSeq([i \in DOMAIN c.loads |-> IF c.loads[i].w = w THEN c.loads[i].mem ELSE 0]) <= c.fmem[w] + gain
       /\ \A i \in DOMAIN c.loads : c.loads[i].w = w => i \notin c.lfailed

\* what the call puts on worker w fits into what was free on it, and the live worker took it
ClFits(wd, c, w) ==
    /\ SumSeq([i \in DOMAIN c.batches |-> IF c.batches[i].w = w THEN c.batches[i].dem ELSE 0]) <= c.free[w]
    /\ \A i \in DOMAIN c.batches : c.batches[i].w = w => ToSet(c.batches[i].reqs) \cap c.failed = {}

ClOnTime(wd, c, B) == \A i \in DOMAIN B.reqs : c.now + B.rt <= wd.reqs[B.reqs[i]].dl

\* only offered requests are placed (an already placed / cancelled request is not offered again)
ClOffered(wd, c, B) == ToSet(B.reqs) \subseteq c.offered

Late(wd, c, r) == wd.reqs[r].dl < c.now + FastestRt(wd, wd.reqs[r].m)
ClLate(wd, c, r) == /\ Late(wd, c, r) => (r \in c.cancelled /\ ~InBatch(c, r))
                    /\ r \in c.cancelled => ~InBatch(c, r)

\* failing (clause, item) pairs of one call
CallBad(wd, c) ==
    LET BI == DOMAIN c.batches IN
         {<<"C15.full_batch", i>>  : i \in {i \in BI : ~ClFullBatch(wd, c, c.batches[i])}}
    \cup {<<"C15.same_model", i>>  : i \in {i \in BI : ~ClSameModel(wd, c, c.batches[i])}}
    \cup {<<"C15.loaded", i>>      : i \in {i \in BI : ~ClLoaded(wd, c, c.batches[i])}}
    \cup {<<"C15.on_time", i>>     : i \in {i \in BI : ~ClOnTime(wd, c, c.batches[i])}}
    \cup {<<"C15.placed_once", i>> : i \in {i \in BI : ~ClOffered(wd, c, c.batches[i])}}
    \cup {<<"C15.fits", w>>        : w \in {w \in DOMAIN c.free : ~ClFits(wd, c, w)}}
    \cup {<<"C15.late_cancelled", r>> : r \in {r \in c.offered : ~ClLate(wd, c, r)}}
    \cup {<<"C15.load_target", -i>> : i \in {i \in DOMAIN c.evicts : ~ClEvictTarget(wd, c, i) \/ (-i) \in c.lfailed}}
    \cup {<<"C15.load_target", i>>  : i \in {i \in DOMAIN c.loads : ~ClLoadTarget(wd, c, i)}}
    \cup {<<"C15.load_fits", w>>    : w \in {w \in DOMAIN c.fmem : ~ClLoadFits(wd, c, w)}}

\* number of times request r is placed by a sequence of calls
TimesPlaced(calls, r) ==
    SumSeq([j \in DOMAIN calls |->
        SumSeq([i \in DOMAIN calls[j].batches |->
            Cardinality({p \in DOMAIN calls[j].batches[i].reqs : calls[j].batches[i].reqs[p] = r})])])

----------------------------------------------------------------------------
(* The state machine.                                                         *)

NoOut == [at |-> -1, offered |-> {}, cancelled |-> {}, batches |-> <<>>, free |-> <<>>,
          evicts |-> <<>>, loads |-> <<>>, loaded |-> <<>>, pending |-> <<>>, fmem |-> <<>>]
DL(r) == dl[r]
MOf(r) == Reqs[r].m
St(m, k) == Strats[m][k]
World == [strats |-> Strats, reqs |-> [r \in R |-> [m |-> Reqs[r].m, dl |-> dl[r]]], load |-> LoadOf]
Fastest(m) == FastestRt(World, m)
Used(bs) == LET RECURSIVE U(_)
                U(S) == IF S = {} THEN 0 ELSE LET B == CHOOSE B \in S : TRUE IN B.dem + U(S \ {B})
            IN U(bs)

Mem(m) == LoadOf[m].mem
MemOf(S) == LET RECURSIVE U(_)
                U(T) == IF T = {} THEN 0 ELSE LET m == CHOOSE m \in T : TRUE IN Mem(m) + U(T \ {m})
            IN U(S)
Pending(pd, w) == {m \in ModelSet : pd[w][m] > 0}
\* model memory left on the live worker: available and pending models hold theirs
FreeMem(av, pd, w) == Workers[w].mem - MemOf(av[w] \cup Pending(pd, w))

Observe(run, av, pd) ==
    [free    |-> [w \in W |-> Workers[w].cap - Used(run[w])],
     on      |-> [w \in W |-> UNION {B.reqs : B \in run[w]}],
     loaded  |-> av,
     pending |-> [w \in W |-> {<<m, pd[w][m]>> : m \in Pending(pd, w)}],
     fmem    |-> [w \in W |-> FreeMem(av, pd, w)]]

Init == /\ now = 0 /\ arrived = {} /\ dl = [r \in R |-> 0]
        /\ morder = InitOrder
        /\ queue = [m \in ModelSet |-> [k \in DOMAIN Strats[m] |-> <<>>]]
        /\ nplaced = [r \in R |-> 0] /\ cancelled = {}
        /\ running = [w \in W |-> {}]
        /\ avail = [w \in W |-> Workers[w].loaded]
        /\ pend = [w \in W |-> [m \in ModelSet |-> 0]]
        /\ out = NoOut
        /\ obs = Observe(running, avail, pend)

\* Task.release(now) of a request whose deadline is d
Arrive(r, d) ==
    /\ r \notin arrived /\ now >= Reqs[r].arr /\ d \in Reqs[r].dls
    /\ arrived' = arrived \cup {r}
    /\ dl' = [dl EXCEPT ![r] = d]
    /\ out' = NoOut
    /\ UNCHANGED <<now, morder, queue, nplaced, cancelled, running, avail, pend, obs>>

\* the simulator steps the workers: a batch started at t with runtime rt is gone at t + rt, a model
\* whose remaining load time is used up moves from pending to available (Worker.step)
Tick(d) ==
    /\ now + d <= MaxT
    /\ now' = now + d
    /\ running' = [w \in W |-> {B \in running[w] : B.fin > now + d}]
    /\ avail' = [w \in W |-> avail[w] \cup {m \in Pending(pend, w) : pend[w][m] <= d}]
    /\ pend' = [w \in W |-> [m \in ModelSet |-> IF pend[w][m] > d THEN pend[w][m] - d ELSE 0]]
    /\ out' = NoOut
    /\ obs' = Observe(running', avail', pend')
    /\ UNCHANGED <<arrived, dl, morder, queue, nplaced, cancelled>>

\* ---- Model ----------------------------------------------------------------
\* bisect.insort (= insort_right) with Request.__lt__ comparing deadlines
RECURSIVE Insort(_, _)
Insort(q, r) == IF q = <<>> THEN <<r>>
                ELSE IF DL(r) < DL(Head(q)) THEN <<r>> \o q
                ELSE <<Head(q)>> \o Insort(Tail(q), r)

\* get_available_execution_strategies, first half: pop heads that cannot make it with strategy k
RECURSIVE DropLate(_, _)
DropLate(q, lim) == IF q # <<>> /\ DL(Head(q)) < lim THEN DropLate(Tail(q), lim) ELSE q
ExpireModel(qm, m, t) == [k \in DOMAIN qm |-> DropLate(qm[k], t + St(m, k).rt)]

\* second half: strategies with a full batch whose head is on time, by (head slack, -batch size)
Usable(qm, m, t, k) == St(m, k).b <= Len(qm[k]) /\ t + St(m, k).rt <= DL(Head(qm[k]))
Prio(qm, m, t, k) == DL(Head(qm[k])) - St(m, k).rt - t
Before(qm, m, t, j, k) == \/ Prio(qm, m, t, j) < Prio(qm, m, t, k)
                          \/ Prio(qm, m, t, j) = Prio(qm, m, t, k) /\ St(m, j).b > St(m, k).b
RECURSIVE SortK(_, _, _, _)
SortK(U, qm, m, t) ==
    IF U = {} THEN <<>>
    ELSE LET k == CHOOSE k \in U : \A j \in U \ {k} : Before(qm, m, t, k, j)
         IN <<k>> \o SortK(U \ {k}, qm, m, t)
AvailStrats(qm, m, t) == SortK({k \in DOMAIN qm : Usable(qm, m, t, k)}, qm, m, t)

\* Model.earliest_deadline over the requests the model still knows
Earliest(qm) == Min({DL(r) : r \in UNION {ToSet(qm[k]) : k \in DOMAIN qm}})

\* sorted(deque, key = earliest_deadline): stable
RECURSIVE InsertByKey(_, _, _)
InsertByKey(L, m, q) ==
    IF L = <<>> THEN <<m>>
    ELSE IF Earliest(q[m]) < Earliest(q[Head(L)]) THEN <<m>> \o L
    ELSE <<Head(L)>> \o InsertByKey(Tail(L), m, q)
RECURSIVE StableSort(_, _)
StableSort(L, q) == IF L = <<>> THEN <<>>
                    ELSE InsertByKey(StableSort(SubSeq(L, 1, Len(L) - 1), q), L[Len(L)], q)

Without(q, X) == LET Keep(r) == r \notin X IN SelectSeq(q, Keep)

\* ---- run_admission ---------------------------------------------------------
Offered == {r \in arrived : nplaced[r] = 0 /\ r \notin cancelled}

AdmitOne(A, r, t) ==
    LET m == MOf(r) IN
    IF r \notin Offered THEN A
    ELSE IF DL(r) < t + Fastest(m) THEN [A EXCEPT !.canc = @ \cup {r}]
    ELSE LET known == \E k \in DOMAIN A.q[m] : r \in ToSet(A.q[m][k])
             qm == IF known THEN A.q[m] ELSE [k \in DOMAIN A.q[m] |-> Insort(A.q[m][k], r)]
         IN [A EXCEPT !.mo = IF m \in ToSet(@) THEN @ ELSE Append(@, m), !.q[m] = qm]

\* tasks are offered in workload order (= request index order)
RECURSIVE Admit(_, _, _)
Admit(A, r, t) == IF r > Len(Reqs) THEN A ELSE Admit(AdmitOne(A, r, t), r + 1, t)

\* ---- run_load ---------------------------------------------------------------
\* V = [ld |-> per worker models available on the virtual worker, fm |-> per worker free model memory
\*      of the virtual worker, ev |-> evictions, lo |-> loads emitted so far]
\* P = the models of Models._models in the priority order of this worker, highest first
LoadRec(m, w) == [m |-> m, w |-> w, mem |-> Mem(m), lt |-> LoadOf[m].lt]

\* evict loaded models from the low-priority end (index j downwards) until m fits or m itself is reached
RECURSIVE EvictFor(_, _, _, _, _)
EvictFor(V, w, P, m, j) ==
    IF j < 1 \/ P[j] = m THEN [v |-> V, ok |-> FALSE]
    ELSE IF P[j] \in V.ld[w]
         THEN LET V1 == [V EXCEPT !.ld[w] = @ \ {P[j]}, !.fm[w] = @ + Mem(P[j]),
                                  !.ev = Append(@, [m |-> P[j], w |-> w])]
              IN IF Mem(m) <= V1.fm[w]
                 THEN [v |-> [V1 EXCEPT !.lo = Append(@, LoadRec(m, w))], ok |-> TRUE]
                 ELSE EvictFor(V1, w, P, m, j - 1)
         ELSE EvictFor(V, w, P, m, j - 1)

\* the first model in priority order that is absent and can be made to fit is loaded (one LOAD per
\* worker and call; the LOAD is not applied to the virtual worker)
RECURSIVE TryLoad(_, _, _, _)
TryLoad(V, w, P, i) ==
    IF i > Len(P) THEN V
    ELSE LET m == P[i] IN
         IF m \in V.ld[w] THEN TryLoad(V, w, P, i + 1)
         ELSE IF Mem(m) <= V.fm[w] THEN [V EXCEPT !.lo = Append(@, LoadRec(m, w))]
         ELSE LET e == EvictFor(V, w, P, m, Len(P))
              IN IF e.ok THEN e.v ELSE TryLoad(e.v, w, P, i + 1)

RECURSIVE LoadAll(_, _, _, _)
LoadAll(V, w, mo, pr) ==
    IF w > Len(Workers) THEN V
    ELSE LET Known(m) == m \in ToSet(mo)
             V1 == IF Pending(pend, w) # {} THEN V ELSE TryLoad(V, w, SelectSeq(pr[w], Known), 1)
         IN LoadAll(V1, w + 1, mo, pr)

\* the priority orders run_load may see: per worker a permutation of the models
Perms(S) == {p \in [1..Cardinality(S) -> S] : \A i, j \in 1..Cardinality(S) : i # j => p[i] # p[j]}
PrioChoices == IF RunLoad THEN [W -> Perms(ModelSet)] ELSE {<<>>}

\* ---- run_inference ---------------------------------------------------------
\* S = [q |-> queues, av |-> virtual free capacity per worker, ld |-> per worker models available on
\*      the virtual worker, pl |-> batches emitted so far]
RECURSIVE Loop(_, _, _, _)
Loop(S, L, w, t) ==
    IF L = <<>> THEN S
    ELSE LET m == Head(L)
             rest == Tail(L)
         IN IF m \notin S.ld[w] THEN Loop(S, rest, w, t)
            ELSE LET Fit(k) == St(m, k).dem <= S.av[w]
                     cs == SelectSeq(AvailStrats(S.q[m], m, t), Fit)
                 IN IF cs = <<>> THEN Loop(S, rest, w, t)
                    ELSE LET k == Head(cs)
                             reqs == SubSeq(S.q[m][k], 1, St(m, k).b)
                             qm1 == [j \in DOMAIN S.q[m] |-> Without(S.q[m][j], ToSet(reqs))]
                             qm2 == ExpireModel(qm1, m, t)
                             S2 == [q  |-> [S.q EXCEPT ![m] = qm2],
                                    av |-> [S.av EXCEPT ![w] = @ - St(m, k).dem],
                                    ld |-> S.ld,
                                    pl |-> Append(S.pl, [m |-> m, b |-> St(m, k).b, rt |-> St(m, k).rt,
                                                         dem |-> St(m, k).dem, w |-> w, reqs |-> reqs])]
                             L2 == IF AvailStrats(qm2, m, t) = <<>> THEN rest
                                   ELSE IF Goal = "least_slack" THEN StableSort(Append(rest, m), S2.q)
                                   ELSE Append(rest, m)
                         IN Loop(S2, L2, w, t)

WorkerPass(S, w, mo, t) ==
    LET q1 == [m \in ModelSet |-> IF m \in ToSet(mo) THEN ExpireModel(S.q[m], m, t) ELSE S.q[m]]
        Has(m) == AvailStrats(q1[m], m, t) # <<>>
        L0 == SelectSeq(mo, Has)
        L == IF Goal = "least_slack" THEN StableSort(L0, q1) ELSE L0
    IN Loop([S EXCEPT !.q = q1], L, w, t)

RECURSIVE Inference(_, _, _, _)
Inference(S, w, mo, t) == IF w > Len(Workers) THEN S ELSE Inference(WorkerPass(S, w, mo, t), w + 1, mo, t)

\* ---- schedule() and the caller applying its answer --------------------------
Admission == Admit([q |-> queue, mo |-> morder, canc |-> {}], 1, now)

\* the rest of schedule() after admission A, when run_load sees the priority orders pr
Answer(A, pr) ==
    LET free == [w \in W |-> Workers[w].cap - Used(running[w])]
        V0 == [ld |-> avail, fm |-> [w \in W |-> FreeMem(avail, pend, w)], ev |-> <<>>, lo |-> <<>>]
        V == IF RunLoad THEN LoadAll(V0, 1, A.mo, pr) ELSE V0
        S == Inference([q |-> A.q, av |-> free, ld |-> V.ld, pl |-> <<>>], 1, A.mo, now)
    IN [q |-> S.q, mo |-> A.mo, canc |-> A.canc, pl |-> S.pl, free |-> free, ev |-> V.ev, lo |-> V.lo]

\* the caller applies the answer: evictions, then loads, then the batches
\* (the answer is an operator argument, not a LET: TLC re-evaluates action-level LET
\* definitions at every use)
Invoke(a) ==
    /\ queue' = a.q /\ morder' = a.mo
    /\ cancelled' = cancelled \cup a.canc
    /\ nplaced' = [r \in R |-> nplaced[r] + Cardinality({i \in DOMAIN a.pl : r \in ToSet(a.pl[i].reqs)})]
    /\ running' = [w \in W |-> running[w] \cup
                      {[m |-> a.pl[i].m, b |-> a.pl[i].b, dem |-> a.pl[i].dem, fin |-> now + a.pl[i].rt,
                        reqs |-> ToSet(a.pl[i].reqs)] : i \in {i \in DOMAIN a.pl : a.pl[i].w = w}}]
    /\ avail' = [w \in W |-> avail[w] \ {a.ev[i].m : i \in {i \in DOMAIN a.ev : a.ev[i].w = w}}]
    /\ pend' = [w \in W |-> [m \in ModelSet |->
                    IF \E i \in DOMAIN a.lo : a.lo[i].w = w /\ a.lo[i].m = m THEN LoadOf[m].lt ELSE pend[w][m]]]
    /\ out' = [at |-> now, offered |-> Offered, cancelled |-> a.canc, batches |-> a.pl, free |-> a.free,
               evicts |-> a.ev, loads |-> a.lo, loaded |-> avail,
               pending |-> [w \in W |-> Pending(pend, w)],
               fmem |-> [w \in W |-> FreeMem(avail, pend, w)]]
    /\ obs' = Observe(running', avail', pend')
    /\ UNCHANGED <<now, arrived, dl>>

InvokeWith(A) == \E pr \in PrioChoices : Invoke(Answer(A, pr))
Schedule == InvokeWith(Admission)

Next == \/ \E r \in R : \E d \in Reqs[r].dls : Arrive(r, d)
        \/ \E d \in Steps : Tick(d)
        \/ Schedule

Spec == Init /\ [][Next]_vars

----------------------------------------------------------------------------
(* Invariants.                                                               *)

OutCall == [now |-> out.at, offered |-> out.offered, cancelled |-> out.cancelled, batches |-> out.batches,
            free |-> out.free, loaded |-> out.loaded, failed |-> {},
            evicts |-> out.evicts, loads |-> out.loads, pending |-> out.pending, fmem |-> out.fmem, lfailed |-> {}]
Called == out.at >= 0
BI == DOMAIN out.batches

C15_FullBatch == Called => \A i \in BI : ClFullBatch(World, OutCall, out.batches[i])
C15_SameModel == Called => \A i \in BI : ClSameModel(World, OutCall, out.batches[i])
\* (a batch that is running when a later answer evicts its model was placed where the model was loaded:
\* the statement speaks of the placement)
C15_Loaded    == Called => \A i \in BI : ClLoaded(World, OutCall, out.batches[i])
\* run_load's decisions are well-formed and within the model memory, on the bookkeeping of the call and
\* on the ground truth of the live workers
C15_LoadTarget == Called => /\ \A i \in DOMAIN out.evicts : ClEvictTarget(World, OutCall, i)
                            /\ \A i \in DOMAIN out.loads : ClLoadTarget(World, OutCall, i)
C15_LoadFits  == /\ Called => \A w \in W : ClLoadFits(World, OutCall, w)
                 /\ \A w \in W : FreeMem(avail, pend, w) >= 0
\* against the bookkeeping of the call and against the ground truth of the live workers
C15_Fits      == /\ Called => \A w \in W : ClFits(World, OutCall, w)
                 /\ \A w \in W : Used(running[w]) <= Workers[w].cap
C15_OnTime    == Called => \A i \in BI : ClOnTime(World, OutCall, out.batches[i])
C15_PlacedOnce == /\ \A r \in R : nplaced[r] <= 1
                  /\ Called => \A i \in BI : ClOffered(World, OutCall, out.batches[i])
C15_LateCancelled == /\ Called => \A r \in out.offered : ClLate(World, OutCall, r)
                     /\ \A r \in cancelled : nplaced[r] = 0

\* sanity of the model itself (not property clauses)
QueuesSorted == \A m \in ModelSet : \A k \in DOMAIN queue[m] :
                    \A i \in 1..(Len(queue[m][k]) - 1) : DL(queue[m][k][i]) <= DL(queue[m][k][i + 1])
QueuedAreLive == Called => \A m \in ModelSet : \A k \in DOMAIN queue[m] :
                    ToSet(queue[m][k]) \subseteq {r \in arrived : nplaced[r] = 0 /\ r \notin cancelled /\ MOf(r) = m}
TypeOK == /\ now \in 0..MaxT /\ arrived \subseteq R /\ cancelled \subseteq arrived
          /\ \A w \in W : avail[w] \subseteq ModelSet /\ avail[w] \cap Pending(pend, w) = {}
          /\ ToSet(morder) \subseteq ModelSet /\ Cardinality(ToSet(morder)) = Len(morder)

----------------------------------------------------------------------------
(* Record checking (code -> spec).  `H` is a sequence of histories read from  *)
(* JSON: [id, world |-> [strats, reqs], calls |-> seq of call objects whose    *)
(* sets are arrays].  Prints one line per failing (history, call, clause,      *)
(* item) and the number of times each clause was exercised.                    *)

CallOf(j) == [now |-> j.now, offered |-> ToSet(j.offered), cancelled |-> ToSet(j.cancelled),
              batches |-> j.batches, free |-> j.free,
              loaded |-> [w \in DOMAIN j.loaded |-> ToSet(j.loaded[w])], failed |-> ToSet(j.failed),
              evicts |-> j.evicts, loads |-> j.loads,
              pending |-> [w \in DOMAIN j.pending |-> ToSet(j.pending[w])],
              fmem |-> j.fmem, lfailed |-> ToSet(j.lfailed)]

\* (TimesPlaced and the counters read the raw JSON calls: batches / now / free have the same
\* shape there; the converted call is built once per call, as an operator argument)
CallBadAt(wd, c, j) == {<<j, x[1], x[2]>> : x \in CallBad(wd, c)}
HistBad(h) ==
    UNION {CallBadAt(h.world, CallOf(h.calls[j]), j) : j \in DOMAIN h.calls}
    \cup {<<0, "C15.placed_once", r>> : r \in {r \in DOMAIN h.world.reqs : TimesPlaced(h.calls, r) > 1}}

HistCount(h, F(_, _)) == SumSeq([j \in DOMAIN h.calls |-> F(h.world, h.calls[j])])
NBatches(wd, c) == Len(c.batches)
NMulti(wd, c) == Cardinality({i \in DOMAIN c.batches : c.batches[i].b > 1})
NLate(wd, c) == Cardinality({r \in ToSet(c.offered) : Late(wd, c, r)})
NCancelled(wd, c) == Len(c.cancelled)
NTight(wd, c) == Cardinality({i \in DOMAIN c.batches :
                     \E p \in DOMAIN c.batches[i].reqs : c.now + c.batches[i].rt = wd.reqs[c.batches[i].reqs[p]].dl})
NFullWorker(wd, c) == Cardinality({w \in DOMAIN c.free :
                     c.free[w] - SumSeq([i \in DOMAIN c.batches |-> IF c.batches[i].w = w THEN c.batches[i].dem ELSE 0]) = 0})

\* loading: decisions, and the situations in which "loaded" has to be judged after the evictions
NEvicts(wd, c) == Len(c.evicts)
NLoads(wd, c) == Len(c.loads)
NLoadAfterEvict(wd, c) == Cardinality({i \in DOMAIN c.loads : \E k \in DOMAIN c.evicts : c.evicts[k].w = c.loads[i].w})
\* an evicted model that had, at that instant, a full on-time batch among the offered requests and room
\* for it on that worker (the requests wait, are placed elsewhere or after a re-load)
NVictimQueued(wd, c) ==
    Cardinality({i \in DOMAIN c.evicts :
        /\ c.evicts[i].m \in DOMAIN wd.strats /\ c.evicts[i].w \in DOMAIN c.free
        /\ \E k \in DOMAIN wd.strats[c.evicts[i].m] :
              LET s == wd.strats[c.evicts[i].m][k] IN
              /\ s.dem <= c.free[c.evicts[i].w]
              /\ Cardinality({p \in DOMAIN c.offered : /\ wd.reqs[c.offered[p]].m = c.evicts[i].m
                                                        /\ c.now + s.rt <= wd.reqs[c.offered[p]].dl}) >= s.b})
NBatchOnEvictingWorker(wd, c) ==
    Cardinality({i \in DOMAIN c.batches : \E k \in DOMAIN c.evicts : c.evicts[k].w = c.batches[i].w})
NBatchBesidePending(wd, c) ==
    Cardinality({i \in DOMAIN c.batches : c.batches[i].w \in DOMAIN c.pending /\ Len(c.pending[c.batches[i].w]) > 0})
NMemFull(wd, c) == Cardinality({w \in DOMAIN c.fmem : c.fmem[w] = 0})

RecCheck(H) ==
    /\ \A i \in DOMAIN H :
          \A x \in HistBad(H[i]) : PrintT(<<"@@bad", H[i].id, x[1], x[2], x[3]>>)
    /\ PrintT(<<"@@count", "histories", Len(H)>>)
    /\ PrintT(<<"@@count", "calls", SumSeq([i \in DOMAIN H |-> Len(H[i].calls)])>>)
    /\ PrintT(<<"@@count", "batches", SumSeq([i \in DOMAIN H |-> HistCount(H[i], NBatches)])>>)
    /\ PrintT(<<"@@count", "batches_size_gt1", SumSeq([i \in DOMAIN H |-> HistCount(H[i], NMulti)])>>)
    /\ PrintT(<<"@@count", "batches_exactly_on_deadline", SumSeq([i \in DOMAIN H |-> HistCount(H[i], NTight)])>>)
    /\ PrintT(<<"@@count", "late_offered", SumSeq([i \in DOMAIN H |-> HistCount(H[i], NLate)])>>)
    /\ PrintT(<<"@@count", "cancelled", SumSeq([i \in DOMAIN H |-> HistCount(H[i], NCancelled)])>>)
    /\ PrintT(<<"@@count", "workers_filled", SumSeq([i \in DOMAIN H |-> HistCount(H[i], NFullWorker)])>>)
    /\ PrintT(<<"@@count", "evictions", SumSeq([i \in DOMAIN H |-> HistCount(H[i], NEvicts)])>>)
    /\ PrintT(<<"@@count", "loads", SumSeq([i \in DOMAIN H |-> HistCount(H[i], NLoads)])>>)
    /\ PrintT(<<"@@count", "loads_after_eviction", SumSeq([i \in DOMAIN H |-> HistCount(H[i], NLoadAfterEvict)])>>)
    /\ PrintT(<<"@@count", "evicted_with_placeable_batch", SumSeq([i \in DOMAIN H |-> HistCount(H[i], NVictimQueued)])>>)
    /\ PrintT(<<"@@count", "batches_on_evicting_worker", SumSeq([i \in DOMAIN H |-> HistCount(H[i], NBatchOnEvictingWorker)])>>)
    /\ PrintT(<<"@@count", "batches_beside_pending_load", SumSeq([i \in DOMAIN H |-> HistCount(H[i], NBatchBesidePending)])>>)
    /\ PrintT(<<"@@count", "worker_memory_full", SumSeq([i \in DOMAIN H |-> HistCount(H[i], NMemFull)])>>)

\* behaviour used by the record-checking runs (constants are dummies there)
RecNext == UNCHANGED vars
=============================================================================
