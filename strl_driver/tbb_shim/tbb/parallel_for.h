// Sequential stand-in for tbb::parallel_for (verification driver only): the body
// is applied once to the whole range on the calling thread.
#ifndef VERIF_TBB_SHIM_PARALLEL_FOR_H
#define VERIF_TBB_SHIM_PARALLEL_FOR_H
#include "tbb/blocked_range.h"

namespace tbb {
template <typename Range, typename Body>
void parallel_for(const Range& range, const Body& body) {
  body(range);
}
template <typename Index, typename Function>
void parallel_for(Index first, Index last, const Function& f) {
  for (Index i = first; i < last; ++i) f(i);
}
}  // namespace tbb
#endif
