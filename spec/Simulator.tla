----------------------------- MODULE Simulator -----------------------------
(* simulator.py as a transition system, written as pure operators over a     *)
(* state record S so that the same definitions serve                         *)
(*   - SimTrace.tla  (code -> spec: every recorded loop action of the real    *)
(*     Simulator must be the step these operators compute), and               *)
(*   - SimMC.tla     (exhaustive exploration with an arbitrary scheduler).    *)
(*                                                                          *)
(* One operator per handler of Simulator.__handle_event, one for __step, one  *)
(* for the loop's choice between "step only" and "step and pop", one for      *)
(* __get_next_scheduler_event.  Nondeterministic inputs (scheduler answer,    *)
(* offered tasks, branch draw, runtime fuzz, newly materialised task graphs)  *)
(* are explicit parameters (`B`, the binding).                                *)
(*                                                                          *)
(* W (the world): [pools |-> <<pool>>, pool = <<worker>>, worker = <<inst>>,  *)
(*                 fl |-> flags].                                             *)
(* S: [now, q, fut, sch, ctr, wl, ts, tk, gr, cl, pd]                          *)
EXTENDS Integers, Sequences, FiniteSets, LedgerOps, TLC

Inf == 1000000000          \* stands for sys.maxsize

\* TaskState values
VIRTUAL == 1  RELEASED == 2  SCHEDULED == 3  RUNNING == 4
PREEMPTED == 5  EVICTED == 6  COMPLETED == 7  CANCELLED == 8
\* EventType values
E_START == 0  E_CANCEL == 1  E_EVICT == 2  E_FINISHED == 3  E_GRELEASE == 4
E_RELEASE == 5  E_UPDATE == 6  E_PREEMPT == 7  E_MIGRATE == 8  E_LOAD == 9
E_PLACEMENT == 10  E_SCHED_START == 11  E_SCHED_FIN == 12  E_END == 13  E_LOGUTIL == 14

NoSD == [dem |-> <<>>, rt |-> -1, bs |-> 0, bid |-> 0]
NoPlan == [pool |-> 0, wk |-> 0, sd |-> NoSD, tm |-> -1]
Ev(ty, tm, t, g, pl) == [ty |-> ty, tm |-> tm, t |-> t, g |-> g, pl |-> pl, pr |-> 0]
EvP(ty, tm, pr, pl) == [ty |-> ty, tm |-> tm, t |-> 0, g |-> 0, pl |-> pl, pr |-> pr]   \* profile load / evict event

Max2(a, b) == IF a >= b THEN a ELSE b
Min2(a, b) == IF a <= b THEN a ELSE b
RECURSIVE SeqMin(_, _)
SeqMin(s, dflt) == IF s = <<>> THEN dflt ELSE Min2(Head(s), SeqMin(Tail(s), dflt))
RECURSIVE SeqMax(_, _)
SeqMax(s, dflt) == IF s = <<>> THEN dflt ELSE Max2(Head(s), SeqMax(Tail(s), dflt))
Range(s) == {s[i] : i \in 1..Len(s)}
RECURSIVE Flatten(_)
Flatten(ss) == IF ss = <<>> THEN <<>> ELSE Head(ss) \o Flatten(Tail(ss))
InSeq(x, s) == \E i \in 1..Len(s) : s[i] = x
RECURSIVE RemoveFirst(_, _)
RemoveFirst(s, x) == IF s = <<>> THEN <<>> ELSE IF Head(s) = x THEN Tail(s) ELSE <<Head(s)>> \o RemoveFirst(Tail(s), x)
Count(s, x) == Cardinality({i \in 1..Len(s) : s[i] = x})
BagEq(a, b) == Len(a) = Len(b) /\ \A i \in 1..Len(a) : Count(a, a[i]) = Count(b, a[i])

RECURSIVE SeqLess(_, _)       \* lexicographic < on sequences of integers (Python str <)
SeqLess(a, b) ==
    IF b = <<>> THEN FALSE
    ELSE IF a = <<>> THEN TRUE
    ELSE IF Head(a) # Head(b) THEN Head(a) < Head(b)
    ELSE SeqLess(Tail(a), Tail(b))

----------------------------------------------------------------------------
(* Tasks *)
NT(S) == Len(S.ts)
IsDone(S, t) == S.ts[t].st \in {EVICTED, COMPLETED}           \* Task.is_complete()
SlowestRt(S, t) == SeqMax([k \in 1..Len(S.tk[t].strats) |-> S.tk[t].strats[k].rt], 0)
FastestRt(S, t) == SeqMin([k \in 1..Len(S.tk[t].strats) |-> S.tk[t].strats[k].rt], Inf)
\* Task.remaining_time (the property)
RemT(S, t) ==
    LET st == S.ts[t].st IN
    IF st \in {COMPLETED, CANCELLED} THEN 0
    ELSE IF st \in {RUNNING, PREEMPTED, EVICTED, SCHEDULED} THEN S.ts[t].rem
    ELSE SlowestRt(S, t)
Parents(S, t) == S.tk[t].par
Children(S, t) == S.tk[t].ch
\* Task.is_ready_to_run
ParentsOK(S, t) ==
    IF S.tk[t].term THEN \E i \in 1..Len(Parents(S, t)) : IsDone(S, Parents(S, t)[i])
    ELSE \A i \in 1..Len(Parents(S, t)) : IsDone(S, Parents(S, t)[i])
ReadyToRun(S, t) == ParentsOK(S, t) /\ S.ts[t].st \in {SCHEDULED, PREEMPTED}

GraphOf(S, t) == S.tk[t].g
GTasks(S, g) == S.gr[g].tasks
Sinks(S, g) == SelectSeq(GTasks(S, g), LAMBDA t : S.tk[t].sink)
Sources(S, g) == SelectSeq(GTasks(S, g), LAMBDA t : S.tk[t].src)
GComplete(S, g) == \A i \in 1..Len(Sinks(S, g)) : IsDone(S, Sinks(S, g)[i])
GCancelled(S, g) == \E i \in 1..Len(Sinks(S, g)) : S.ts[Sinks(S, g)[i]].st = CANCELLED
GDeadline(S, g) == SeqMax([i \in 1..Len(GTasks(S, g)) |-> S.ts[GTasks(S, g)[i]].dl], -1)
GRelease(S, g) == SeqMin([i \in 1..Len(Sources(S, g)) |-> S.ts[Sources(S, g)[i]].rel], Inf)

\* Task.cancel
CancelTask(S, t, now) ==
    [S EXCEPT !.ts[t].cat = now, !.ts[t].prob = 0, !.ts[t].rem = 0, !.ts[t].st = CANCELLED]

(* TaskGraph.cancel(task, time): a worklist (stack) seeded with the task; pop the   *)
(* last element; a terminal task that still has a non-cancelled parent, or a task   *)
(* that is already cancelled, is skipped (its branch is pruned); otherwise the task *)
(* is cancelled and its children are pushed.  Returns                               *)
(* <<state, cancelled tasks in order, error>>.                                      *)
RECURSIVE CancelWalk(_, _, _, _, _, _)
CancelWalk(S, root, now, stack, visited, acc) ==
    IF stack = <<>> THEN <<S, acc, "">>
    ELSE LET n == stack[Len(stack)]
             rest == SubSeq(stack, 1, Len(stack) - 1)
             vis == visited \cup {n}
             stopTerm == /\ S.tk[n].term /\ n # root
                         /\ ~(\A i \in 1..Len(Parents(S, n)) : S.ts[Parents(S, n)[i]].st = CANCELLED)
         IN  IF stopTerm \/ S.ts[n].st = CANCELLED THEN CancelWalk(S, root, now, rest, vis, acc)
             ELSE IF S.ts[n].st \notin {VIRTUAL, RELEASED, SCHEDULED} THEN <<S, acc, "cancel_bad_state">>
             ELSE LET S2 == CancelTask(S, n, now)
                  IN  CancelWalk(S2, root, now, rest \o Children(S, n), vis, Append(acc, n))
GraphCancel(S, t, now) == CancelWalk(S, t, now, <<t>>, {}, <<>>)

\* several GraphCancel calls one after the other (conditional: every untaken child)
RECURSIVE CancelMany(_, _, _, _)
CancelMany(S, roots, now, acc) ==
    IF roots = <<>> THEN <<S, acc, "">>
    ELSE LET r == GraphCancel(S, Head(roots), now)
         IN  IF r[3] # "" THEN <<r[1], acc \o r[2], r[3]>>
             ELSE CancelMany(r[1], Tail(roots), now, acc \o r[2])

(* TaskGraph.notify_task_completion(task, now).  B.draw = the child chosen by      *)
(* random.choices for a conditional task (0 if no draw was made).                   *)
(* Returns [S, released, cancelled, err].                                            *)
Eps == 0      \* probabilities are integers (millionths); "<= epsilon" is "= 0"
NotifyCompletion(S, t, now, draw) ==
    LET ch == Children(S, t) IN
    IF S.tk[t].cond THEN
        IF \A i \in 1..Len(ch) : S.ts[ch[i]].prob <= Eps
        THEN LET r == CancelMany(S, ch, now, <<>>)
             IN  [S |-> r[1], released |-> <<>>, cancelled |-> r[2], err |-> r[3]]
        ELSE IF SumTo([i \in 1..Len(ch) |-> S.ts[ch[i]].prob], Len(ch)) # 1000000
        THEN [S |-> S, released |-> <<>>, cancelled |-> <<>>, err |-> "prob_sum"]
        ELSE IF draw = 0 \/ ~InSeq(draw, ch)
        THEN [S |-> S, released |-> <<>>, cancelled |-> <<>>, err |-> "no_draw"]
        ELSE IF S.ts[draw].st > SCHEDULED /\ S.ts[draw].st < CANCELLED
        THEN [S |-> S, released |-> <<>>, cancelled |-> <<>>, err |-> "child_beyond_scheduled"]
        ELSE LET S1 == [S EXCEPT !.ts[draw].prob = 1000000]
                 others == SelectSeq(ch, LAMBDA c : c # draw)
                 r == CancelMany(S1, others, now, <<>>)
             IN  [S |-> r[1], released |-> <<draw>>, cancelled |-> r[2], err |-> r[3]]
    ELSE LET bad == \E i \in 1..Len(ch) : S.ts[ch[i]].st > SCHEDULED /\ S.ts[ch[i]].st < CANCELLED
             rel == SelectSeq(ch, LAMBDA c :
                        /\ S.ts[c].st # CANCELLED
                        /\ (S.tk[c].term \/ \A i \in 1..Len(Parents(S, c)) : IsDone(S, Parents(S, c)[i])))
         IN  [S |-> S, released |-> rel, cancelled |-> <<>>,
              err |-> IF bad THEN "child_beyond_scheduled" ELSE ""]

\* TaskGraph.get_releasable_tasks
Releasable(S, g) ==
    SelectSeq(GTasks(S, g), LAMBDA t :
        /\ S.ts[t].st \in {VIRTUAL, SCHEDULED, PREEMPTED}
        /\ \A i \in 1..Len(Parents(S, t)) : IsDone(S, Parents(S, t)[i]))

----------------------------------------------------------------------------
(* Cluster: S.cl is a sequence of worker records [p, w, av, occ, inpool];           *)
(* occ = sequence of [t, sd, al] (al = <<<<instance, quantity>>, ...>>).            *)
WIdx(S, p, w) == CHOOSE k \in 1..Len(S.cl) : S.cl[k].p = p /\ S.cl[k].w = w
PoolWorkers(S, p) == SelectSeq([k \in 1..Len(S.cl) |-> k], LAMBDA k : S.cl[k].p = p)
Insts(W, S, k) == W.pools[S.cl[k].p][S.cl[k].w]
PlacedInPool(S, p) == Flatten([i \in 1..Len(PoolWorkers(S, p)) |-> S.cl[PoolWorkers(S, p)[i]].inpool])
AllPlaced(S) == Flatten([k \in 1..Len(S.cl) |-> S.cl[k].inpool])
NPools(W) == Len(W.pools)

ProfEntries(S, k) == S.cl[k].pend \o S.cl[k].avl      \* profile entries <<profile, remaining load time, demand, allocations>>
\* ledger value of worker k (allocation lists keyed by occupant position)
WLedger(S, k) == [av |-> S.cl[k].av, al |-> [c \in {"x"} |-> <<>>]]
BatchOn(S, k, bid) == bid # 0 /\ \E i \in 1..Len(S.cl[k].occ) : S.cl[k].occ[i].sd.bid = bid
\* Worker.can_accomodate_strategy
CanAcc(W, S, k, sd) == FitsEach(Insts(W, S, k), WLedger(S, k), sd.dem) \/ BatchOn(S, k, sd.bid)

\* WorkerPool.place_task(task, execution_strategy, worker_id): chosen worker index or 0
ChooseWorker(W, S, p, wk, sd) ==
    IF wk # 0 THEN (IF CanAcc(W, S, WIdx(S, p, wk), sd) THEN WIdx(S, p, wk) ELSE 0)
    ELSE LET ws == PoolWorkers(S, p)
             ok == SelectSeq(ws, LAMBDA k : CanAcc(W, S, k, sd))
         IN  IF ok = <<>> THEN 0 ELSE Head(ok)

\* Worker.place_task: allocate (unless joining a placed batch) and register
PlaceOnWorker(W, S, k, t, sd) ==
    LET join == BatchOn(S, k, sd.bid)
        L0 == [av |-> S.cl[k].av, al |-> [c \in {"n"} |-> <<>>]]
        L1 == IF join THEN L0 ELSE MultiAlloc(Insts(W, S, k), L0, sd.dem, "n", 1)
        al == IF join THEN (LET i == CHOOSE i \in 1..Len(S.cl[k].occ) : S.cl[k].occ[i].sd.bid = sd.bid
                            IN S.cl[k].occ[i].al)
              ELSE L1.al["n"]
        occ2 == S.cl[k].occ \o <<[t |-> t, sd |-> sd, al |-> al]>>
    IN  [S EXCEPT !.cl[k].av = L1.av, !.cl[k].occ = occ2, !.cl[k].inpool = Append(@, t)]

\* WorkerPool.remove_task
OccIdx(S, k, t) == CHOOSE i \in 1..Len(S.cl[k].occ) : S.cl[k].occ[i].t = t
WorkerOf(S, t) == IF \E k \in 1..Len(S.cl) : \E i \in 1..Len(S.cl[k].occ) : S.cl[k].occ[i].t = t
                  THEN CHOOSE k \in 1..Len(S.cl) : \E i \in 1..Len(S.cl[k].occ) : S.cl[k].occ[i].t = t
                  ELSE 0
RemoveFromWorker(S, k, t) ==
    LET i == OccIdx(S, k, t)
        o == S.cl[k].occ[i]
        others == SelectSeq(S.cl[k].occ, LAMBDA x : x.t # t)
        shared == o.sd.bid # 0 /\ \E j \in 1..Len(others) : others[j].sd.bid = o.sd.bid
        RECURSIVE Give(_, _)
        Give(av, n) == IF n > Len(o.al) THEN av ELSE Give([av EXCEPT ![o.al[n][1]] = @ + o.al[n][2]], n + 1)
    IN  [S EXCEPT !.cl[k].av = IF shared THEN @ ELSE Give(@, 1),
                  !.cl[k].occ = others,
                  !.cl[k].inpool = SelectSeq(@, LAMBDA x : x # t)]

----------------------------------------------------------------------------
(* Event queue.  Event.__lt__ *)
EvLess(S, a, b) ==
    IF a.tm = b.tm
    THEN IF a.ty = b.ty /\ a.t # 0 /\ b.t # 0 THEN SeqLess(S.tk[a.t].nk, S.tk[b.t].nk)
         ELSE a.ty < b.ty
    ELSE a.tm < b.tm
PopCandidates(S) == {i \in 1..Len(S.q) : ~\E j \in 1..Len(S.q) : EvLess(S, S.q[j], S.q[i])}
MinTime(S) == SeqMin([i \in 1..Len(S.q) |-> S.q[i].tm], Inf)
QAdd(S, e) == [S EXCEPT !.q = Append(@, e)]
RECURSIVE QAddAll(_, _)
QAddAll(S, es) == IF es = <<>> THEN S ELSE QAddAll(QAdd(S, Head(es)), Tail(es))
QRemove(S, e) == [S EXCEPT !.q = RemoveFirst(@, e)]
FutOf(S, t) == IF \E i \in 1..Len(S.fut) : S.fut[i][1] = t
               THEN (CHOOSE i \in 1..Len(S.fut) : S.fut[i][1] = t) ELSE 0
FutDel(S, t) == [S EXCEPT !.fut = SelectSeq(@, LAMBDA x : x[1] # t)]
FutSet(S, t, tm) == [S EXCEPT !.fut = SelectSeq(@, LAMBDA x : x[1] # t) \o <<<<t, tm>>>>]
\* the cached TASK_PLACEMENT event of task t
FutEvent(S, t) == CHOOSE e \in Range(S.q) : e.ty = E_PLACEMENT /\ e.t = t /\ e.tm = S.fut[FutOf(S, t)][2]
HasFutEvent(S, t) == FutOf(S, t) # 0 /\ \E e \in Range(S.q) : e.ty = E_PLACEMENT /\ e.t = t /\ e.tm = S.fut[FutOf(S, t)][2]

----------------------------------------------------------------------------
(* Simulator.__step(size): step every placed RUNNING task (Task.step), create     *)
(* TASK_FINISHED events at now+size, advance the clock.                            *)
StepTask(S, t, size) ==       \* returns <<dyn record, finished?>>
    LET d == S.ts[t] IN
    IF d.st # RUNNING \/ d.start > S.now + size THEN <<d, FALSE>>
    ELSE IF d.rem = 0 THEN <<d, FALSE>>
    ELSE LET exec == S.now + size - d.last IN
         IF d.rem - exec <= 0
         THEN <<[d EXCEPT !.last = S.now + d.rem, !.rem = 0], TRUE>>
         ELSE <<[d EXCEPT !.last = S.now + size, !.rem = d.rem - exec], FALSE>>
OccTasks(S) == Flatten([k \in 1..Len(S.cl) |-> [i \in 1..Len(S.cl[k].occ) |-> S.cl[k].occ[i].t]])
DoStep(S, size) ==
    LET occ == OccTasks(S)
        res == [t \in Range(occ) |-> StepTask(S, t, size)]
        fin == SelectSeq(occ, LAMBDA t : res[t][2])
        ts2 == [t \in 1..NT(S) |-> IF t \in Range(occ) THEN res[t][1] ELSE S.ts[t]]
        evs == [i \in 1..Len(fin) |-> Ev(E_FINISHED, S.now + size, fin[i], 0, NoPlan)]
        \* Worker.step: pending profiles whose remaining loading time elapses become available
        cl2 == [k \in 1..Len(S.cl) |->
                 [S.cl[k] EXCEPT
                    !.pend = [i \in 1..Len(SelectSeq(S.cl[k].pend, LAMBDA x : x[2] - size > 0)) |->
                                 LET x == SelectSeq(S.cl[k].pend, LAMBDA y : y[2] - size > 0)[i] IN <<x[1], x[2] - size, x[3], x[4]>>],
                    !.avl = SelectSeq(S.cl[k].avl, LAMBDA a : ~\E i \in 1..Len(S.cl[k].pend) :
                                                S.cl[k].pend[i][1] = a[1] /\ S.cl[k].pend[i][2] - size <= 0)
                            \o [i \in 1..Len(SelectSeq(S.cl[k].pend, LAMBDA x : x[2] - size <= 0)) |->
                                 LET x == SelectSeq(S.cl[k].pend, LAMBDA y : y[2] - size <= 0)[i] IN <<x[1], 0, x[3], x[4]>>]]]
    IN  [QAddAll([S EXCEPT !.ts = ts2, !.cl = cl2], evs) EXCEPT !.now = S.now + size]

\* the loop of simulate(): how far to step, and whether an event is popped afterwards
LoopChoice(S) ==
    LET dt == MinTime(S) - S.now
        placed == AllPlaced(S)
        minRem == SeqMin([i \in 1..Len(placed) |-> RemT(S, placed[i])], Inf)
    IN  IF placed # <<>> /\ minRem < dt THEN [size |-> minRem, pop |-> FALSE]
        ELSE [size |-> dt, pop |-> TRUE]

----------------------------------------------------------------------------
(* Handlers.  Each returns [S |-> state, err |-> "" or the exception the code raises] *)
Ok(S) == [S |-> S, err |-> ""]
Err(S, e) == [S |-> S, err |-> e]

\* TASK_RELEASE
HTaskRelease(W, S, t) ==
    IF S.ts[t].st \notin {VIRTUAL, SCHEDULED, PREEMPTED} THEN Err(S, "release_bad_state")
    ELSE
    LET S1 == [S EXCEPT !.ts[t].rel = S.now,
                        !.ts[t].st = IF @ < RELEASED THEN RELEASED ELSE @,
                        !.ts[t].pss = IF S.ts[t].st < RELEASED THEN RELEASED ELSE @]
        pull == S1.ts[t].st < SCHEDULED /\ S.sch.next # -1 /\ ~W.fl.at_worker_free
        newtm == Min2(S.sch.next, S.now + W.fl.delay)
    IN  IF pull /\ newtm # S.sch.next
        THEN Ok([QAdd(QRemove(S1, Ev(E_SCHED_START, S.sch.next, 0, 0, NoPlan)),
                      Ev(E_SCHED_START, newtm, 0, 0, NoPlan)) EXCEPT !.sch.next = newtm])
        ELSE Ok(S1)

\* TASK_CANCEL
HTaskCancel(W, S, t) ==
    LET S1 == [S EXCEPT !.ctr.can = @ + 1] IN
    IF FutOf(S, t) # 0
    THEN (IF HasFutEvent(S, t) THEN Ok(FutDel(QRemove(S1, FutEvent(S, t)), t))
          ELSE Err(S1, "future_event_missing"))
    ELSE Ok(S1)

\* events for a list of cancelled tasks
CancelEvents(S, cs) == [i \in 1..Len(cs) |-> Ev(E_CANCEL, S.ts[cs[i]].cat, cs[i], 0, NoPlan)]

(* release events as created by __handle_task_finished: the loop variable `event`  *)
(* is re-bound, so every TASK_RELEASE is created at max(release time, time of the  *)
(* previously created event).                                                      *)
RECURSIVE ReleaseEvents(_, _, _)
ReleaseEvents(S, rs, prevTm) ==
    IF rs = <<>> THEN <<>>
    ELSE LET tm == Max2(S.ts[Head(rs)].rel, prevTm)
         IN  <<Ev(E_RELEASE, tm, Head(rs), 0, NoPlan)>> \o ReleaseEvents(S, Tail(rs), tm)

(* TASK_FINISHED.  B.draw: drawn child (0 if none); B.newg: sequence of graphs       *)
(* materialised by the closed-loop policy during this handler (already appended to  *)
(* S.tk/S.gr/S.ts by the caller as `Sx`, the state extended with the new tasks).     *)
HTaskFinished(W, S, t, B) ==
    LET k == WorkerOf(S, t) IN
    IF k = 0 \/ S.ts[t].pool = 0 THEN Err(S, "finish_not_placed")
    ELSE IF S.ts[t].st \notin {RUNNING, PREEMPTED} THEN Err(S, "finish_bad_state")
    ELSE
    LET S1 == RemoveFromWorker(S, k, t)
        S2 == [S1 EXCEPT !.ts[t].fin = S.ts[t].last,
                         !.ts[t].st = IF S.ts[t].rem = 0 THEN COMPLETED ELSE EVICTED,
                         !.ts[t].pool = 0,
                         !.ctr.fin = @ + 1]
        g == GraphOf(S, t)
        gdone == GComplete(S2, g)
        gdl == GDeadline(S2, g)
        S3 == [S2 EXCEPT !.ctr.gfin = IF gdone THEN @ + 1 ELSE @,
                         !.ctr.gmiss = IF gdone /\ gdl < S.now THEN @ + 1 ELSE @,
                         !.ctr.miss = IF S.now > S.ts[t].dl THEN @ + 1 ELSE @]
        n == NotifyCompletion(S3, t, S.now, B.draw)
        S4 == n.S
        gdone2 == GComplete(S4, g)
        \* closed loop: the new graph's releasable tasks are appended to the released ones
        newRel == IF gdone2 /\ S.gr[g].closed
                  THEN Flatten([i \in 1..Len(B.newg) |-> Releasable(S4, B.newg[i])]) ELSE <<>>
        S5 == [S4 EXCEPT !.wl = @ \o (IF gdone2 /\ S.gr[g].closed THEN B.newg ELSE <<>>)]
        newG == IF gdone2 /\ S.gr[g].closed THEN B.newg ELSE <<>>
        gev == [i \in 1..Len(newG) |-> Ev(E_GRELEASE, GRelease(S5, newG[i]), 0, newG[i], NoPlan)]
        cev == CancelEvents(S5, n.cancelled)
        lastTm == IF cev = <<>> THEN S.now ELSE cev[Len(cev)].tm
        rev == ReleaseEvents(S5, n.released \o newRel, lastTm)
        \* a completed closed-loop invocation is replaced by at most one new one; nothing else materialises graphs here
        tooMany == Len(B.newg) > (IF gdone2 /\ S.gr[g].closed THEN 1 ELSE 0)
    IN  [S |-> QAddAll(S5, gev \o cev \o rev),
         err |-> IF n.err # "" THEN n.err ELSE IF tooMany THEN "closed_loop_more_graphs_than_notifications" ELSE ""]

(* TASK_PLACEMENT.  B.fuzz = remaining time after Task.start's fuzz (bound from the  *)
(* log; must lie within the variance range).                                          *)
HTaskPlacement(W, S, e, B) ==
    LET t == e.t  pl == e.pl  g == GraphOf(S, t) IN
    IF FutOf(S, t) = 0 THEN Err(S, "assert_future_placement")
    ELSE IF ~ReadyToRun(S, t)
    THEN IF S.ts[t].st = CANCELLED \/ GCancelled(S, g)
         THEN LET S1 == FutDel(S, t) IN
              IF S.ts[t].st # CANCELLED
              THEN LET r == GraphCancel(S1, t, S.now) IN [S |-> QAddAll(r[1], CancelEvents(r[1], r[2])), err |-> r[3]]
              ELSE Ok(S1)
         ELSE IF Parents(S, t) = <<>> THEN Err(S, "max_of_empty_parents")
         ELSE LET pc == SeqMax([i \in 1..Len(Parents(S, t)) |-> RemT(S, Parents(S, t)[i])], 0)
                  nt == S.now + Max2(pc, 1)
              IN  Ok(FutSet(QAdd(S, Ev(E_PLACEMENT, nt, t, 0, pl)), t, nt))
    ELSE LET k == ChooseWorker(W, S, pl.pool, pl.wk, pl.sd) IN
         IF k = 0
         THEN Ok(FutSet(QAdd(S, Ev(E_PLACEMENT, S.now + 1, t, 0, pl)), t, S.now + 1))
         ELSE IF S.ts[t].st # SCHEDULED THEN Err(S, "start_bad_state")
         ELSE IF S.now < S.ts[t].rel THEN Err(S, "assert_start_before_release")
         ELSE LET S1 == PlaceOnWorker(W, S, k, t, pl.sd)
                  S2 == [S1 EXCEPT !.ts[t].start = S.now, !.ts[t].last = S.now,
                                   !.ts[t].st = RUNNING, !.ts[t].rem = B.fuzz]
              IN  Ok(FutDel(S2, t))

FuzzOK(W, S, t, v) ==       \* Task.start: remaining.fuzz((0, variance))
    LET r == S.ts[t].rem IN
    IF W.fl.variance = 0 THEN v = r
    ELSE 100 * v >= 100 * r - 50 /\ 100 * v <= 100 * r + r * W.fl.variance + 50

----------------------------------------------------------------------------
(* SCHEDULER_FINISHED: apply the pending placements (S.pd.decs) in order, as        *)
(* __create_events_from_task_placement[_skip] do.                                    *)
\* skipping: drop=TRUE -> cancel the task and its dependants; else unschedule
ApplySkip(W, S, d, drop) ==       \* returns [S, evs, err]
    LET t == d.t  g == GraphOf(S, t) IN
    IF drop
    THEN LET r == GraphCancel(S, t, S.now)
             S1 == r[1]
             cev == CancelEvents(S1, r[2])
             \* the Workload is notified (closed loop: next invocation) only by the request that cancels the graph
         IN  [S |-> S1, evs |-> cev, err |-> r[3], cl |-> GCancelled(S1, g) /\ ~GCancelled(S, g) /\ S.gr[g].closed]
    ELSE IF FutOf(S, t) # 0
         THEN IF ~HasFutEvent(S, t) THEN [S |-> S, evs |-> <<>>, err |-> "future_event_missing", cl |-> FALSE]
              ELSE IF S.ts[t].st # SCHEDULED THEN [S |-> S, evs |-> <<>>, err |-> "unschedule_bad_state", cl |-> FALSE]
              ELSE LET S1 == FutDel(QRemove(S, FutEvent(S, t)), t)
                       S2 == [S1 EXCEPT !.ts[t].st = S.ts[t].pss, !.ts[t].plan = NoPlan, !.ts[t].pool = 0]
                   IN  [S |-> S2, evs |-> <<>>, err |-> "", cl |-> FALSE]
         ELSE [S |-> S, evs |-> <<>>, err |-> "", cl |-> FALSE]

\* Task.schedule
DoSchedule(S, d) ==
    [S EXCEPT !.ts[d.t].st = SCHEDULED,
              !.ts[d.t].plan = [pool |-> d.pool, wk |-> d.wk, sd |-> d.sd, tm |-> d.tm],
              !.ts[d.t].pool = d.pool,
              !.ts[d.t].rem = d.sd.rt]

ApplyPlace(W, S, d) ==            \* returns [S, evs, err, cl]
    LET t == d.t  st == S.ts[t].st
        pev == Ev(E_PLACEMENT, d.tm, t, 0, [pool |-> d.pool, wk |-> d.wk, sd |-> d.sd, tm |-> d.tm])
        R(S1, evs, err) == [S |-> S1, evs |-> evs, err |-> err, cl |-> FALSE]
    IN
    IF st < SCHEDULED
    THEN IF d.placed THEN R(FutSet(DoSchedule(S, d), t, d.tm), <<pev>>, "")
         ELSE ApplySkip(W, S, d, W.fl.drop_skipped)
    ELSE IF st = SCHEDULED
    THEN IF d.placed
         THEN IF FutOf(S, t) = 0 THEN R(FutSet(DoSchedule(S, d), t, d.tm), <<pev>>, "")
              ELSE IF ~HasFutEvent(S, t) THEN R(S, <<>>, "future_event_missing")
              ELSE \* in-place re-timing of the cached event + reheapify
                   R(FutSet(QAdd(QRemove(DoSchedule(S, d), FutEvent(S, t)), pev), t, d.tm), <<>>, "")
         ELSE ApplySkip(W, S, d, W.fl.drop_skipped)
    ELSE IF st = RUNNING
    THEN IF d.placed
         THEN IF d.pool # S.ts[t].pool \/ d.tm > S.now
              THEN R(S, <<Ev(E_PREEMPT, S.now, t, 0, NoPlan),
                          Ev(E_MIGRATE, d.tm, t, 0, [pool |-> d.pool, wk |-> d.wk, sd |-> d.sd, tm |-> d.tm])>>, "")
              ELSE R(S, <<>>, "")
         ELSE R(S, <<Ev(E_PREEMPT, S.now, t, 0, NoPlan)>>, "")
    ELSE IF st = PREEMPTED THEN R(S, <<>>, "NotImplementedError")
    ELSE R(S, <<>>, "")

RECURSIVE ApplyDecs(_, _, _, _, _, _)
ApplyDecs(W, S, decs, evs, err, ncl) ==      \* ncl: number of closed-loop notifications
    IF decs = <<>> \/ err # "" THEN [S |-> S, evs |-> evs, err |-> err, ncl |-> ncl]
    ELSE LET d == Head(decs)
             r == IF d.kind = 3 THEN ApplySkip(W, S, d, TRUE)
                  ELSE IF d.kind = 4
                       THEN (IF d.placed /\ d.tm < S.now
                             THEN [S |-> S, evs |-> <<>>, err |-> "placement_in_past", cl |-> FALSE]
                             ELSE ApplyPlace(W, S, d))
                  ELSE IF d.kind \in {1, 2}
                       THEN (IF d.tm < S.now THEN [S |-> S, evs |-> <<>>, err |-> "placement_in_past", cl |-> FALSE]
                             ELSE [S |-> S, err |-> "", cl |-> FALSE,
                                   evs |-> <<EvP(IF d.kind = 1 THEN E_EVICT ELSE E_LOAD, d.tm, d.pr,
                                                 [pool |-> d.pool, wk |-> d.wk, sd |-> d.sd, tm |-> d.tm])>>])
                  ELSE [S |-> S, evs |-> <<>>, err |-> "unknown_placement_type", cl |-> FALSE]
         IN  ApplyDecs(W, r.S, Tail(decs), evs \o r.evs, r.err, ncl + (IF r.cl THEN 1 ELSE 0))

(* __get_next_scheduler_event.  `offered` = result of get_schedulable_tasks at this  *)
(* point (bound).  Returns the event to add.                                          *)
NextSchedulerEvent(W, S, offered) ==
    LET now == S.now
        freq == W.fl.frequency
        start0 == IF freq < 0 THEN now + 1
                  ELSE IF S.sch.last + freq < now THEN now + 1 ELSE S.sch.last + freq
        futT == [i \in 1..Len(S.fut) |-> S.fut[i][1]]
        running == AllPlaced(S) \o futT
        compl == SelectSeq([i \in 1..Len(running) |->
                     LET t == running[i] IN
                     IF S.ts[t].st = SCHEDULED THEN S.ts[t].plan.tm + RemT(S, t)
                     ELSE IF S.ts[t].st = RUNNING THEN now + RemT(S, t) ELSE -1],
                     LAMBDA x : x # -1)
        minRun == SeqMin(compl, Inf) + W.fl.delay
        relTimes == SelectSeq([i \in 1..Len(S.q) |-> IF S.q[i].ty = E_RELEASE THEN S.q[i].tm ELSE -1], LAMBDA x : x # -1)
        updTimes == SelectSeq([i \in 1..Len(S.q) |-> IF S.q[i].ty = E_UPDATE THEN S.q[i].tm ELSE -1], LAMBDA x : x # -1)
        nr == IF relTimes = <<>> THEN Inf ELSE SeqMin(relTimes, Inf) + W.fl.delay
        nu == SeqMin(updTimes, Inf)
        isFull == \A k \in 1..Len(S.cl) : \A i \in 1..Len(S.cl[k].av) : S.cl[k].av[i] = 0
        allBusy == \A i \in 1..Len(offered) : S.ts[offered[i]].st \in {RUNNING, SCHEDULED}
        \* no worker has the task's profile *loaded* unless the policy loads profiles; the
        \* generator over (task, worker) pairs with a loaded profile is then empty -> all() = TRUE
        \* all(no compatible strategy) over (offered task, worker on which the task's profile is available): with no
        \* profile loaded anywhere the generator is empty and all() is TRUE
        ProfAvail(k, p) == (\E i \in 1..Len(S.cl[k].avl) : S.cl[k].avl[i][1] = p)
                           \/ (\E i \in 1..Len(S.cl[k].pend) : S.cl[k].pend[i][1] = p /\ S.cl[k].pend[i][2] = 0)
        noCompat == \A i \in 1..Len(offered) : \A k \in 1..Len(S.cl) :
                        ProfAvail(k, S.tk[offered[i]].prof) =>
                            ~\E j \in 1..Len(S.tk[offered[i]].strats) : CanAcc(W, S, k, S.tk[offered[i]].strats[j])
        nextEv == Min2(minRun, Min2(nr, nu))
        adjusted == Max2(start0, nextEv)
        EndAt(tm) == Ev(E_END, tm, 0, 0, NoPlan)
        StartAt(tm) == Ev(E_SCHED_START, tm, 0, 0, NoPlan)
        Final(tm) == IF tm >= W.fl.timeout THEN EndAt(Max2(W.fl.timeout, now)) ELSE StartAt(tm)
    IN
    IF start0 >= W.fl.timeout THEN EndAt(Max2(W.fl.timeout, now))
    ELSE IF S.q = <<>> /\ offered = <<>> /\ running = <<>> THEN EndAt(now + 1)
    ELSE IF running # <<>> /\ W.fl.at_worker_free THEN Final(Max2(minRun + 1, now + 1))
    ELSE IF offered = <<>> \/ allBusy \/ isFull \/ noCompat
         THEN Final(IF start0 # adjusted THEN adjusted ELSE start0)
    ELSE Final(start0)

(* B.offered2 = schedulable tasks seen by __get_next_scheduler_event;               *)
(* B.newg = graphs materialised by closed-loop notifications during the handler.    *)
HSchedFinished(W, S, B) ==
    IF S.sch.pend = 0 THEN Err(S, "no_pending_placements")
    ELSE
    LET r == ApplyDecs(W, S, S.pd.decs, <<>>, "", 0) IN
    IF r.err # "" THEN Err(r.S, r.err)
    ELSE IF Len(B.newg) > r.ncl THEN Err(r.S, "closed_loop_more_graphs_than_notifications")
    ELSE
    LET S1 == r.S
        \* tasks of graphs created by closed-loop notifications on cancellation
        newRel == Flatten([i \in 1..Len(B.newg) |-> Releasable(S1, B.newg[i])])
        relEv == [i \in 1..Len(newRel) |-> Ev(E_RELEASE, S1.ts[newRel[i]].rel, newRel[i], 0, NoPlan)]
        gev == [i \in 1..Len(B.newg) |-> Ev(E_GRELEASE, GRelease(S1, B.newg[i]), 0, B.newg[i], NoPlan)]
        S2 == QAddAll([S1 EXCEPT !.wl = @ \o B.newg], r.evs \o gev \o relEv)
        S3 == [S2 EXCEPT !.sch.pend = 0, !.pd = [rt |-> 0, decs |-> <<>>]]
        ne == NextSchedulerEvent(W, S3, B.offered2)
        S4 == QAdd(S3, ne)
        S5 == [S4 EXCEPT !.sch.next = IF ne.ty = E_SCHED_START THEN ne.tm ELSE @]
    IN  Ok(QAdd(S5, Ev(E_LOGUTIL, S.now, 0, 0, NoPlan)))

\* SCHEDULER_START: B.decs = [rt, decs] the policy's answer
HSchedStart(W, S, B) ==
    Ok(QAdd([S EXCEPT !.sch.last = S.now, !.sch.next = -1, !.sch.pend = 1, !.pd = B.decs],
            Ev(E_SCHED_FIN, S.now + B.decs.rt, 0, 0, NoPlan)))

(* UPDATE_WORKLOAD: B.upd = the loader handed over a Workload (FALSE: it answered None, no further update is         *)
(* queued); B.newg = the task graphs of that Workload the simulator has not announced yet (possibly none), appended    *)
(* to the workload in that order.  Only they are announced and released: the graphs of earlier updates already have   *)
(* their events.  The caller has already appended the tasks of B.newg to the state.                                   *)
HUpdateWorkload(W, S, B) ==
    IF ~B.upd THEN Ok(S)
    ELSE
    LET S1 == [S EXCEPT !.wl = @ \o B.newg]
        rel == Flatten([i \in 1..Len(B.newg) |-> Releasable(S1, B.newg[i])])
        gev == [i \in 1..Len(B.newg) |-> Ev(E_GRELEASE, GRelease(S1, B.newg[i]), 0, B.newg[i], NoPlan)]
        rev == [i \in 1..Len(rel) |-> Ev(E_RELEASE, S1.ts[rel[i]].rel, rel[i], 0, NoPlan)]
        maxRel == SeqMax([i \in 1..Len(rel) |-> S1.ts[rel[i]].rel], S.now)
        nxt == IF W.fl.update_interval = -1 THEN Max2(maxRel, S.now) + 1 ELSE S.now + W.fl.update_interval
    IN  Ok(QAddAll(S1, gev \o rev \o <<Ev(E_UPDATE, nxt, 0, 0, NoPlan)>>))

\* LOAD_PROFILE / EVICT_PROFILE: WorkerPool.load_profile / evict_profile on one worker or on every worker of the pool
ProfWorkers(S, pl) == IF pl.wk # 0 THEN <<WIdx(S, pl.pool, pl.wk)>> ELSE PoolWorkers(S, pl.pool)
HasProf(S, k, p) == (\E i \in 1..Len(S.cl[k].pend) : S.cl[k].pend[i][1] = p) \/ (\E i \in 1..Len(S.cl[k].avl) : S.cl[k].avl[i][1] = p)
RECURSIVE LoadOn(_, _, _, _, _)
LoadOn(W, S, ks, p, sd) ==        \* returns [S, err]
    IF ks = <<>> THEN Ok(S)
    ELSE LET k == Head(ks)
             L0 == [av |-> S.cl[k].av, al |-> [c \in {"n"} |-> <<>>]]
         IN  IF ~CanAllocMulti(Insts(W, S, k), L0, sd.dem) THEN Err(S, "load_profile_does_not_fit")
             ELSE LET L1 == MultiAlloc(Insts(W, S, k), L0, sd.dem, "n", 1)
                      \* Worker.load_profile allocates under the key `profile` and records the strategy: a profile that is
                      \* already pending / available keeps its earlier allocations under the same key (released together
                      \* by the eviction); the recorded pending strategy is the latest one
                      ents == ProfEntries(S, k)
                      prior == IF \E i \in 1..Len(ents) : ents[i][1] = p
                               THEN ents[CHOOSE i \in 1..Len(ents) : ents[i][1] = p][4] ELSE <<>>
                      full == prior \o L1.al["n"]
                      others == SelectSeq(S.cl[k].pend, LAMBDA x : x[1] # p)
                      avl2 == [i \in 1..Len(S.cl[k].avl) |-> IF S.cl[k].avl[i][1] = p
                                                               THEN <<p, S.cl[k].avl[i][2], S.cl[k].avl[i][3], full>> ELSE S.cl[k].avl[i]]
                      S1 == [S EXCEPT !.cl[k].av = L1.av, !.cl[k].pend = Append(others, <<p, sd.rt, sd.dem, full>>), !.cl[k].avl = avl2]
                  IN  LoadOn(W, S1, Tail(ks), p, sd)
HLoadProfile(W, S, e) == LoadOn(W, S, ProfWorkers(S, e.pl), e.pr, e.pl.sd)

RECURSIVE EvictOn(_, _, _)
EvictOn(S, ks, p) ==
    IF ks = <<>> THEN Ok(S)
    ELSE LET k == Head(ks) IN
         IF ~HasProf(S, k, p) THEN Err(S, "evict_profile_absent")
         ELSE LET inAvl == \E i \in 1..Len(S.cl[k].avl) : S.cl[k].avl[i][1] = p
                  ent == IF inAvl THEN S.cl[k].avl[CHOOSE i \in 1..Len(S.cl[k].avl) : S.cl[k].avl[i][1] = p]
                         ELSE S.cl[k].pend[CHOOSE i \in 1..Len(S.cl[k].pend) : S.cl[k].pend[i][1] = p]
                  RECURSIVE GiveP(_, _)
                  GiveP(av, n) == IF n > Len(ent[4]) THEN av ELSE GiveP([av EXCEPT ![ent[4][n][1]] = @ + ent[4][n][2]], n + 1)
                  \* deallocate(profile) releases everything recorded under the profile; an entry of the same profile
                  \* that remains (loaded again while available) holds nothing afterwards
                  Strip(es) == [i \in 1..Len(es) |-> IF es[i][1] = p THEN <<p, es[i][2], es[i][3], <<>> >> ELSE es[i]]
                  S1 == [S EXCEPT !.cl[k].av = GiveP(@, 1),
                                  !.cl[k].avl = IF inAvl THEN SelectSeq(@, LAMBDA x : x[1] # p) ELSE @,
                                  !.cl[k].pend = IF inAvl THEN Strip(@) ELSE SelectSeq(@, LAMBDA x : x[1] # p)]
              IN  EvictOn(S1, Tail(ks), p)
HEvictProfile(W, S, e) == EvictOn(S, ProfWorkers(S, e.pl), e.pr)

\* TASK_PREEMPT: remove the task from its pool, Task.preempt
HTaskPreempt(W, S, t) ==
    LET k == WorkerOf(S, t) IN
    IF k = 0 \/ S.ts[t].pool = 0 THEN Err(S, "preempt_not_placed")
    ELSE IF S.ts[t].st # RUNNING THEN Err(RemoveFromWorker(S, k, t), "preempt_bad_state")
    ELSE Ok([RemoveFromWorker(S, k, t) EXCEPT !.ts[t].st = PREEMPTED, !.ts[t].ppool = S.ts[t].pool, !.ts[t].pool = 0])

\* WorkerPool.place_task(task) without strategy / worker: first worker (pool order) x first strategy (task order) that fits
AnyFit(W, S, p, t) ==      \* <<worker index, strategy index>> or <<0, 0>>
    LET ws == PoolWorkers(S, p)
        cands == Flatten([i \in 1..Len(ws) |-> [j \in 1..Len(S.tk[t].strats) |-> <<ws[i], j>>]])
        ok == SelectSeq(cands, LAMBDA c : CanAcc(W, S, c[1], [S.tk[t].strats[c[2]] EXCEPT !.bid = 0]))
    IN  IF ok = <<>> THEN <<0, 0>> ELSE Head(ok)

\* TASK_MIGRATION: place the preempted task on the new pool and resume it
HTaskMigration(W, S, e) ==
    LET t == e.t IN
    IF S.ts[t].st # PREEMPTED THEN Err(S, "assert_migration_of_non_preempted")
    ELSE LET f == AnyFit(W, S, e.pl.pool, t) IN
         IF f[1] = 0 THEN Ok(S)
         ELSE LET sd == [S.tk[t].strats[f[2]] EXCEPT !.bid = 0]
                  S1 == PlaceOnWorker(W, S, f[1], t, sd)
              IN  Ok([S1 EXCEPT !.ts[t].st = RUNNING, !.ts[t].last = S.now, !.ts[t].pool = e.pl.pool])

\* dispatch (Simulator.__handle_event); the popped event has been removed from S.q
Handle(W, S, e, B) ==
    CASE e.ty = E_START      -> Ok(S)
      [] e.ty = E_CANCEL     -> HTaskCancel(W, S, e.t)
      [] e.ty = E_FINISHED   -> HTaskFinished(W, S, e.t, B)
      [] e.ty = E_GRELEASE   -> Ok(S)
      [] e.ty = E_RELEASE    -> HTaskRelease(W, S, e.t)
      [] e.ty = E_UPDATE     -> HUpdateWorkload(W, S, B)
      [] e.ty = E_PLACEMENT  -> HTaskPlacement(W, S, e, B)
      [] e.ty = E_LOAD       -> HLoadProfile(W, S, e)
      [] e.ty = E_EVICT      -> HEvictProfile(W, S, e)
      [] e.ty = E_PREEMPT    -> HTaskPreempt(W, S, e.t)
      [] e.ty = E_MIGRATE    -> HTaskMigration(W, S, e)
      [] e.ty = E_SCHED_START -> HSchedStart(W, S, B)
      [] e.ty = E_SCHED_FIN  -> HSchedFinished(W, S, B)
      [] e.ty = E_END        -> Ok(S)
      [] e.ty = E_LOGUTIL    -> Ok(S)
      [] OTHER               -> Err(S, "event_type_not_modelled")

----------------------------------------------------------------------------
(* State invariants (evaluated on every state of a behaviour / trace)               *)
\* demand of the occupants of worker k for resource name n (a batch counts once)
DemQ(sd, n) == SumTo([j \in 1..Len(sd.dem) |-> IF sd.dem[j].name = n THEN sd.dem[j].q ELSE 0], Len(sd.dem))
OccCounts(S, k, i) ==      \* occupant i counts unless an earlier occupant shares its batch
    ~(S.cl[k].occ[i].sd.bid # 0 /\ \E j \in 1..(i - 1) : S.cl[k].occ[j].sd.bid = S.cl[k].occ[i].sd.bid)
ProfQ(x, n) == SumTo([j \in 1..Len(x[3]) |-> IF x[3][j].name = n THEN x[3][j].q ELSE 0], Len(x[3]))
WDemand(S, k, n) ==
    SumTo([i \in 1..Len(S.cl[k].occ) |-> IF OccCounts(S, k, i) THEN DemQ(S.cl[k].occ[i].sd, n) ELSE 0], Len(S.cl[k].occ))
    + SumTo([i \in 1..Len(S.cl[k].pend) |-> ProfQ(S.cl[k].pend[i], n)], Len(S.cl[k].pend))
    + SumTo([i \in 1..Len(S.cl[k].avl) |-> ProfQ(S.cl[k].avl[i], n)], Len(S.cl[k].avl))
WNames(W, S, k) == {Insts(W, S, k)[i].name : i \in 1..Len(Insts(W, S, k))}
CapQ(W, S, k, n) == TotalQ(Insts(W, S, k), [name |-> n, id |-> "any"])
AvQ(W, S, k, n) == AvailQ(Insts(W, S, k), S.cl[k].av, [name |-> n, id |-> "any"])

C01_NoOversub(W, S) == \A k \in 1..Len(S.cl) : \A n \in WNames(W, S, k) : WDemand(S, k, n) <= CapQ(W, S, k, n)
\* what the occupants of worker k HOLD of resource name n (their allocation lists; a batch and a profile count once:
\* every entry of a profile carries the whole allocation list recorded under that profile)
AlQ(W, S, k, al, n) == SumTo([j \in 1..Len(al) |-> IF al[j][1] >= 1 /\ al[j][1] <= Len(Insts(W, S, k)) /\ Insts(W, S, k)[al[j][1]].name = n
                                                    THEN al[j][2] ELSE 0], Len(al))
ProfFirst(S, k, i) == ~\E j \in 1..(i - 1) : ProfEntries(S, k)[j][1] = ProfEntries(S, k)[i][1]
WHeld(W, S, k, n) ==
    SumTo([i \in 1..Len(S.cl[k].occ) |-> IF OccCounts(S, k, i) THEN AlQ(W, S, k, S.cl[k].occ[i].al, n) ELSE 0], Len(S.cl[k].occ))
    + SumTo([i \in 1..Len(ProfEntries(S, k)) |-> IF ProfFirst(S, k, i) THEN AlQ(W, S, k, ProfEntries(S, k)[i][4], n) ELSE 0], Len(ProfEntries(S, k)))
\* the ledger agrees with the occupants: available = capacity - what the occupants hold
C01_LedgerAgrees(W, S) == \A k \in 1..Len(S.cl) : \A n \in WNames(W, S, k) : AvQ(W, S, k, n) = CapQ(W, S, k, n) - WHeld(W, S, k, n)
\* every occupant's demand is backed by what it holds: a task (batch) holds exactly the demand of its strategy, a
\* profile at least the demands of its recorded loading strategies (pinned convention: loading a profile again while it
\* is pending / available allocates again under the same key and records the latest strategy; all of it is released by
\* the eviction)
C01_Backed(W, S) ==
    \A k \in 1..Len(S.cl) : \A n \in WNames(W, S, k) :
        /\ \A i \in 1..Len(S.cl[k].occ) : AlQ(W, S, k, S.cl[k].occ[i].al, n) = DemQ(S.cl[k].occ[i].sd, n)
        /\ \A i \in 1..Len(ProfEntries(S, k)) :
              AlQ(W, S, k, ProfEntries(S, k)[i][4], n) >=
                SumTo([j \in 1..Len(ProfEntries(S, k)) |-> IF ProfEntries(S, k)[j][1] = ProfEntries(S, k)[i][1]
                                                             THEN ProfQ(ProfEntries(S, k)[j], n) ELSE 0], Len(ProfEntries(S, k)))
C01_SingleWorker(S) == \A t \in 1..NT(S) : Cardinality({k \in 1..Len(S.cl) : \E i \in 1..Len(S.cl[k].occ) : S.cl[k].occ[i].t = t}) <= 1
C01_AvRange(W, S) == \A k \in 1..Len(S.cl) : \A i \in 1..Len(S.cl[k].av) : S.cl[k].av[i] >= 0 /\ S.cl[k].av[i] <= Insts(W, S, k)[i].cap
\* C04 (simulation part): no occupant => worker back at full capacity
C04_IdleMeansFull(W, S) == \A k \in 1..Len(S.cl) : (S.cl[k].occ = <<>> /\ S.cl[k].pend = <<>> /\ S.cl[k].avl = <<>>) => \A i \in 1..Len(S.cl[k].av) : S.cl[k].av[i] = Insts(W, S, k)[i].cap
\* C02: a running / finished task started after its release and after its predecessors
C02_StartedProperly(S) ==
    \A t \in 1..NT(S) : S.ts[t].st \in {RUNNING, COMPLETED} =>
        /\ S.ts[t].start >= S.ts[t].rel
        /\ S.ts[t].rel >= 0
        /\ IF S.tk[t].term /\ Parents(S, t) # <<>>
           THEN \E i \in 1..Len(Parents(S, t)) : LET p == Parents(S, t)[i] IN S.ts[p].st = COMPLETED /\ S.ts[p].fin <= S.ts[t].start
           ELSE \A i \in 1..Len(Parents(S, t)) : LET p == Parents(S, t)[i] IN S.ts[p].st = COMPLETED /\ S.ts[p].fin <= S.ts[t].start
\* C03: a running task is resident and has not run past its due time
C03_HoldUntilDue(S) ==
    \A t \in 1..NT(S) : S.ts[t].st = RUNNING => WorkerOf(S, t) # 0 /\ S.ts[t].last + S.ts[t].rem >= S.now
C03_CompletedTiming(S) ==
    \A t \in 1..NT(S) : S.ts[t].st = COMPLETED => S.ts[t].fin >= S.ts[t].start /\ WorkerOf(S, t) = 0
\* C03: completion exactly at start + the chosen strategy's runtime (stretched by at most the variance)
C03_ExactCompletion(W, S) ==
    \A t \in 1..NT(S) : (S.ts[t].st = COMPLETED /\ S.ts[t].ppool = 0) =>
        LET r == S.ts[t].plan.sd.rt  d == S.ts[t].fin - S.ts[t].start IN
        IF W.fl.variance = 0 THEN d = r
        ELSE 100 * d >= 100 * r - 50 /\ 100 * d <= 100 * r + r * W.fl.variance + 50
\* C03: a task never starts earlier than the time its scheduler chose
C03_NotBeforePlan(S) == \A t \in 1..NT(S) : S.ts[t].st \in {RUNNING, COMPLETED} => S.ts[t].start >= S.ts[t].plan.tm
\* C06: nothing downstream of a cancelled task can still run (evaluated when no TASK_CANCEL is pending now)
Starved(S, t) ==
    Parents(S, t) # <<>> /\
    IF S.tk[t].term THEN \A i \in 1..Len(Parents(S, t)) : S.ts[Parents(S, t)[i]].st = CANCELLED
    ELSE \E i \in 1..Len(Parents(S, t)) : S.ts[Parents(S, t)[i]].st = CANCELLED
C06_StarvedNeverRuns(S) == \A t \in 1..NT(S) : Starved(S, t) => S.ts[t].st \notin {RUNNING, COMPLETED, EVICTED}
C06_CancelClosure(S) == \A t \in 1..NT(S) : Starved(S, t) => S.ts[t].st = CANCELLED
\* C07: at most one child of a completed conditional ever leaves VIRTUAL towards execution
C07_OneBranch(S) ==
    \A t \in 1..NT(S) : (S.tk[t].cond /\ S.ts[t].st = COMPLETED) =>
        Cardinality({i \in 1..Len(Children(S, t)) : S.ts[Children(S, t)[i]].st \in {RELEASED, SCHEDULED, RUNNING, COMPLETED}}) <= 1
\* C07: with conditionals resolved at submission the branch that runs is the one fixed when the graph was created
\* (tk[c].p0 = probability at creation, millionths): no child of a conditional other than the resolved one is ever
\* released, running or completed (a policy that plans ahead may hold an unresolved child SCHEDULED until the
\* conditional completes and cancels it)
C07_ResolvedAtSubmission(W, S) ==
    W.fl.resolve_conditionals =>
        \A t \in 1..NT(S) : S.tk[t].cond =>
            \A i \in 1..Len(Children(S, t)) :
                LET c == Children(S, t)[i] IN
                S.ts[c].st \in {RELEASED, RUNNING, COMPLETED} => S.tk[c].p0 = 1000000
\* legal lifecycle edges (C06)
LegalEdge(a, b) ==
    \/ a = b
    \/ a = VIRTUAL /\ b \in {RELEASED, SCHEDULED, CANCELLED}
    \/ a = RELEASED /\ b \in {SCHEDULED, CANCELLED}
    \/ a = SCHEDULED /\ b \in {RUNNING, RELEASED, VIRTUAL, CANCELLED}
    \/ a = RUNNING /\ b \in {COMPLETED, PREEMPTED, EVICTED}
    \/ a = PREEMPTED /\ b \in {RUNNING, EVICTED}
----------------------------------------------------------------------------
(* C18: the scheduling frontier -- TaskGraph.get_schedulable_tasks transcribed.     *)
(* Graph.topological_sort: depth-first post-order over the nodes in insertion       *)
(* order, reversed.                                                                 *)
RECURSIVE TopoVisit(_, _, _, _)
RECURSIVE TopoVisitAll(_, _, _, _)
TopoVisit(S, n, done, acc) ==          \* returns <<done, acc>>
    IF n \in done THEN <<done, acc>>
    ELSE LET r == TopoVisitAll(S, Children(S, n), done \cup {n}, acc)
         IN  <<r[1], Append(r[2], n)>>
TopoVisitAll(S, ns, done, acc) ==
    IF ns = <<>> THEN <<done, acc>>
    ELSE LET r == TopoVisit(S, Head(ns), done, acc) IN TopoVisitAll(S, Tail(ns), r[1], r[2])
Reverse(s) == [i \in 1..Len(s) |-> s[Len(s) + 1 - i]]
TopoOrder(S, g) == Reverse(TopoVisitAll(S, GTasks(S, g), {}, <<>>)[2])

\* resolve_conditional for a task that completed (the branch actually taken: highest probability, first on ties)
TakenChild(S, t) ==
    LET ch == Children(S, t) IN
    CHOOSE c \in Range(ch) :
        \E i \in 1..Len(ch) : /\ ch[i] = c
                              /\ \A j \in 1..Len(ch) : S.ts[ch[j]].prob <= S.ts[c].prob
                              /\ \A j \in 1..(i - 1) : S.ts[ch[j]].prob < S.ts[c].prob
\* children the estimate is propagated to (policy ALL; a completed conditional: the taken branch)
PropChildren(S, t) ==
    IF S.tk[t].cond /\ IsDone(S, t) THEN <<TakenChild(S, t)>> ELSE Children(S, t)

\* initial estimates: <<task, estimated completion>> for the materialised tasks, in node order
InitEst(S, g, now, retract) ==
    LET f(t) == LET st == S.ts[t].st IN
                IF st = COMPLETED THEN S.ts[t].fin
                ELSE IF st \in {RUNNING, PREEMPTED, EVICTED} THEN now + RemT(S, t)
                ELSE IF st = RELEASED THEN Max2(S.ts[t].rel, now) + RemT(S, t)
                ELSE IF st = SCHEDULED THEN (IF retract THEN now + SlowestRt(S, t) ELSE S.ts[t].plan.tm + RemT(S, t))
                ELSE -1
    IN  SelectSeq([i \in 1..Len(GTasks(S, g)) |-> <<GTasks(S, g)[i], f(GTasks(S, g)[i])>>],
                  LAMBDA x : S.ts[x[1]].st \notin {CANCELLED, VIRTUAL})

\* the propagation loop: `est` is a function task -> estimate (-1 = absent), `queue` a sequence of tasks
RECURSIVE Propagate(_, _, _, _)
RECURSIVE PropKids(_, _, _, _, _, _)
PropKids(S, kids, ct, retract, est, queue) ==       \* returns <<est, queue>>
    IF kids = <<>> THEN <<est, queue>>
    ELSE LET c == Head(kids)
             skip == (~retract /\ S.ts[c].st # VIRTUAL) \/ (retract /\ S.ts[c].st \notin {VIRTUAL, SCHEDULED})
             cct == Max2(ct + SlowestRt(S, c), S.ts[c].rel + SlowestRt(S, c))
         IN  IF skip \/ ~(est[c] = -1 \/ cct > est[c])
             THEN PropKids(S, Tail(kids), ct, retract, est, queue)
             ELSE PropKids(S, Tail(kids), ct, retract, [est EXCEPT ![c] = cct], Append(queue, c))
Propagate(S, retract, est, queue) ==
    IF queue = <<>> THEN est
    ELSE LET t == Head(queue)
             r == PropKids(S, PropChildren(S, t), est[t], retract, est, Tail(queue))
         IN  Propagate(S, retract, r[1], r[2])

Estimates(S, g, now, retract) ==
    LET ie == InitEst(S, g, now, retract)
        est0 == [t \in 1..NT(S) |-> IF \E i \in 1..Len(ie) : ie[i][1] = t
                                   THEN ie[CHOOSE i \in 1..Len(ie) : ie[i][1] = t][2] ELSE -1]
    IN  Propagate(S, retract, est0, [i \in 1..Len(ie) |-> ie[i][1]])

\* the selection loop over the topological order
RECURSIVE SelectOffer(_, _, _, _, _, _, _, _)
SelectOffer(S, order, est, now, la, retract, rtg, anyRel) ==
    IF order = <<>> THEN <<>>
    ELSE LET t == Head(order)  st == S.ts[t].st
             inEst == est[t] # -1 \/ st \notin {CANCELLED, VIRTUAL}
             take == \/ (st = RELEASED /\ S.ts[t].rel <= now + la)
                     \/ st \in {PREEMPTED, EVICTED}
                     \/ (st = VIRTUAL /\ est[t] # -1 /\ ((anyRel /\ rtg) \/ est[t] <= now + la + RemT(S, t)))
                     \/ (retract /\ st = SCHEDULED /\ ((anyRel /\ rtg) \/ est[t] <= now + la + SlowestRt(S, t)))
             any2 == anyRel \/ st \in {COMPLETED, RUNNING} \/ take
         IN  (IF take /\ st \notin {COMPLETED, RUNNING} THEN <<t>> ELSE <<>>)
             \o SelectOffer(S, Tail(order), est, now, la, retract, rtg, any2)

SchedulableG(S, g, now, la, retract, rtg) ==
    SelectOffer(S, TopoOrder(S, g), Estimates(S, g, now, retract), now, la, retract, rtg, FALSE)
\* Workload.get_schedulable_tasks (no preemption): the graphs in workload order
Schedulable(S, now, la, retract, rtg) ==
    Flatten([i \in 1..Len(S.wl) |-> SchedulableG(S, S.wl[i], now, la, retract, rtg)])
\* the transcription is exact when no random branch prediction is involved
FrontierDeterministic(S, pol) ==
    pol = "ALL" \/ ~\E t \in 1..NT(S) : S.tk[t].cond /\ ~IsDone(S, t) /\ S.ts[t].st # CANCELLED /\ S.tk[t].g \in Range(S.wl)

\* contract clauses (hold for every branch-prediction policy)
C18_NoStarvation(S, now, res) == \A t \in 1..NT(S) : (S.ts[t].st = RELEASED /\ S.ts[t].rel <= now /\ S.tk[t].g \in Range(S.wl)) => InSeq(t, res)
C18_NoDead(S, res) == \A i \in 1..Len(res) : S.ts[res[i]].st \notin {COMPLETED, CANCELLED}
C18_ScheduledOnlyIfRetract(S, res, retract, pre) == \A i \in 1..Len(res) : S.ts[res[i]].st = SCHEDULED => (retract \/ pre)
C18_RunningOnlyIfPreempt(S, res, pre) == \A i \in 1..Len(res) : S.ts[res[i]].st = RUNNING => pre
C18_ParentsDone(S, res, la, rtg) ==
    (la = 0 /\ ~rtg) => \A i \in 1..Len(res) : S.ts[res[i]].st \in {VIRTUAL, RELEASED} => ParentsOK(S, res[i])
\* monotone in the lookahead and in release_taskgraphs (evaluated on the specification's own frontier)
C18_Monotone(S, now, la, retract) ==
    /\ Range(Schedulable(S, now, la, retract, FALSE)) \subseteq Range(Schedulable(S, now, la + 1, retract, FALSE))
    /\ Range(Schedulable(S, now, la, retract, TRUE)) \subseteq Range(Schedulable(S, now, la + 1, retract, TRUE))
    /\ Range(Schedulable(S, now, la, retract, FALSE)) \subseteq Range(Schedulable(S, now, la, retract, TRUE))
\* known deviation: the frontier estimates a SCHEDULED task's completion as planned start + runtime even when its
\* placement was deferred (WORKER_NOT_READY / TASK_NOT_READY) and is overdue, and then offers its children early
OverduePlacementInGraph(S, g, now) ==
    \E i \in 1..Len(GTasks(S, g)) : LET a == GTasks(S, g)[i] IN S.ts[a].st = SCHEDULED /\ S.ts[a].plan.tm < now
\* known deviation (trace-replay graphs only): a source task of a later timestamp that is still VIRTUAL (its own release
\* time has not arrived) has no completion estimate, and the frontier then judges its children by their other parents alone
RECURSIVE UnreleasedSourceParent(_, _)
UnreleasedSourceParent(S, t) ==      \* ... directly or through VIRTUAL tasks in between (their estimates inherit the gap)
    \E i \in 1..Len(Parents(S, t)) : LET p == Parents(S, t)[i] IN
        S.ts[p].st = VIRTUAL /\ ((S.tk[p].src /\ S.ts[p].rel >= 0) \/ UnreleasedSourceParent(S, p))
\* known deviation (branch prediction policies other than ALL): the estimate of an undecided conditional is propagated to
\* the predicted branch only, so a task of the other branch has no estimate and a task that also hangs on a predecessor
\* outside the conditional (a skip edge into the branch) is judged by that predecessor alone
RECURSIVE UnderUndecidedCond(_, _)
UnderUndecidedCond(S, p) ==
    \E i \in 1..Len(Parents(S, p)) : LET q == Parents(S, p)[i] IN
        (S.tk[q].cond /\ ~IsDone(S, q) /\ S.ts[q].st # CANCELLED) \/ (S.ts[q].st = VIRTUAL /\ UnderUndecidedCond(S, q))
ParentOnUnpredictedBranch(S, t) ==
    \E i \in 1..Len(Parents(S, t)) : LET p == Parents(S, t)[i] IN S.ts[p].st = VIRTUAL /\ UnderUndecidedCond(S, p)
C18_ParentsDoneOffenders(S, res, la, rtg) ==
    IF la = 0 /\ ~rtg THEN {res[i] : i \in {i \in 1..Len(res) : S.ts[res[i]].st \in {VIRTUAL, RELEASED} /\ ~ParentsOK(S, res[i])}}
    ELSE {}
C18_NoDuplicates(res) == \A i, j \in 1..Len(res) : i # j => res[i] # res[j]

----------------------------------------------------------------------------
(* CSV rows (C08).  A row is [ty |-> type, f |-> <<integers>>, res |-> <<[name,id,q]>>]; *)
(* task-bearing rows carry the task index and an `ok` flag (1 iff the row's name,     *)
(* task-graph and timestamp columns are those of that task), computed by the parser. *)
(* RowsOf(W, S0, e, B, S2): rows the handler of e must emit; S0 = state when the       *)
(* event is popped, S2 = state after the handler.                                      *)
Row(ty, f, res) == [ty |-> ty, f |-> f, res |-> res]
SlowestIdx(S, t) ==
    LET n == Len(S.tk[t].strats) IN
    CHOOSE k \in 1..n : /\ \A j \in 1..n : S.tk[t].strats[j].rt <= S.tk[t].strats[k].rt
                        /\ \A j \in 1..(k - 1) : S.tk[t].strats[j].rt < S.tk[t].strats[k].rt
DemRes(dem) == [j \in 1..Len(dem) |-> [name |-> dem[j].name, id |-> dem[j].id, q |-> dem[j].q]]
PoolNames(W, p) ==       \* resource names of a pool in first-seen order
    LET all == Flatten([w \in 1..Len(W.pools[p]) |-> [i \in 1..Len(W.pools[p][w]) |-> W.pools[p][w][i].name]])
    IN  SelectSeq([i \in 1..Len(all) |-> IF \E j \in 1..(i - 1) : all[j] = all[i] THEN "" ELSE all[i]], LAMBDA x : x # "")
PoolTotal(W, p, n) == SumTo([w \in 1..Len(W.pools[p]) |-> TotalQ(W.pools[p][w], [name |-> n, id |-> "any"])], Len(W.pools[p]))
PoolAvail(W, S, p, n) ==
    LET ws == PoolWorkers(S, p) IN
    SumTo([i \in 1..Len(ws) |-> AvQ(W, S, ws[i], n)], Len(ws))
UtilRows(W, S, tm) ==
    Flatten([p \in 1..NPools(W) |->
        [i \in 1..Len(PoolNames(W, p)) |->
            LET n == PoolNames(W, p)[i] IN
            Row("WORKER_POOL_UTILIZATION", <<tm, p, PoolTotal(W, p, n) - PoolAvail(W, S, p, n), PoolAvail(W, S, p, n)>>,
                <<[name |-> n, id |-> "", q |-> 0]>>)]])
AllocRes(W, S, k, al) ==
    [j \in 1..Len(al) |-> [name |-> Insts(W, S, k)[al[j][1]].name, id |-> Insts(W, S, k)[al[j][1]].id, q |-> al[j][2]]]

RECURSIVE DecRows(_, _, _, _)
\* rows of __handle_scheduler_finish for the decisions, given the evolving state (only task
\* states matter: a TASK_SKIP row is written when an unplaced decision is not a drop)
DecRows(W, S, decs, now) ==
    IF decs = <<>> THEN <<>>
    ELSE LET d == Head(decs)
             r == IF d.kind = 3 THEN ApplySkip(W, S, d, TRUE)
                  ELSE IF d.kind = 4 THEN ApplyPlace(W, S, d)
                  ELSE [S |-> S, evs |-> <<>>, err |-> "", cl |-> FALSE]     \* profile load / evict: no row
             st == IF d.t = 0 THEN 0 ELSE S.ts[d.t].st
             sched == IF d.kind = 4 /\ d.placed
                      THEN <<Row("TASK_SCHEDULED", <<now, d.t, 1, S.ts[d.t].dl, d.tm, d.pool, d.sd.rt>>, <<>>)>> ELSE <<>>
             skip == IF d.kind = 4 /\ ~d.placed /\ st <= SCHEDULED /\ ~W.fl.drop_skipped
                     THEN <<Row("TASK_SKIP", <<now, d.t, 1>>, <<>>)>> ELSE <<>>
         IN  sched \o skip \o (IF r.err # "" THEN <<>> ELSE DecRows(W, r.S, Tail(decs), now))

RowsOf(W, S0, e, B, S2) ==
    LET now == S0.now  t == e.t IN
    CASE e.ty = E_START -> <<Row("SIMULATOR_START", <<now>>, <<>>)>>
      [] e.ty = E_UPDATE ->
            IF ~B.upd THEN <<Row("UPDATE_WORKLOAD", <<now, 0, 0>>, <<>>)>>
            ELSE <<Row("UPDATE_WORKLOAD",
                       <<now, Len(S2.wl), Len(Flatten([i \in 1..Len(B.newg) |-> Releasable(S0, B.newg[i])]))>>, <<>>)>>
      [] e.ty = E_GRELEASE ->
            <<Row("TASK_GRAPH_RELEASE", <<e.tm, GRelease(S0, e.g), GDeadline(S0, e.g), e.g, Len(GTasks(S0, e.g)), S0.gr[e.g].cp>>, <<>>)>>
      [] e.ty = E_RELEASE ->
            <<Row("TASK_RELEASE", <<now, t, 1, S2.ts[t].irel, S2.ts[t].rel, S2.ts[t].dl, SlowestRt(S0, t)>>,
                  DemRes(S0.tk[t].strats[SlowestIdx(S0, t)].dem))>>
      [] e.ty = E_CANCEL ->
            <<Row("TASK_CANCEL", <<now, t, 1, SlowestRt(S0, t)>>, <<>>)>>
      [] e.ty = E_FINISHED ->
            LET g == GraphOf(S0, t)
                Sf == [S0 EXCEPT !.ts[t].st = IF S0.ts[t].rem = 0 THEN COMPLETED ELSE EVICTED]
                gdone == GComplete(Sf, g)
                gdl == GDeadline(S0, g)
            IN  <<Row("TASK_FINISHED", <<now, t, 1, S0.ts[t].last, S0.ts[t].dl>>, <<>>)>>
                \o (IF gdone THEN <<Row("TASK_GRAPH_FINISHED", <<now, g, gdl, IF gdl > now THEN 0 ELSE now - gdl>>, <<>>)>> ELSE <<>>)
                \o (IF now > S0.ts[t].dl THEN <<Row("MISSED_DEADLINE", <<now, t, 1, S0.ts[t].dl>>, <<>>)>> ELSE <<>>)
                \o (IF now > gdl THEN <<Row("MISSED_TASK_GRAPH_DEADLINE", <<now, g, gdl>>, <<>>)>> ELSE <<>>)
      [] e.ty = E_PLACEMENT ->
            IF S2.ts[t].st = RUNNING /\ S0.ts[t].st = SCHEDULED
            THEN LET k == WorkerOf(S2, t) IN
                 <<Row("TASK_PLACEMENT", <<now, t, 1, e.pl.pool, e.pl.sd.rt>>,
                       AllocRes(W, S2, k, S2.cl[k].occ[OccIdx(S2, k, t)].al))>>
            ELSE IF ~ReadyToRun(S0, t)
                 THEN (IF S0.ts[t].st = CANCELLED \/ GCancelled(S0, GraphOf(S0, t)) THEN <<>>
                       ELSE <<Row("TASK_NOT_READY", <<now, t, 1, e.pl.pool>>, <<>>)>>)
            ELSE <<Row("WORKER_NOT_READY", <<now, t, 1, e.pl.pool>>, <<>>)>>
      [] e.ty = E_PREEMPT -> <<Row("TASK_PREEMPT", <<now, t, 1>>, <<>>)>>
      [] e.ty = E_MIGRATE ->
            IF S2.ts[t].st = RUNNING /\ S0.ts[t].st = PREEMPTED
            THEN LET k == WorkerOf(S2, t) IN
                 <<Row("TASK_MIGRATED", <<now, t, 1, S0.ts[t].ppool, e.pl.pool>>,
                       AllocRes(W, S2, k, S2.cl[k].occ[OccIdx(S2, k, t)].al))>>
            ELSE <<>>
      [] e.ty = E_SCHED_START ->
            <<Row("SCHEDULER_START", <<now, Len(B.offered1), Len(AllPlaced(S0))>>, <<>>)>> \o UtilRows(W, S0, now)
      [] e.ty = E_SCHED_FIN ->
            LET decs == S0.pd.decs
                np == Cardinality({i \in 1..Len(decs) : decs[i].kind = 4 /\ decs[i].placed})
                nu == Cardinality({i \in 1..Len(decs) : decs[i].kind = 4 /\ ~decs[i].placed})
            IN  <<Row("SCHEDULER_FINISHED", <<now, now - S0.sch.last, np, nu>>, <<>>)>> \o DecRows(W, S0, decs, now)
      [] e.ty = E_END ->
            <<Row("SIMULATOR_END", <<now, S0.ctr.fin, S0.ctr.can, S0.ctr.miss, S0.ctr.gfin,
                                     Cardinality({i \in 1..Len(S0.wl) : GCancelled(S0, S0.wl[i])}), S0.ctr.gmiss>>, <<>>)>>
      [] e.ty = E_LOGUTIL -> UtilRows(W, S0, now)
      [] OTHER -> <<>>

\* C05: the run does not end early while work that could still run remains
C05_NoPrematureEnd(W, S) ==
    S.now < W.fl.timeout => \A t \in 1..NT(S) : S.ts[t].st \in {COMPLETED, CANCELLED, EVICTED}
\* C05: a work-conserving policy on a feasible, finite workload finishes everything before the timeout
C05_FeasibleAllDone(W, S) ==
    W.fl.expect_all_done => /\ S.now < W.fl.timeout
                            /\ \A t \in 1..NT(S) : S.ts[t].st \in {COMPLETED, CANCELLED}
                            /\ \A t \in 1..NT(S) : S.ts[t].st = CANCELLED => S.ts[t].prob = 0
C05_ByTimeout(W, S) == S.now <= W.fl.timeout
\* deviation of the design, recorded as a known finding: a scheduler invocation that starts before the
\* timeout and whose (simulated) runtime crosses it lets the clock overshoot by at most that runtime
C05_SchedulerOvershoot(W, S) == S.now > W.fl.timeout /\ W.fl.sched_rt > 0 /\ S.now <= W.fl.timeout + W.fl.sched_rt
\* C19 (closed loop): never more than `concurrency` graphs of a job graph in flight, never more than N in total
GraphsOfJob(S, jg) == {g \in Range(S.wl) : S.gr[g].jg = jg}
InFlight(S, g) == ~GComplete(S, g) /\ ~GCancelled(S, g)
C19_ClosedLoop(S) ==
    \A g \in Range(S.wl) : S.gr[g].closed =>
        /\ Cardinality({h \in GraphsOfJob(S, S.gr[g].jg) : InFlight(S, h)}) <= S.gr[g].conc
        /\ Cardinality(GraphsOfJob(S, S.gr[g].jg)) <= S.gr[g].ninv
\* at the end of a run that was not cut by the timeout every declared invocation was materialised
C19_ClosedLoopTotal(W, S) ==
    S.now < W.fl.timeout => \A g \in Range(S.wl) : S.gr[g].closed => Cardinality(GraphsOfJob(S, S.gr[g].jg)) = S.gr[g].ninv
\* C08: the end-of-run summary equals what happened to the tasks
C08_Counters(S) ==
    /\ S.ctr.fin = Cardinality({t \in 1..NT(S) : S.ts[t].st = COMPLETED})
    /\ S.ctr.miss = Cardinality({t \in 1..NT(S) : S.ts[t].st = COMPLETED /\ S.ts[t].fin > S.ts[t].dl})
    /\ S.ctr.gfin = Cardinality({g \in 1..Len(S.gr) : GComplete(S, g)})
C08_CancelCounter(S) ==     \* every cancelled task has been (or is about to be) reported
    S.ctr.can + Cardinality({i \in 1..Len(S.q) : S.q[i].ty = E_CANCEL}) = Cardinality({t \in 1..NT(S) : S.ts[t].st = CANCELLED})
=============================================================================
