"""C13 — EDF, FIFO and LSF honour their priority order (no priority inversion).

spec/Greedy.tla is the oracle.  An *instance* is [now, preemptive, tasks (offer order),
pools (availability of partially occupied single-worker pools)], an *answer* is the
order in which Placements were returned plus (placed?, pool, strategy) per task.
A task is fresh (RELEASED: remaining time = slowest strategy) or partially executed
(`ran` = started with strategy s, executed `done`): PREEMPTED, or still RUNNING on a
pool and offered to a preemptive EDF / LSF policy that plans on an emptied cluster.
The real tasks are brought into that state with schedule / place / start / step /
preempt, and their `remaining_time` is read back and compared with the spec's.

M  TLC enumerates every instance of a bound as an initial state (one JVM per
   part of the bound) and checks `Theorem` (Plan has no inversion, is feasible and
   in key order) and `CodedIsPlan` (LSF's strategy-less virtual place_task
   allocates the reported strategy).
R  the same bound is enumerated here from the same constants (quick: a seeded
   sample; thorough: all of the quick bound + a sample of the larger bound); each
   instance becomes real RELEASED tasks / Workload / partially occupied
   WorkerPools, is given to the real EDF/FIFO/LSF `schedule()`, and the call
   record (instance, returned answer, pool availability before / after) goes back
   to TLC which evaluates InBound, NoInversion, SameAsPlan, OrderKey, ... on it.
T  larger seeded-random instances (<= 8 tasks, two resource names, several
   strategies, ties) -> call records -> the same TLC evaluation.
W  (round 5, gating) pools with several workers: directed instances (a task that prefers
   the gpu worker and falls back to the cpu worker, for all three policies), the 'mw' slice
   of the bound (TLC proves Theorem on it, the replay samples it) and seeded-random
   instances with 1-3 workers per pool.  A Placement names the pool, not the worker:
   Greedy!InvertedK judges an unplaced task on such a pool only if it has room under EVERY
   assignment of the placed tasks of higher-or-equal priority to the pool's workers that is
   consistent with their reported strategies; records where some consistent assignment
   leaves no room are counted (mw_room_under_some_assignment_only_not_judged), not judged.
X  (thorough, notes only) pools with several workers: exact-plan comparison, LSF's former
   strategy-less place_task (CodedPlan).

Realisation (round 4).  All times of an instance are microseconds (the bounds are
scaled so that they are multiples of 1000 / 10^6); the real objects carry every
single time - now, deadline, release, each strategy's runtime, the executed time -
in its own EventTime unit (US / MS / S, any unit that divides the value, seeded
choice per field), and a worker may list the quantity of a resource name under two
ids ({r1:c0:1, r1:c1:1}), the occupied part spread over the two (held by id).  The
realisation is not part of the instance TLC sees: what the real objects carry is read
back (`seen`, `listed`, `before` / `after` per resource instance) and
Greedy!RealisationOK converts it to the instance's microseconds / capacities /
availabilities; Greedy!UnitStats counts the records whose unit-blind keys (bare
EventTime.time) order or plan differently.  `side.remaining` (Task.remaining_time is
the statement's remaining time) is a counted note like the other side clauses: a wrong
remaining time shows as an LSF inversion, judged by NoInversion.

Only `C13.no_inversion` produces a VIOLATION.  `C13.plan_eq`, `C13.order_key`,
`side.*` are stricter than the statement: they are counted (`resync`) and shown
in the detail of a no_inversion violation, never reported on their own.
"""
from __future__ import annotations

import contextlib
import itertools
import json
import multiprocessing as mp
import os
import re
import signal
import tempfile
import time

from . import mcgen, tlaval, tlc
from .common import CheckResult, Scratch, rng
from .mcgen import Raw
from .realobj import ns, us

KINDS = ("EDF", "FIFO", "LSF")
RES_NAMES = ("r1", "r2")
GATING = "C13.no_inversion"
STAT_NAMES = [
    "records",
    "some_task_unplaced",
    "lower_priority_placed_while_higher_unplaced",
    "key_ties",
    "order_differs_from_offer_order",
    "fallback_strategy_used",
    "pool_other_than_first_used",
    "all_placed",
    "unplaced_task_fits_initial_cluster",
    "some_time_not_in_us",
    "unit_blind_order_differs",
    "unit_blind_plan_inverts",
    "multi_instance_worker",
    "multi_worker_pool",
    "mw_some_task_unplaced",
    "mw_unplaced_task_meets_several_assignments",
    "mw_room_under_some_assignment_only_not_judged",
    "answer_equals_plan",
]
UNIT_ONLY = ("some_time_not_in_us", "unit_blind_order_differs", "unit_blind_plan_inverts", "multi_instance_worker")
# counted by Greedy!MWStats: the clause for pools with several workers (round 5)
MW_ONLY = (
    "multi_worker_pool", "mw_some_task_unplaced", "mw_unplaced_task_meets_several_assignments",
    "mw_room_under_some_assignment_only_not_judged",
)
RECORD_ONLY = UNIT_ONLY + MW_ONLY
MS, SEC = 1000, 10**6
UNIT_US = {"US": 1, "MS": MS, "S": SEC}
# time scale of the slices of the bound: microseconds per unit of the small numbers written in slices()
SCALE = {"edf": MS, "fifo": SEC, "lsf": MS, "pre": SEC, "fit": MS, "mw": MS}


# ---------------------------------------------------------------------------
# bounds (one source of truth for TLC and for the enumeration below)


def _st(dem, rt):
    return {"dem": list(dem), "rt": rt}


FRESH = {"s": 0, "done": 0, "on": 0}


def _tk(strats, s=0, done=0, on=0):
    """a strategy list plus the execution history of the task: started with strategy
    `s` (0: never), executed for `done`, still RUNNING on pool `on` (0: RELEASED / PREEMPTED)"""
    return {"strats": strats, "ran": {"s": s, "done": done, "on": on}}


def _pool(av, cap=None):
    """single-worker pool"""
    return {"cap": [list(cap or [2] * len(av))], "av": [list(av)]}


def _mpool(avs, cap=None):
    """pool with one worker per availability vector"""
    return {"cap": [list(cap or [2] * len(a)) for a in avs], "av": [list(a) for a in avs]}


def _profiles(deadlines, releases, graphs):
    return [{"deadline": d, "release": r, "graph": g} for d in deadlines for r in releases for g in graphs]


def _pool_seqs(avs, lens, cap=None):
    out = []
    for n in lens:
        for combo in itertools.product(avs, repeat=n):
            out.append([_pool(a, cap) for a in combo])
    return out


def _scale_strats(sl, f):
    if isinstance(sl, dict):
        return {"strats": _scale_strats(sl["strats"], f), "ran": dict(sl["ran"], done=sl["ran"]["done"] * f)}
    return [{"dem": list(x["dem"]), "rt": x["rt"] * f} for x in sl]


def scale_bound(b, f):
    """the same bound with every time multiplied by f (microseconds per unit)"""
    out = dict(b, Now=b["Now"] * f, Scale=f)
    out["KeyProfiles"] = [dict(kp, deadline=kp["deadline"] * f, release=kp["release"] * f) for kp in b["KeyProfiles"]]
    out["StratLists"] = [_scale_strats(sl, f) for sl in b["StratLists"]]
    return out


def slices(size: str) -> dict:
    """The bounds.  'small': enumerated by TLC and replayed on the real code (quick: a
    sample).  'large' (thorough): enumerated by TLC, sampled for the replay.
    Times are written in small numbers here and scaled to microseconds by SCALE."""
    big = size == "large"
    n = 4 if big else 3
    s = {}
    # --- key slices: the policy key varies over 0..3 / three slack levels (ties abound),
    # one resource name, 1-3 single-worker pools of capacity 2 with 0..2 free
    kpools = [[_pool(a) for a in avs] for avs in ([[1]], [[2]], [[0], [2]], [[1], [1]], [[1], [2]], [[1], [1], [1]])]
    two = [[_st([1], 1)], [_st([2], 2)]]
    s["edf"] = dict(Kinds=["EDF"], Now=3, MaxTasks=n, KeyProfiles=_profiles(range(4), (0,), (0, 1)), StratLists=two, PoolSeqs=kpools)
    s["fifo"] = dict(Kinds=["FIFO"], Now=3, MaxTasks=n, KeyProfiles=_profiles((5,), range(4), (0, 1)), StratLists=two, PoolSeqs=kpools)
    # slack = deadline - now - remaining time.  remaining = the slowest strategy (first /
    # last / only) for a fresh task, the started strategy's runtime minus the executed time
    # for a PREEMPTED one (started with the slow or with the fast strategy)
    one2, two13, big2 = [_st([1], 2)], [_st([2], 1), _st([1], 3)], [_st([2], 2)]
    s["lsf"] = dict(
        Kinds=["LSF"], Now=2, MaxTasks=n, KeyProfiles=_profiles((5, 6, 7), (0,), (0,)),
        StratLists=[_tk(one2), _tk(one2, 1, 1), _tk(two13), _tk(two13, 2, 2), _tk(two13, 1, 0), _tk(big2)],
        PoolSeqs=kpools,
    )
    # --- preemptive EDF / LSF: the virtual cluster is emptied (deepcopy) and the task that is
    # RUNNING on pool 1 (at most one, offered last) competes with its live remaining time
    run3 = [_st([1], 3)]
    s["pre"] = dict(
        Kinds=["EDF", "LSF"], Now=2, MaxTasks=3, Preemptive=True, KeyProfiles=_profiles((5, 6, 7), (0,), (0,)),
        StratLists=[_tk([_st([1], 1)]), _tk(one2), _tk(big2), _tk(run3, 1, 1, 1), _tk(run3, 1, 2, 1)],
        PoolSeqs=[[_pool([c], [c]) for c in caps] for caps in ((1,), (2,), (1, 1), (2, 1), (1, 2))],
    )
    # --- fit slice: two resource names, 1-2 strategies, 1-3 pools, all three policies; the
    # key profiles are ordered one way by deadline (and slack) and the other way by release
    lists = [
        [_st([1, 0], 1)],
        [_st([1, 1], 1)],
        [_st([2, 0], 1), _st([0, 1], 2)],
        [_st([0, 2], 1), _st([1, 0], 3)],
    ]
    avs = [[0, 1], [1, 0], [1, 1], [2, 1]]
    prof = [{"deadline": 5, "release": 1, "graph": 0}, {"deadline": 7, "release": 0, "graph": 0}]
    if big:
        lists += [[_st([1, 1], 2), _st([1, 0], 1)], [_st([2, 1], 2), _st([0, 1], 1)]]
        avs += [[0, 0]]
        prof += [{"deadline": 7, "release": 1, "graph": 1}]
    three = [[_pool(a), _pool(b), _pool(c)] for a, b, c in (([1, 0], [0, 1], [1, 1]), ([0, 1], [0, 1], [2, 0]), ([0, 0], [1, 0], [1, 2]))]
    s["fit"] = dict(Kinds=list(KINDS), Now=2, MaxTasks=3, KeyProfiles=prof, StratLists=lists, PoolSeqs=_pool_seqs(avs, (1, 2)) + three)
    # --- pools with several workers (round 5): two resource names ("cpu", "gpu"), a task that
    # prefers the gpu and falls back to the cpu, workers whose free resources differ; the
    # Placement names the pool, not the worker: NoInversion quantifies over the assignments
    mlists = [[_st([0, 1], 1), _st([1, 0], 3)], [_st([1, 0], 1)], [_st([0, 1], 1)], [_st([2, 0], 2)]]
    mpools = [
        [_mpool([[1, 0], [0, 1]])],
        [_mpool([[1, 0], [2, 0]])],
        [_mpool([[2, 0], [1, 1]])],
        [_mpool([[1, 0], [0, 1], [1, 1]])],
        [_mpool([[0, 1], [1, 0]]), _pool([1, 1])],
    ]
    if big:
        mlists += [[_st([1, 0], 1), _st([0, 1], 2)]]
        mpools += [[_mpool([[0, 1], [1, 0]])], [_mpool([[2, 1], [1, 0], [0, 1]])]]
    s["mw"] = dict(Kinds=list(KINDS), Now=2, MaxTasks=3, KeyProfiles=prof, StratLists=mlists, PoolSeqs=mpools)
    return {tag: scale_bound(b, SCALE[tag]) for tag, b in s.items()}


def shapes_of(b):
    out = []
    for kp in b["KeyProfiles"]:
        for sl in b["StratLists"]:
            tk = sl if isinstance(sl, dict) else _tk(sl)
            out.append({"deadline": kp["deadline"], "release": kp["release"], "graph": kp["graph"], "strats": tk["strats"], "ran": dict(tk["ran"])})
    return out


def offer_ok(graphs, ons) -> bool:
    """Greedy!OfferOK: graphs contiguous among the tasks that are not running, the running
    ones last in pool order, at most one of them"""
    seen, last = set(), None
    for g, on in zip(graphs, ons):
        if on == 0 and g != last:
            if g in seen:
                return False
            seen.add(g)
            last = g
    run = [i for i, on in enumerate(ons) if on > 0]
    if len(run) > 1:
        return False
    return all(ons[j] >= ons[i] for i in run for j in range(i + 1, len(ons)))


def pools_for(b, tasks, ps):
    """Greedy!PoolsFor"""
    if not b.get("Preemptive"):
        return ps
    out = []
    for q, pool in enumerate(ps):
        av = list(pool["cap"][0])
        for t in tasks:
            if t["ran"]["on"] == q + 1:
                av = [a - d for a, d in zip(av, t["strats"][t["ran"]["s"] - 1]["dem"])]
        out.append({"cap": pool["cap"], "av": [av]})
    return out


def _inst(b, ts, ps):
    ts = list(ts)
    return {"now": b["Now"], "preemptive": bool(b.get("Preemptive")), "tasks": ts, "pools": pools_for(b, ts, ps)}


def enumerate_bound(b):
    """every instance of the bound (the set Greedy!InBound describes)"""
    sh = shapes_of(b)
    for n in range(1, b["MaxTasks"] + 1):
        for ts in itertools.product(sh, repeat=n):
            if not offer_ok([t["graph"] for t in ts], [t["ran"]["on"] for t in ts]):
                continue
            for ps in b["PoolSeqs"]:
                yield _inst(b, ts, ps)


def count_bound(b) -> int:
    cls = [(x["graph"], x["ran"]["on"]) for x in shapes_of(b)]
    size = {c: cls.count(c) for c in set(cls)}
    total = 0
    for n in range(1, b["MaxTasks"] + 1):
        for cs in itertools.product(sorted(size), repeat=n):
            if offer_ok([c[0] for c in cs], [c[1] for c in cs]):
                k = 1
                for c in cs:
                    k *= size[c]
                total += k
    return total * len(b["PoolSeqs"])


def sample_bound(b, k, r):
    sh = shapes_of(b)
    weights = [len(sh) ** n for n in range(1, b["MaxTasks"] + 1)]
    out = []
    while len(out) < k:
        n = r.choices(range(1, b["MaxTasks"] + 1), weights)[0]
        ts = [r.choice(sh) for _ in range(n)]
        if not offer_ok([t["graph"] for t in ts], [t["ran"]["on"] for t in ts]):
            continue
        out.append(_inst(b, ts, r.choice(b["PoolSeqs"])))
    return out


def _set(lst):
    return Raw("{" + ", ".join(tlaval.to_tla(x) for x in lst) + "}")


def _dedupe(lst):
    seen, out = set(), []
    for x in lst:
        k = json.dumps(x, sort_keys=True)
        if k not in seen:
            seen.add(k)
            out.append(x)
    return out


def constants(b, first=None, records=None, nrecords=0):
    """`first`: 1-based shape indices of the first task (None: the whole bound)"""
    sh = shapes_of(b)
    pools = _dedupe(b["PoolSeqs"])
    assert len(pools) == len(b["PoolSeqs"]) and len(_dedupe(sh)) == len(sh), "bound lists must not repeat"
    return {
        "Kinds": _set(b["Kinds"]),
        "Now": b["Now"],
        "MaxTasks": b["MaxTasks"],
        "Preemptive": bool(b.get("Preemptive")),
        "Shapes": sh,
        "PoolSeqs": pools,
        "NShapes": len(sh),
        "NPools": len(pools),
        "GraphOf": [x["graph"] for x in sh],
        "OnOf": [x["ran"]["on"] for x in sh],
        "FirstIx": _set(list(range(1, len(sh) + 1)) if first is None else list(first)),
        "Records": Raw(records) if records else [],
        "NRecords": nrecords,
    }


def instance_of(b, sel, pix):
    sh = shapes_of(b)
    return _inst(b, [sh[i - 1] for i in sel], b["PoolSeqs"][pix - 1])


@contextlib.contextmanager
def _tmp_in(scratch):
    """tlc.run_tlc makes its -metadir with tempfile.mkdtemp(): keep it inside our own
    scratch directory (several checks share /tmp)."""
    old = tempfile.tempdir
    tempfile.tempdir = scratch
    try:
        yield
    finally:
        tempfile.tempdir = old


NO_BOUND = dict(Kinds=list(KINDS), Now=0, MaxTasks=1, KeyProfiles=[], StratLists=[], PoolSeqs=[])  # records that claim no bound

# ---------------------------------------------------------------------------
# M: enumeration runs

# many single-worker JVMs run side by side
JAVA_OPTS = mcgen.LIB_OPT + ["-XX:ParallelGCThreads=2"]
REG_INIT = "ASSUME \\A r \\in 1..(NStats + 1) : TLCSet(r, 0)\nASSUME BoundOK\nPost == StatsLine\n"


def _stats_from(out: str):
    for line in out.splitlines():
        if line.startswith('"@@stats '):
            return tlaval.parse(line[len('"@@stats ') : -1])
    return None


def _enum_job(tag, b, first, invariants, coverage=False):
    """one JVM: the part of bound `b` whose first task has its shape in `first`"""
    with Scratch() as scratch:
        extra = REG_INIT
        if tag.endswith("/0"):
            extra += 'ASSUME VectorModelOK(<<"r1", "r2">>, 2)\n'
        if tag.endswith("/pre/0"):
            extra += 'ASSUME VectorModelSplitOK(<<"r1", "r2">>, 3)\n'
        mod, cf = mcgen.write_mc(
            scratch, "Greedy", constants(b, first), name="MC_GreedyEnum", init_next=("EnumInit", "NoNext"),
            invariants=invariants, extra_defs=extra, postcondition="Post",
        )
        with _tmp_in(scratch):
            r = tlc.run_tlc(mod, cf, workers=1, java_opts=JAVA_OPTS, timeout=7200, coverage=coverage)
    cex = None
    if not r.ok:
        # instances are initial states: TLC prints the violating one without a "State 1:" header
        m = re.search(r"is violated by the initial state:\n((?:/\\.*\n)+)", r.stdout)
        st = tlaval.parse_state(m.group(1)) if m else (r.trace[0][1] if r.trace else {})
        if "sel" in st:
            cex = {"kind": st["kind"], "inst": instance_of(b, st["sel"], st["pix"])}
    return {
        "tag": tag, "ok": r.ok, "distinct": r.distinct, "generated": r.generated, "wall_s": r.wall_s,
        "coverage": r.coverage, "stats": _stats_from(r.stdout), "violation": r.violation_name,
        "cex": cex, "tail": "" if r.ok else r.stdout[-1500:],
    }


def _chunks(lst, n):
    n = max(1, min(n, len(lst)))
    k, m = divmod(len(lst), n)
    out, i = [], 0
    for j in range(n):
        step = k + (1 if j < m else 0)
        out.append(lst[i : i + step])
        i += step
    return out


def enum_jobs(bounds, parts_for, invariants, label):
    jobs = []
    for tag, b in bounds.items():
        nsh = len(shapes_of(b))
        for ci, first in enumerate(_chunks(list(range(1, nsh + 1)), parts_for(tag, b))):
            cost = count_bound(b) * len(b["Kinds"]) * len(first) / nsh
            jobs.append((cost * 2, _enum_job, (f"{label}/{tag}/{ci}", b, first, invariants, label == "small" and tag == "lsf")))
    return jobs


def absorb_enum(res, outs):
    """outs: results of _enum_job; one add_tlc entry per bound"""
    by_slice = {}
    for o in outs:
        by_slice.setdefault(o["tag"].rsplit("/", 1)[0], []).append(o)
    counts = {}
    for tag, parts in by_slice.items():
        agg = tlc.TLCResult(ok=all(p["ok"] for p in parts), stdout="")
        agg.distinct = sum(p["distinct"] for p in parts)
        agg.generated = sum(p["generated"] for p in parts)
        agg.wall_s = max(p["wall_s"] for p in parts)
        agg.depth = 1
        # instances are initial states: the only action is the initial predicate
        agg.coverage = {"EnumInit": (agg.distinct, agg.generated)}
        res.add_tlc(f"Greedy/{tag} ({len(parts)} JVMs, cpu {round(sum(p['wall_s'] for p in parts))}s)", agg)
        res.extra["tlc_runs"][-1]["never_taken"] = []  # NoNext is disabled on purpose
        cov = [p["coverage"] for p in parts if p["coverage"]]
        if cov:
            res.extra["tlc_runs"][-1]["tlc_coverage_report"] = {k: list(v) for k, v in cov[0].items()}
        st = [0] * len(STAT_NAMES)
        for p in parts:
            if p["stats"]:
                st = [a + b for a, b in zip(st, p["stats"])]
        d = {k: v for k, v in zip(STAT_NAMES[:-1], st[:-1]) if k not in RECORD_ONLY}
        d["instances"] = d.pop("records")
        res.extra.setdefault("enumeration_stats", {})[tag] = d
        counts[tag] = agg.distinct
        for p in parts:
            if not p["ok"]:
                res.violate(
                    GATING,
                    f"TLC: {p['violation']} fails for the specified algorithm on an instance of bound {tag}",
                    {**(p["cex"] or {}), "tlc_tail": p["tail"]},
                    key=f"spec:{tag}:{p['violation']}",
                )
    return counts


# ---------------------------------------------------------------------------
# realisation of an instance: the EventTime unit of every single time, the resource
# instances a worker lists per name.  Not part of the instance (TLC: microseconds,
# one quantity per name); Greedy!RealisationOK ties what is read back to the instance.


def _split(c, r, whole):
    """the quantities of the instances that list capacity c of one name"""
    if c == 0:
        return r.choice(([], [0], [0, 0]))
    if whole or r.random() < 0.4:
        return [c]
    a = r.randint(0, c)
    return [a, c - a]


def realisation(inst, r):
    """seeded choice of {"units": {"now", "tasks": [{"deadline", "release", "rt": [..], "done",
    "end"}]}, "split": per pool / worker / name [quantity per instance], "occ": likewise, the
    occupied part of each instance}.  A unit is eligible for a time if it divides it."""
    plain = r.random() < 0.08  # every time in microseconds (the only class of the earlier rounds)

    def u(v):
        return "US" if plain else r.choice([x for x, f in UNIT_US.items() if v % f == 0])

    tasks = []
    for t in inst["tasks"]:
        ran = t.get("ran", FRESH)
        tasks.append({
            "deadline": u(t["deadline"]), "release": u(t["release"]), "rt": [u(x["rt"]) for x in t["strats"]],
            "done": u(ran["done"]), "end": u(t["release"] + ran["done"]),
        })
    whole = r.random() < 0.2  # every worker lists one instance per name
    split = [[[_split(c, r, whole) for c in cap] for cap in p["cap"]] for p in inst["pools"]]
    return {"units": {"now": u(inst["now"]), "tasks": tasks}, "split": split, "occ": _occupied(inst, split, r)}


def _occupied(inst, split, r=None):
    """how the occupied quantity cap - av of every name is spread over its instances (r = None:
    first fit).  A preemptive instance has no occupants besides its running tasks."""
    out = []
    for p, sp in zip(inst["pools"], split):
        out.append([])
        for cap, av, parts_of in zip(p["cap"], p["av"], sp):
            row = []
            for c, a, parts in zip(cap, av, parts_of):
                occ = 0 if inst.get("preemptive") else c - a
                if len(parts) == 2:
                    lo, hi = max(0, occ - parts[1]), min(parts[0], occ)
                    x = hi if r is None else r.randint(lo, hi)
                    row.append([x, occ - x])
                else:
                    row.append([occ] * len(parts))
            out[-1].append(row)
    return out


def default_realisation(inst):
    """everything in microseconds, one resource instance per name (earlier rounds, old replay files)"""
    tasks = [{"deadline": "US", "release": "US", "rt": ["US"] * len(t["strats"]), "done": "US", "end": "US"} for t in inst["tasks"]]
    split = [
        [[[c] if c > 0 or (pi + wi + k) % 2 == 0 else [] for k, c in enumerate(cap)] for wi, cap in enumerate(p["cap"])]
        for pi, p in enumerate(inst["pools"])
    ]
    return {"units": {"now": "US", "tasks": tasks}, "split": split, "occ": _occupied(inst, split)}


def et(v, unit):
    """the EventTime that denotes v microseconds in the given unit"""
    N = ns()
    if v % UNIT_US[unit]:
        raise tlc.TLCMachineryError(f"{v}us is not a whole number of {unit}")
    return N.EventTime(v // UNIT_US[unit], getattr(N.EventTime.Unit, unit))


def _nu(e):
    return {"n": e.time, "u": e.unit.name}


def scale_instance(inst, f, r=None):
    """every time of the instance multiplied by f.  With r, a quarter of the deadlines, runtimes
    and (where release + done <= now allows) releases get half a unit more: values that only a
    finer unit expresses (2ms next to 1500us)."""

    def j(ok=True):
        return f // 2 if r is not None and f > 1 and ok and r.random() < 0.25 else 0

    now = inst["now"] * f
    tasks = []
    for t in inst["tasks"]:
        ran = t.get("ran", FRESH)
        strats = [{"dem": list(x["dem"]), "rt": x["rt"] * f + j()} for x in t["strats"]]
        done, rel = ran["done"] * f, t["release"] * f
        rel += j(rel + f // 2 + done <= now)
        tasks.append(dict(t, deadline=t["deadline"] * f + j(), release=rel, strats=strats, ran=dict(ran, done=done)))
    return dict(inst, now=now, tasks=tasks)


# ---------------------------------------------------------------------------
# real objects

_SCHED = {}


def scheduler(kind, preemptive=False):
    key = (kind, bool(preemptive))
    if key not in _SCHED:
        N = ns()
        import schedulers

        zero = N.EventTime.zero()
        if kind == "EDF":
            _SCHED[key] = schedulers.EDFScheduler(preemptive=key[1], runtime=zero, enforce_deadlines=False)
        elif kind == "FIFO":
            _SCHED[key] = schedulers.FIFOScheduler(preemptive=key[1], runtime=zero, enforce_deadlines=False)
        else:
            _SCHED[key] = schedulers.LSFScheduler(preemptive=key[1], runtime=zero)
    return _SCHED[key]


def _request(dem):
    N = ns()
    return N.Resources(resource_vector={N.Resource(name=RES_NAMES[k], _id="any"): q for k, q in enumerate(dem) if q > 0})


def build_pools(inst, real):
    """Real WorkerPools: each worker owns cap[k] of resource name k, listed as the
    instances real["split"] says (two instances of a name: ids c0, c1); a dummy task
    holds cap - av, instance by instance (real["occ"]; requests by id, so that building
    the instance does not depend on how a wildcard request is spread over instances)."""
    N = ns()
    pools = []
    for pi, p in enumerate(inst["pools"]):
        workers, held = [], []
        for wi, cap in enumerate(p["cap"]):
            vec, req = {}, {}
            for k, parts in enumerate(real["split"][pi][wi]):
                for j, c in enumerate(parts):
                    rs = N.Resource(name=RES_NAMES[k], _id=f"c{j}" if len(parts) > 1 else None)
                    vec[rs] = c
                    if real["occ"][pi][wi][k][j]:
                        req[N.Resource(name=rs.name, _id=rs.id)] = real["occ"][pi][wi][k][j]
            workers.append(N.Worker(name=f"w{pi}_{wi}", resources=N.Resources(resource_vector=vec)))
            held.append(req)
        pool = N.WorkerPool(name=f"pool{pi}", workers=workers)
        for wi, req in enumerate(held):
            # (a preemptive policy is offered everything that sits on the pools: there the
            # occupants are the instance's own running tasks, placed by build_workload)
            if req:
                st = N.ExecutionStrategy(resources=N.Resources(resource_vector=req), batch_size=1, runtime=us(1000))
                prof = N.WorkProfile(name=f"occ{pi}_{wi}", execution_strategies=N.ExecutionStrategies([st]))
                dummy = N.Task(
                    name=f"occ{pi}_{wi}", task_graph="occupants", job=N.Job(name=f"occ{pi}_{wi}", profile=prof),
                    profile=prof, deadline=us(10**6), timestamp=0, release_time=us(0),
                )
                if not pool.place_task(dummy, execution_strategy=st, worker_id=workers[wi].id):
                    raise tlc.TLCMachineryError(f"could not occupy pool {pi} worker {wi} with {req}")
        pools.append(pool)
    return pools


def listed(pools, nres):
    """per pool / worker / name the total quantities of the instances the worker lists"""
    return [[[[q for res, q in w.resources.resources if res.name == RES_NAMES[k]] for k in range(nres)] for w in pool.workers] for pool in pools]


def observe(pools, nres):
    """per pool / worker / name the available quantity of every listed instance (asked by id)"""
    N = ns()
    return [
        [
            [
                [w.resources.get_available_quantity(N.Resource(name=res.name, _id=res.id)) for res, _ in w.resources.resources if res.name == RES_NAMES[k]]
                for k in range(nres)
            ]
            for w in pool.workers
        ]
        for pool in pools
    ]


def build_workload(inst, pools, real):
    """Real tasks, one TaskGraph per graph number (dict order = first appearance).
    ran.s = 0: RELEASED.  Otherwise the task is scheduled with strategy ran.s, placed,
    started at its release time and stepped for ran.done; then either PREEMPTED and taken
    off its pool (ran.on = 0) or left RUNNING on the instance's pool ran.on.
    Every time is built in the unit real["units"] names for it.
    Returns (workload, tasks in instance order)."""
    N = ns()
    tasks = []
    for ti, t in enumerate(inst["tasks"]):
        un = real["units"]["tasks"][ti]
        strategies = [
            N.ExecutionStrategy(resources=_request(s["dem"]), batch_size=1, runtime=et(s["rt"], un["rt"][si]))
            for si, s in enumerate(t["strats"])
        ]
        prof = N.WorkProfile(name=f"t{ti}_p", execution_strategies=N.ExecutionStrategies(strategies))
        task = N.Task(
            name=f"t{ti}", task_graph=f"g{t['graph']}", job=N.Job(name=f"t{ti}", profile=prof), profile=prof,
            deadline=et(t["deadline"], un["deadline"]), timestamp=0, release_time=et(t["release"], un["release"]),
        )
        task.release()
        ran = t.get("ran", FRESH)
        if ran["s"]:
            st = strategies[ran["s"] - 1]
            if ran["on"]:
                pool = pools[ran["on"] - 1]
            else:  # it ran somewhere else before it was preempted
                worker = N.Worker(name=f"elsewhere{ti}", resources=N.Resources(resource_vector={N.Resource(name=RES_NAMES[k]): q for k, q in enumerate(t["strats"][ran["s"] - 1]["dem"]) if q > 0}))
                pool = N.WorkerPool(name=f"elsewhere{ti}", workers=[worker])
            t0 = et(t["release"], un["release"])
            task.schedule(t0, N.Placement.create_task_placement(task=task, placement_time=t0, worker_pool_id=pool.id, execution_strategy=st))
            if not pool.place_task(task, execution_strategy=st):
                raise tlc.TLCMachineryError(f"could not place the running task {ti} of {inst}")
            task.start(t0)
            if ran["done"]:  # (Worker.step would also step the other tasks of the pool)
                if task.step(t0, et(ran["done"], un["done"])):
                    raise tlc.TLCMachineryError(f"task {ti} finished while it was being prepared: {inst}")
            if not ran["on"]:
                end = et(t["release"] + ran["done"], un["end"])
                task.preempt(end)
                pool.remove_task(end, task)
        tasks.append(task)
    graphs = {}
    for task in tasks:
        graphs.setdefault(task.task_graph, []).append(task)
    # an edge-less graph is offered in reverse insertion order (topological_sort)
    tgs = {name: N.TaskGraph(name=name, tasks={t: [] for t in reversed(ts)}) for name, ts in graphs.items()}
    return N.Workload.from_task_graphs(tgs), tasks


def realize(kind, inst, real=None):
    """Run the real scheduler on the instance, built as `real` says (None: microseconds, one
    resource instance per name).  Returns (inst as offered, ans, before, after, remaining times
    read from the real tasks, info); info["real"] / ["seen"] / ["listed"]: the realisation (in
    offer order) and what the real objects carry."""
    N = ns()
    nres = len(inst["pools"][0]["av"][0])
    info = {}
    real = real or default_realisation(inst)
    if "occ" not in real:
        real = dict(real, occ=_occupied(inst, real["split"]))
    try:
        pools = build_pools(inst, real)
        workload, tasks = build_workload(inst, pools, real)
    except tlc.TLCMachineryError as ex:
        # the state the instance describes could not be reached through the real API: no call, nothing
        # to judge.  A machinery failure at the end of the run unless other calls show a violation.
        info["could_not_build"] = str(ex)[:400]
        return None, None, None, None, None, info
    now = et(inst["now"], real["units"]["now"])
    pre = bool(inst.get("preemptive"))
    wps = N.WorkerPools(pools)
    offered = workload.get_schedulable_tasks(time=now, preemption=pre, worker_pools=wps)
    idx = {id(t): i for i, t in enumerate(tasks)}
    perm = [idx[id(t)] for t in offered if id(t) in idx]
    if perm != list(range(len(tasks))):
        if sorted(perm) != list(range(len(tasks))) or len(offered) != len(tasks):
            info["not_offered"] = [len(tasks), perm]
            return None, None, None, None, None, info
        # describe the instance in the order the code offers it
        info["offer_reordered"] = perm
        inst = dict(inst, tasks=[inst["tasks"][i] for i in perm])
        real = dict(real, units=dict(real["units"], tasks=[real["units"]["tasks"][i] for i in perm]))
        tasks = [tasks[i] for i in perm]
        idx = {id(t): i for i, t in enumerate(tasks)}
    pool_ix = {p.id: i + 1 for i, p in enumerate(pools)}
    before = observe(pools, nres)
    remaining = [t.remaining_time.to(N.EventTime.Unit.US).time for t in tasks]
    extra = {
        "real": real,
        "listed": listed(pools, nres),
        "seen": {
            "now": _nu(now),
            "tasks": [
                {
                    "deadline": _nu(t.deadline), "release": _nu(t.release_time), "remaining": _nu(t.remaining_time),
                    "rt": [_nu(s.runtime) for s in t.available_execution_strategies],
                }
                for t in tasks
            ],
        },
    }
    order, place = [], [{"placed": False, "pool": 0, "strat": 0} for _ in tasks]
    seen = set()
    try:
        placements = scheduler(kind, pre).schedule(now, workload, wps)
        for pl in placements:
            ptype = pl.placement_type
            if ptype not in (N.Placement.PlacementType.PLACE_TASK, N.Placement.PlacementType.CANCEL_TASK):
                info.setdefault("other_placements", []).append(str(ptype))
                continue
            ti = idx.get(id(pl.task))
            if ti is None:
                info.setdefault("foreign_task", []).append(pl.task.unique_name)
                continue
            order.append(ti + 1)
            if ti in seen:
                info.setdefault("duplicate", []).append(ti + 1)
                continue
            seen.add(ti)
            if ptype == N.Placement.PlacementType.PLACE_TASK and pl.is_placed():
                sts = list(tasks[ti].available_execution_strategies)
                es = pl.execution_strategy
                si = next((k + 1 for k, s in enumerate(sts) if s is es), 0)
                if si == 0 and es is not None:
                    si = next((k + 1 for k, s in enumerate(sts) if s.id == es.id), 0)
                place[ti] = {"placed": True, "pool": pool_ix.get(pl.worker_pool_id, 0), "strat": si}
                if place[ti]["pool"] == 0 or si == 0:
                    # a pool / strategy that is not part of the instance: nothing C13 can judge (C10)
                    info["not_offered"] = ["unknown pool or strategy in placement", ti + 1, str(pl)]
                    return None, None, None, None, None, info
                if pl.worker_id is not None:
                    info["worker_id_reported"] = True
    except Exception as ex:  # the call has no answer: nothing is placed (TLC judges that)
        info["raised"] = f"{type(ex).__name__}: {ex}"[:300]
        order, place = [], [{"placed": False, "pool": 0, "strat": 0} for _ in tasks]
    after = observe(pools, nres)
    info["_extra"] = extra
    return inst, {"order": order, "place": place}, before, after, remaining, info


def normalize(inst):
    """fill in the fields a hand-written / older instance may lack"""
    out = dict(inst)
    out.setdefault("preemptive", False)
    out["tasks"] = [dict(t, ran=dict(t.get("ran", FRESH))) for t in inst["tasks"]]
    return out


def make_records(items, id0=0):
    """items: [(kind, inst, bound?, realisation or None)] -> records, skipped infos"""
    recs, infos = [], []
    for k, item in enumerate(items):
        kind, inst, bound = item[:3]
        real = item[3] if len(item) > 3 else None
        inst = normalize(inst)
        inst2, ans, before, after, remaining, info = realize(kind, inst, real)
        if inst2 is None:
            infos.append({"kind": kind, "inst": inst, "real": real, **info})
            continue
        extra = info.pop("_extra")
        rec = {
            "id": id0 + k, "kind": kind, "inst": inst2, "ans": ans,
            "bound": bool(bound) and "offer_reordered" not in info, "before": before, "after": after, "remaining": remaining,
            **extra,
        }
        if info:
            rec["_info"] = info
        recs.append(rec)
    return recs, infos


# ---------------------------------------------------------------------------
# records -> TLC


def check_records(recs, b):
    """One TLC run over the records.  Returns (failures {id: {clause: expected}}, stats)."""
    if not recs:
        return {}, [0] * len(STAT_NAMES), 0.0
    with Scratch() as scratch:
        path = os.path.join(scratch, "records.json")
        with open(path, "w") as f:
            json.dump([{k: v for k, v in r.items() if not k.startswith("_")} for r in recs], f)
        mod, cf = mcgen.write_mc(
            scratch, "Greedy", constants(b, None, f'JsonDeserialize("{path}")', len(recs)), name="MC_GreedyRec",
            init_next=("RecInit", "NoNext"), invariants=["RecChecked"], extra_defs=REG_INIT,
            postcondition="Post", extends="Json",
        )
        with _tmp_in(scratch):
            r = tlc.run_tlc(mod, cf, workers=1, java_opts=JAVA_OPTS, coverage=False, timeout=7200)
    if not r.ok:
        raise tlc.TLCMachineryError(f"record run failed: {r.violation_kind} {r.violation_name}\n{r.stdout[-3000:]}")
    if r.distinct != len(recs):
        raise tlc.TLCMachineryError(f"TLC looked at {r.distinct} records, {len(recs)} were written")
    fails = {}
    for line in r.stdout.splitlines():
        if line.startswith('"@@ '):
            rid, clause, exp = line[4:-1].split(" ", 2)
            try:
                val = tlaval.parse(exp)
            except tlaval.ParseError:
                val = exp
            fails.setdefault(int(rid), {})[clause] = val
    st = _stats_from(r.stdout)
    if st is None:
        raise tlc.TLCMachineryError("no statistics line from the record run")
    return fails, st, r.wall_s


def _plain(v):
    if isinstance(v, dict):
        return {str(k): _plain(x) for k, x in v.items()}
    if isinstance(v, (set, frozenset)):
        return sorted(_plain(x) for x in v)
    if isinstance(v, (list, tuple)):
        return [_plain(x) for x in v]
    return v


def inst_key(kind, inst, real=None):
    """identifies the failing input: policy, instance and (unless it is the plain one) its realisation"""
    key = kind + ":" + json.dumps(inst, sort_keys=True, separators=(",", ":"))
    if real and real != default_realisation(inst):
        key += "|" + json.dumps(real, sort_keys=True, separators=(",", ":"))
    return key


def inst_size(inst):
    return (len(inst["tasks"]), len(inst["pools"]), sum(len(t["strats"]) for t in inst["tasks"]), json.dumps(inst))


def judge(part, recs, fails, phase, gating=True):
    """Turn TLC's per-record findings into verdicts / counted notes."""
    by_id = {r["id"]: r for r in recs}
    for rid, cl in sorted(fails.items()):
        rec = by_id[rid]
        harness = sorted(c for c in cl if c.startswith("harness."))
        if harness:
            raise tlc.TLCMachineryError(f"{phase}: record {rid} fails {harness}: {json.dumps(rec)[:1500]}")
        detail = {
            "phase": phase, "kind": rec["kind"], "inst": rec["inst"], "real": rec["real"],
            "call": f"{rec['kind']}Scheduler.schedule(now={rec['seen']['now']['n']}{rec['seen']['now']['u'].lower()})",
            "seen": rec["seen"], "listed": rec["listed"],
            "got": rec["ans"], "failed_clauses": sorted(cl), "expected": _plain(cl.get(GATING) or cl.get("C13.plan_eq")),
            "info": rec.get("_info", {}),
        }
        if GATING in cl and gating:
            part["viol"].append(detail)
        for c in cl:
            if gating and c in (GATING, "model.coded_eq"):  # coded_eq is only of interest outside the gating bound
                continue
            name = c if gating else f"explore:{c}"
            n = part["resync"].setdefault(name, {"count": 0, "samples": []})
            n["count"] += 1
            if len(n["samples"]) < 2:
                n["samples"].append(detail)
        if not gating and set(cl) - {"model.coded_eq"}:
            combo = f"{rec['kind']}: " + "+".join(sorted(c for c in cl if c != "model.coded_eq"))
            part["info"][combo] = part["info"].get(combo, 0) + 1
    for rec in recs:
        for k in rec.get("_info", {}):
            part["info"][k] = part["info"].get(k, 0) + 1


def _new_part():
    return {"viol": [], "resync": {}, "info": {}, "stats": [0] * len(STAT_NAMES), "n": 0, "tlc_s": 0.0, "real_s": 0.0, "skipped": [], "samples": []}


def _records_job(phase, tag, b, items, id0, gating=True):
    """worker process: realize the items, have TLC judge the records"""
    part = _new_part()
    t0 = time.time()
    recs, skipped = make_records(items, id0)
    part["real_s"] = time.time() - t0
    part["info"]["could_not_build"] = sum(1 for x in skipped if "could_not_build" in x)
    part["info"]["not_offered"] = len(skipped) - part["info"]["could_not_build"]
    part["skipped"] = [x for x in skipped if "could_not_build" in x][:1] + [x for x in skipped if "could_not_build" not in x][:2]
    fails, st, wall = check_records(recs, b)
    part["stats"] = list(st)
    part["n"] = len(recs)
    part["tlc_s"] = wall
    judge(part, recs, fails, f"{phase}/{tag}", gating)
    interesting = [r for r in recs if any(not p["placed"] for p in r["ans"]["place"]) and any(p["placed"] for p in r["ans"]["place"])]
    for r in interesting[:1]:
        part["samples"].append({"phase": f"{phase}/{tag}", "kind": r["kind"], "inst": r["inst"], "answer": r["ans"], "verdict": sorted(fails.get(r["id"], {})) or "all clauses hold"})
    return tag, part


def record_jobs(phase, specs, batch):
    """specs: [(tag, bound, items, gating)] -> jobs of at most `batch` records"""
    jobs, id0 = [], 0
    for tag, b, items, gating in specs:
        for chunk in _chunks(items, (len(items) + batch - 1) // batch):
            if chunk:
                jobs.append((len(chunk) * 12 + 4000, _records_job, (phase, tag, b, chunk, id0, gating)))
                id0 += len(chunk)
    return jobs


def absorb_records(res, phase, outs):
    """outs: [(tag, part)]"""
    tot = _new_part()
    per_tag = {}
    for tag, p in outs:
        tot["viol"] += p["viol"]
        tot["n"] += p["n"]
        tot["tlc_s"] += p["tlc_s"]
        tot["real_s"] += p["real_s"]
        tot["skipped"] += p["skipped"]
        tot["samples"] += p["samples"][:1] if tag not in per_tag else []
        per_tag.setdefault(tag, [0] * len(STAT_NAMES))
        per_tag[tag] = [a + b for a, b in zip(per_tag[tag], p["stats"])]
        for k, v in p["info"].items():
            tot["info"][k] = tot["info"].get(k, 0) + v
        for c, n in p["resync"].items():
            t = tot["resync"].setdefault(c, {"count": 0, "samples": []})
            t["count"] += n["count"]
            t["samples"] = (t["samples"] + n["samples"])[:2]
    res.traces_validated += tot["n"]
    ev = res.extra.setdefault("records", {})
    ev[phase] = {
        "records": tot["n"],
        "by_slice": {t: dict(zip(STAT_NAMES, s)) for t, s in per_tag.items()},
        "real_s_cpu": round(tot["real_s"], 1),
        "tlc_s_cpu": round(tot["tlc_s"], 1),
        "harness_info": {k: v for k, v in tot["info"].items() if v},
    }
    for c, n in tot["resync"].items():
        e = res.extra.setdefault("resync", {}).setdefault(c, {"count": 0, "samples": []})
        e["count"] += n["count"]
        e["samples"] = (e["samples"] + n["samples"])[:2]
    res.samples += tot["samples"][:3]
    if tot["info"].get("could_not_build"):
        first = next(x for x in tot["skipped"] if "could_not_build" in x)
        res.notes.append(f"{phase}: {tot['info']['could_not_build']} instances could not be built on the real objects (not judged), e.g. {json.dumps(first)[:1500]}")
    if tot["info"].get("not_offered"):
        res.notes.append(f"{phase}: {tot['info'].get('not_offered', 0)} calls could not be judged (tasks not offered by get_schedulable_tasks, or a placement naming a pool / strategy outside the instance; C18 / C10 territory), e.g. {next((x for x in tot['skipped'] if 'could_not_build' not in x), None)}")
    # smallest failing instances first, one violation per distinct input
    seen = set()
    for d in sorted(tot["viol"], key=lambda d: inst_size(d["inst"])):
        k = inst_key(d["kind"], d["inst"], d.get("real"))
        if k in seen:
            continue
        seen.add(k)
        if len(seen) > 25:
            break
        inv = d["expected"].get("inverted") if isinstance(d["expected"], dict) else None
        res.violate(
            GATING,
            f"{d['kind']}Scheduler left task(s) {inv} unplaced although a strategy fits a pool once the placed tasks of higher-or-equal priority are accounted for ({d['phase']})",
            d, key=k,
        )
    res.extra["violating_records"] = res.extra.get("violating_records", 0) + len(tot["viol"])
    return tot


def run_jobs(jobs, procs):
    """jobs: [(cost, fn, args)]; most expensive first.  Returns results in the given order.
    (common.parallel with a worker initializer, see _worker_init.)"""
    order = sorted(range(len(jobs)), key=lambda i: -jobs[i][0])
    calls = [(jobs[i][1].__name__, jobs[i][2]) for i in order]
    if len(calls) <= 1:
        outs = [_dispatch(c) for c in calls]
    else:
        with mp.get_context("fork").Pool(min(procs, len(calls)), initializer=_worker_init) as pool:
            outs = pool.map(_dispatch, calls, chunksize=1)
    res = [None] * len(jobs)
    for i, o in zip(order, outs):
        res[i] = o
    return res


def _worker_init():
    """run.py's SIGTERM handler (raise SystemExit) is inherited through fork.  Pool.terminate()
    keeps the task queue's lock and SIGTERMs the idle workers: with a Python-level handler a
    worker whose signal is taken by another (BLAS) thread sleeps on that lock forever and the
    parent waits for it.  Idle workers die the default way; the handler is armed while a job runs."""
    signal.signal(signal.SIGTERM, signal.SIG_DFL)


def _job_killed(signum, frame):
    raise SystemExit(2)  # unwinding removes the scratch directories and the TLC child


def _dispatch(call):
    name, args = call
    in_worker = mp.current_process().name != "MainProcess"
    if in_worker:
        signal.signal(signal.SIGTERM, _job_killed)
    try:
        return globals()[name](*args)
    finally:
        if in_worker:
            signal.signal(signal.SIGTERM, signal.SIG_DFL)


# ---------------------------------------------------------------------------
# T: larger random instances


def random_instance(r, max_tasks=8, workers=(1,), nres=None, kind="EDF", partial=True, scale=None):
    """<= max_tasks tasks, ties, several strategies, 1-4 pools.  With `partial`, a third of
    the instances contain PREEMPTED tasks (remaining time below the slowest strategy's
    runtime) and a quarter of the EDF / LSF ones are preemptive with RUNNING tasks.
    Times: small numbers times `scale` microseconds (None: 1 / 1000 / 10^6, seeded), half of
    the scaled instances with values off the grid (scale_instance)."""
    nres = nres or r.choice((1, 2, 2, 2))
    now = r.randint(2, 5)
    pre = partial and kind != "FIFO" and workers == (1,) and r.random() < 0.25
    pools = []
    for _ in range(r.randint(1, 4)):
        cap, av = [], []
        for _w in range(r.choice(workers)):
            c = [r.randint(0, 3) for _ in range(nres)]
            cap.append(c)
            av.append(list(c) if pre else [r.randint(0, x) for x in c])
        pools.append({"cap": cap, "av": av})
    n = r.randint(2, max_tasks)
    graphs, g_used = [], []
    while len(graphs) < n:
        g = r.choice([x for x in range(10) if x not in g_used])
        g_used.append(g)
        graphs += [g] * r.randint(1, 3)
    graphs = graphs[:n]
    if pre:
        # Workload.get_schedulable_tasks(preemption=True) appends the placed tasks once per
        # task graph: with one graph the running tasks are offered exactly once
        graphs = [graphs[0]] * n
    dl = r.choice((2, 3, 5))
    tasks = []
    for g in graphs:
        strats = []
        for _ in range(r.choice((1, 1, 2, 2, 3))):
            dem = [r.choice((0, 1, 1, 2)) for _ in range(nres)]
            if not any(dem):
                dem[r.randrange(nres)] = 1
            strats.append(_st(dem, r.randint(1, 4)))
        tasks.append({"deadline": now + r.randint(0, dl), "release": r.randint(max(0, now - dl), now), "graph": g, "strats": strats, "ran": dict(FRESH)})
    if partial and (pre or r.random() < 0.35):
        running = []
        for t in tasks:
            if r.random() < 0.4:
                s = r.randint(1, len(t["strats"]))
                done = r.randint(0, min(t["strats"][s - 1]["rt"] - 1, now - t["release"]))
                t["ran"] = {"s": s, "done": done, "on": 0}
                if pre and r.random() < 0.6:  # leave it RUNNING on the first pool that still has room
                    dem = t["strats"][s - 1]["dem"]
                    for pi, p in enumerate(pools):
                        if all(a >= d for a, d in zip(p["av"][0], dem)):
                            p["av"][0] = [a - d for a, d in zip(p["av"][0], dem)]
                            t["ran"]["on"] = pi + 1
                            running.append(t)
                            break
        # the running tasks are offered last, pool by pool
        tasks = [t for t in tasks if not t["ran"]["on"]] + sorted(running, key=lambda t: t["ran"]["on"])
    inst = {"now": now, "preemptive": pre, "tasks": tasks, "pools": pools}
    if scale is None:
        scale = r.choice((1, MS, MS, MS, SEC, SEC))
        return scale_instance(inst, scale, r if r.random() < 0.5 else None)
    return scale_instance(inst, scale)


# ---------------------------------------------------------------------------
# W: pools with several workers, gating (round 5).  A pool-level Placement does not name the
# worker: Greedy!InvertedK judges an unplaced task on such a pool only if it has room under
# EVERY assignment of the placed higher-or-equal-priority tasks to the pool's workers that is
# consistent with their reported strategies (the policy's own choice is one of them).


def directed_multi_worker():
    """hand-written instances: a pool whose workers' free resources differ (W1 cpu, W2 gpu), a task
    H that prefers the gpu and falls back to the cpu, M that needs the cpu, L that needs the gpu;
    priorities H > M > L under all three policies (deadline, release, slack).  Variants: worker
    order, a third worker, partially occupied workers, a second pool, ties, offer order."""
    gpu_cpu, cpu, gpu = [_st([0, 1], 1), _st([1, 0], 4)], [_st([1, 0], 1)], [_st([0, 1], 1)]
    cpu_gpu = [_st([1, 0], 1), _st([0, 1], 4)]

    def task(level, strats):
        return {"deadline": 5 + level, "release": level, "graph": 0, "strats": strats, "ran": dict(FRESH)}

    def three(a, b, c):
        return [task(0, a), task(1, b), task(2, c)]

    free = lambda avs: _mpool(avs, [1, 1])  # noqa: E731
    out = []
    for tasks in (three(gpu_cpu, cpu, gpu), [task(0, gpu_cpu), task(1, cpu)], [task(0, gpu_cpu), task(0, cpu), task(0, gpu)]):
        out.append({"tasks": tasks, "pools": [free([[1, 0], [0, 1]])]})
        out.append({"tasks": list(reversed(tasks)), "pools": [free([[1, 0], [0, 1]])]})
        out.append({"tasks": tasks, "pools": [free([[1, 0], [0, 0], [0, 1]])]})
        out.append({"tasks": tasks, "pools": [_mpool([[1, 0], [0, 1]])]})  # capacity 2, partially occupied
        out.append({"tasks": tasks, "pools": [_pool([0, 0]), free([[1, 0], [0, 1]])]})
    # mirrored: the preferred strategy fits only the second worker's cpu
    out.append({"tasks": three(cpu_gpu, gpu, cpu), "pools": [free([[0, 1], [1, 0]])]})
    out.append({"tasks": three(cpu_gpu, gpu, cpu) + [task(2, gpu_cpu)], "pools": [free([[0, 1], [1, 0]]), free([[0, 1], [0, 0]])]})
    # first fit inside the pool decides whether the last task fits: not judged, whatever the worker
    out.append({"tasks": [task(0, cpu), task(1, [_st([2, 0], 1)])], "pools": [_mpool([[2, 0], [1, 1]])]})
    out.append({"tasks": [task(0, cpu), task(1, [_st([2, 0], 1)])], "pools": [_mpool([[1, 1], [2, 0]])]})
    return [scale_instance({"now": 2, "preemptive": False, **i}, MS) for i in out]


def multi_worker_specs(q, small, large, scale):
    """[(tag, bound, items, gating)]: the directed instances, the 'mw' slice of the bound (quick: a
    sample; thorough: all of it + a sample of the large one), a slice of the random exploration"""
    specs = []
    rr = rng("c13-real-W-directed")
    items = []
    for inst in directed_multi_worker():
        for kind in KINDS:
            items.append((kind, inst, False, None))
            items.append((kind, inst, False, realisation(inst, rr)))
    specs.append(("directed", NO_BOUND, items, True))
    for name, bounds, n in (("mw", small, 200 if q else None), ("large-mw", large, int(4000 * scale))):
        b = bounds.get("mw")
        if b:
            insts = sample_bound(b, n, rng(f"c13-W-{name}")) if n else list(enumerate_bound(b))
            rr = rng(f"c13-real-W-{name}")
            specs.append((name, b, [(kind, i, True, realisation(i, rr)) for i in insts for kind in b["Kinds"]], True))
    r = rng("c13-W-random")
    rr = rng("c13-real-W-random")
    items = []
    for i in range(300 if q else int(9000 * scale)):
        inst = random_instance(r, 4, workers=(1, 2, 2, 3), partial=False, scale=MS)
        items.append((KINDS[i % 3], inst, False, realisation(inst, rr) if i % 2 else None))
    specs.append(("random", NO_BOUND, items, True))
    return specs


# ---------------------------------------------------------------------------
# X: pools with several workers, exact-plan comparison (notes only)


def explore_bound():
    st = [
        [_st([1, 0], 1)],
        [_st([0, 1], 1)],
        [_st([1, 0], 1), _st([0, 2], 2)],
        [_st([2, 0], 1), _st([1, 0], 2)],
    ]
    two = [{"cap": [[2, 2], [2, 2]], "av": [a, b]} for a, b in (([0, 2], [1, 0]), ([1, 0], [2, 0]), ([1, 1], [0, 1]))]
    return dict(
        Kinds=["LSF"], Now=2, MaxTasks=2,
        KeyProfiles=[{"deadline": 5, "release": 0, "graph": 0}, {"deadline": 6, "release": 0, "graph": 0}],
        StratLists=st, PoolSeqs=[[p] for p in two],
    )


def explore_jobs(tier):
    b = explore_bound()
    jobs = [(3000, _enum_job, (f"x/{inv}/0", b, None, [inv])) for inv in ("CodedIsPlan", "CodedNoInversion", "CodedFeasible")]
    r = rng("c13-explore")
    items = [(KINDS[i % 3], random_instance(r, 5, workers=(1, 2, 2), partial=False, scale=1), False) for i in range(3000)]
    return jobs, record_jobs("X-multi-worker", [("random", NO_BOUND, items, False)], 1500)


def absorb_explore(res, enum_outs, rec_outs):
    """LSF calls place_task(task) without a strategy.  With several workers per pool
    the pool may allocate another strategy (on another worker) than the one reported."""
    found = []
    for o in enum_outs:
        entry = {"invariant": o["tag"].split("/")[1], "instances_before_counterexample": o["distinct"], "holds": o["ok"]}
        if not o["ok"] and o["cex"]:
            inst = o["cex"]["inst"]
            entry["tlc_counterexample"] = inst
            # confirm on the real scheduler: the real answer must be the coded plan and must fail the clause
            recs, _ = make_records([("LSF", inst, False)], 0)
            fails, _, _ = check_records(recs, NO_BOUND)
            cl = sorted(fails.get(0, {}))
            entry["real_answer"] = recs[0]["ans"]
            entry["real_answer_fails"] = cl
            entry["real_answer_is_coded_plan"] = "model.coded_eq" not in cl
        found.append(entry)
    res.extra["multi_worker_exploration"] = {"bound": "LSF, <= 2 tasks, one pool of two workers (outside the gating bound)", "tlc": found}
    tot = absorb_records(res, "X-multi-worker", rec_outs)
    by = {c: n["count"] for c, n in tot["resync"].items()}
    bad = [e for e in found if not e["holds"]]
    if bad:
        res.notes.append(
            "outside the gating bound (pools with several workers): LSFScheduler allocates virtually with "
            "worker_pool.place_task(task) (workers outer, strategies inner) but reports the loop's strategy; TLC finds "
            f"instances where {[e['invariant'] for e in bad]} fail for the algorithm as written, confirmed on the real scheduler: "
            + json.dumps(bad[-1])[:1200]
        )
    combos = {k: v for k, v in tot["info"].items() if ": " in k and v}
    res.notes.append(
        f"multi-worker random records ({tot['n']}, notes only, not gated): failing clause combinations per policy {combos}. "
        "C13.no_inversion is judged over every consistent assignment of the placed tasks to the pool's workers (phase W gates "
        "it); C13.plan_eq / model.coded_eq compare with the exact plan / with the plan of a strategy-less place_task."
    )


# ---------------------------------------------------------------------------


def run(tier: str) -> CheckResult:
    res = CheckResult("C13", tier)
    q = tier == "quick"
    procs = 18 if q else 16
    res.assumptions = [
        "a worker lists one or two resource instances per name; pools with several workers (phase W, slice 'mw'): the Placement "
        "does not name the worker, an unplaced task is an inversion there only if it has room under every assignment of the placed "
        "higher-or-equal-priority tasks to the pool's workers that is consistent with their reported strategies (the policy's own "
        "first-fit choice is one of them, so the clause cannot fire on a correct policy; it is weaker than the statement where the "
        "assignments disagree - counted, not judged); demands use the "
        "wildcard id ('any'); Greedy!VectorModelOK / VectorModelSplitOK tie the vector model (one quantity per name) to "
        "LedgerOps (FitsEach = CanAllocMulti = pointwise >= on the sums per name, before and after an allocation)",
        "all instance times are microseconds; the real objects carry each time in a unit (US / MS / S) that divides it, chosen "
        "per field (seeded); Greedy!RealisationOK converts what is read back (EventTime.time, .unit) to the instance's values",
        "tasks are RELEASED with release <= now; the offer order is what Workload.get_schedulable_tasks returns (read back "
        "from the real workload for every instance)",
        "task-graph names are g<digit>, so string order equals the numeric order the spec uses in EDF's secondary key",
        "M is exhaustive only for the bounds in harness/c13.py:slices(); R replays a seeded sample of the small bound in "
        "quick, all of it plus a sample of the large bound in thorough",
        "priority ties: a placed task of equal key counts as 'higher or equal priority' for an unplaced one (statement)",
        "C13.plan_eq / C13.order_key / side.* are stricter than the statement: counted under coverage.resync, never a violation",
    ]
    scale = float(os.environ.get("VERIF_C13_SCALE", "1"))  # development knob: < 1 shrinks the thorough tier
    small = slices("small")
    large = {} if q else slices("large" if scale >= 1 else "small")
    inv = ["Theorem", "CodedIsPlan"]
    # development knob: VERIF_C13_PHASES=RT runs only the phases named (default all)
    phases = os.environ.get("VERIF_C13_PHASES", "MRTWX").upper()
    t0 = time.time()
    # ---- M
    # (the 'mw' slice has pools with several workers: CodedIsPlan - the strategy-less place_task - is not claimed there)
    sw = lambda bs: {t: b for t, b in bs.items() if t != "mw"}  # noqa: E731
    mw = lambda bs: {t: b for t, b in bs.items() if t == "mw"}  # noqa: E731
    m_jobs = enum_jobs(sw(small), lambda tag, b: {"fit": 3, "lsf": 3, "pre": 1}.get(tag, 2), inv, "small")
    m_jobs += enum_jobs(mw(small), lambda tag, b: 2, ["Theorem"], "small")
    m_jobs += enum_jobs(sw(large), lambda tag, b: 16, inv, "large")
    m_jobs += enum_jobs(mw(large), lambda tag, b: 16, ["Theorem"], "large")
    if "M" not in phases:
        m_jobs = []
    # ---- R
    r_specs = []
    for tag, b in sw(small).items():
        if q:
            insts = sample_bound(b, {"fit": 500, "pre": 300, "lsf": 800}.get(tag, 700), rng(f"c13-R-{tag}"))
        else:
            insts = list(enumerate_bound(b))
        rr = rng(f"c13-real-{tag}")
        r_specs.append((tag, b, [(kind, i, True, realisation(i, rr)) for i in insts for kind in b["Kinds"]], True))
    for tag, b in sw(large).items():
        insts = sample_bound(b, int(10000 * scale), rng(f"c13-RL-{tag}"))
        rr = rng(f"c13-real-large-{tag}")
        r_specs.append((f"large-{tag}", b, [(kind, i, True, realisation(i, rr)) for i in insts for kind in b["Kinds"]], True))
    r_jobs = record_jobs("R", r_specs if "R" in phases else [], 2000 if q else 4000)
    res.extra["R_instances"] = sum(len(sp[2]) // len(sp[1]["Kinds"]) for sp in r_specs)
    # ---- T
    r = rng("c13-T")
    rr = rng("c13-real-T")
    items = [(KINDS[i % 3], random_instance(r, kind=KINDS[i % 3]), False) for i in range(1200 if q else int(40000 * scale))]
    items = [(kind, i, bound, realisation(i, rr)) for kind, i, bound in items]
    t_jobs = record_jobs("T", [("random", NO_BOUND, items, True)] if "T" in phases else [], 1200 if q else 4000)
    # ---- W
    w_specs = multi_worker_specs(q, small, large, scale) if "W" in phases else []
    w_jobs = record_jobs("W-multi-worker", w_specs, 1000 if q else 4000)
    # ---- X
    xe_jobs, xr_jobs = ([], []) if q or "X" not in phases else explore_jobs(tier)
    jobs = m_jobs + r_jobs + t_jobs + w_jobs + xe_jobs + xr_jobs
    outs = run_jobs(jobs, procs)
    k = 0
    parts = []
    for grp in (m_jobs, r_jobs, t_jobs, w_jobs, xe_jobs, xr_jobs):
        parts.append(outs[k : k + len(grp)])
        k += len(grp)
    counts = absorb_enum(res, parts[0])
    for tag, b in small.items():
        want = count_bound(b) * len(b["Kinds"])
        if m_jobs and counts.get(f"small/{tag}") != want:
            raise tlc.TLCMachineryError(f"bound {tag}: TLC enumerated {counts.get('small/' + tag)} states, the harness counts {want}")
    absorb_records(res, "R", parts[1])
    if not q and m_jobs and r_jobs:
        for tag, b in sw(small).items():
            got = res.extra["records"]["R"]["by_slice"][tag]["records"]
            if got != counts[f"small/{tag}"]:
                raise tlc.TLCMachineryError(f"R replayed {got} records of bound {tag}, TLC enumerated {counts['small/' + tag]}")
    absorb_records(res, "T", parts[2])
    if w_jobs:
        absorb_records(res, "W-multi-worker", parts[3])
        by = res.extra["records"]["W-multi-worker"]["by_slice"]
        res.extra["multi_worker_gating"] = {
            "clause": "Greedy!InvertedK on a pool with several workers: the unplaced task has room under EVERY assignment of the "
            "placed tasks of higher-or-equal priority to the pool's workers that is consistent with their reported strategies",
            "by_slice": {t: {"records": st["records"], **{k: st[k] for k in MW_ONLY}} for t, st in by.items()},
        }
        empty = [f"{t}:{k}" for t, st in by.items() for k in MW_ONLY if not st[k]]
        if empty:
            raise tlc.TLCMachineryError(f"multi-worker classes not exercised: {empty}")
    if xe_jobs:
        absorb_explore(res, parts[4], parts[5])
    # the realisation classes of round 4: counted by Greedy!UnitStats, per slice (edf / fifo / lsf are
    # single-policy slices) - a slice without a record that tells a unit-blind policy apart is vacuous
    summary = {}
    for phase, ev in res.extra.get("records", {}).items():
        if phase.startswith(("X", "W")):
            continue
        for tag, st in ev["by_slice"].items():
            summary[f"{phase}/{tag}"] = {"records": st["records"], **{k: st[k] for k in UNIT_ONLY}}
    res.extra["realisation"] = {
        "time_units": "every time of the real objects in US / MS / S (a unit that divides it), chosen per field",
        "resource_instances": "a worker lists a name as one instance or as two (ids c0, c1)",
        "by_slice": summary,
    }
    vacuous = [f"{t}:{k}" for t, st in summary.items() for k in UNIT_ONLY if st["records"] >= 300 and not st[k]]
    if vacuous:
        raise tlc.TLCMachineryError(f"realisation classes not exercised: {vacuous}")
    unbuilt = {ph: ev["harness_info"]["could_not_build"] for ph, ev in res.extra.get("records", {}).items() if ev["harness_info"].get("could_not_build")}
    if unbuilt and not res.violations:
        raise tlc.TLCMachineryError(f"instances that could not be built on the real objects: {unbuilt}; see the notes of the evidence")
    rs = res.extra.get("resync", {})
    if rs:
        res.notes.append(
            "spec.resync (stricter than the statement, or outside the gating bound; not violations): "
            + ", ".join(f"{c} x{n['count']}" for c, n in sorted(rs.items()))
        )
    if phases != "MRTWX" or scale != 1:
        res.notes.append(f"partial run: VERIF_C13_PHASES={phases} VERIF_C13_SCALE={scale}")
    res.extra["jobs"] = {"M": len(m_jobs), "R": len(r_jobs), "T": len(t_jobs), "W": len(w_jobs), "X": len(xe_jobs) + len(xr_jobs), "processes": procs}
    res.extra["wall_all_jobs_s"] = round(time.time() - t0, 1)
    return res


def replay(d) -> int:
    """run.py --replay: run the stored instance again on the real scheduler and let TLC judge it."""
    det = d.get("detail", {})
    if not det.get("inst") or not det.get("kind"):
        return 0
    recs, _ = make_records([(det["kind"], det["inst"], False, det.get("real"))], 0)
    fails, _, _ = check_records(recs, NO_BOUND)
    print(json.dumps({"answer_now": recs[0]["ans"], "failed_clauses_now": _plain(fails.get(0, {}))}, indent=1, default=str))
    return 1 if GATING in fails.get(0, {}) else 0
