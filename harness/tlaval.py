"""TLA+ value <-> Python value conversion.

`parse(text)` turns the textual form TLC prints for a value (in dot dumps,
`-simulate file=` behaviours, PrintT output and error traces) into Python:

  integers  -> int            strings  -> str         TRUE/FALSE -> bool
  <<...>>   -> list           {...}    -> frozenset   a..b -> frozenset(range)
  [a |-> v] -> dict (str keys)
  (k :> v @@ ...) -> dict (arbitrary hashable keys; lists become tuples as keys)
  model values / identifiers -> MV(name)

`to_tla(value)` prints a Python value as a TLA+ expression (dict with all-str
keys -> record, other dict -> :> / @@ function, list/tuple -> sequence,
set/frozenset -> set, bool, int, str).
"""
from __future__ import annotations


class MV(str):
    """A model value / bare identifier."""

    def __repr__(self):
        return f"MV({str.__repr__(self)})"


class ParseError(Exception):
    pass


def _freeze(v):
    if isinstance(v, list):
        return tuple(_freeze(x) for x in v)
    if isinstance(v, dict):
        return tuple(sorted(((_freeze(k), _freeze(x)) for k, x in v.items()), key=repr))
    if isinstance(v, (set, frozenset)):
        return frozenset(_freeze(x) for x in v)
    return v


class _P:
    def __init__(self, s: str):
        self.s = s
        self.i = 0
        self.n = len(s)

    def ws(self):
        while self.i < self.n and self.s[self.i] in " \t\r\n":
            self.i += 1

    def peek(self, k=1):
        return self.s[self.i : self.i + k]

    def expect(self, tok):
        self.ws()
        if not self.s.startswith(tok, self.i):
            raise ParseError(f"expected {tok!r} at {self.i}: {self.s[self.i:self.i+40]!r}")
        self.i += len(tok)

    def value(self):
        self.ws()
        if self.i >= self.n:
            raise ParseError("unexpected end")
        c = self.s[self.i]
        if self.s.startswith("<<", self.i):
            self.i += 2
            out = []
            self.ws()
            if self.s.startswith(">>", self.i):
                self.i += 2
                return out
            while True:
                out.append(self.value())
                self.ws()
                if self.s.startswith(">>", self.i):
                    self.i += 2
                    return out
                self.expect(",")
        if c == "{":
            self.i += 1
            out = []
            self.ws()
            if self.peek() == "}":
                self.i += 1
                return frozenset()
            while True:
                out.append(_freeze(self.value()))
                self.ws()
                if self.peek() == "}":
                    self.i += 1
                    return frozenset(out)
                self.expect(",")
        if c == "[":
            self.i += 1
            out = {}
            self.ws()
            if self.peek() == "]":
                self.i += 1
                return out
            while True:
                self.ws()
                j = self.i
                while self.i < self.n and (self.s[self.i].isalnum() or self.s[self.i] == "_"):
                    self.i += 1
                key = self.s[j : self.i]
                if not key:
                    raise ParseError(f"record field expected at {j}: {self.s[j:j+40]!r}")
                self.expect("|->")
                out[key] = self.value()
                self.ws()
                if self.peek() == "]":
                    self.i += 1
                    return out
                self.expect(",")
        if c == "(":
            self.i += 1
            out = {}
            while True:
                k = self.value()
                self.expect(":>")
                v = self.value()
                out[_freeze(k)] = v
                self.ws()
                if self.peek() == ")":
                    self.i += 1
                    return out
                self.expect("@@")
        if c == '"':
            self.i += 1
            buf = []
            while True:
                if self.i >= self.n:
                    raise ParseError("unterminated string")
                ch = self.s[self.i]
                if ch == "\\":
                    nxt = self.s[self.i + 1]
                    buf.append({"n": "\n", "t": "\t", '"': '"', "\\": "\\"}.get(nxt, nxt))
                    self.i += 2
                    continue
                if ch == '"':
                    self.i += 1
                    return "".join(buf)
                buf.append(ch)
                self.i += 1
        if c == "-" or c.isdigit():
            j = self.i
            self.i += 1
            while self.i < self.n and self.s[self.i].isdigit():
                self.i += 1
            v = int(self.s[j : self.i])
            self.ws()
            if self.s.startswith("..", self.i):
                self.i += 2
                hi = self.value()
                return frozenset(range(v, hi + 1))
            return v
        if c.isalpha() or c == "_":
            j = self.i
            while self.i < self.n and (self.s[self.i].isalnum() or self.s[self.i] == "_"):
                self.i += 1
            w = self.s[j : self.i]
            if w == "TRUE":
                return True
            if w == "FALSE":
                return False
            return MV(w)
        raise ParseError(f"unexpected {c!r} at {self.i}: {self.s[self.i:self.i+40]!r}")


def parse(text: str):
    p = _P(text)
    v = p.value()
    p.ws()
    if p.i != p.n:
        raise ParseError(f"trailing text at {p.i}: {text[p.i:p.i+40]!r}")
    return v


def extract_tagged(text: str, tag: str):
    """All values TLC printed (PrintT) of the form <<"tag", ...>> anywhere in `text`, even when TLC
    wrapped them over several lines.  Returns a list of Python lists."""
    out = []
    needle = '"' + tag + '"'
    i = 0
    while True:
        k = text.find(needle, i)
        if k < 0:
            return out
        j = text.rfind("<<", 0, k)
        if j < 0 or text[j + 2 : k].strip() != "":
            i = k + len(needle)
            continue
        p = _P(text)
        p.i = j
        try:
            out.append(p.value())
            i = p.i
        except ParseError:
            i = k + len(needle)


def parse_state(text: str) -> dict:
    """Parse a TLC state `/\\ v1 = e1 \\n /\\ v2 = e2 ...` into {var: value}."""
    p = _P(text)
    out = {}
    while True:
        p.ws()
        if p.i >= p.n:
            return out
        if p.s.startswith("/\\", p.i):
            p.i += 2
        p.ws()
        j = p.i
        while p.i < p.n and (p.s[p.i].isalnum() or p.s[p.i] == "_"):
            p.i += 1
        name = p.s[j : p.i]
        if not name:
            raise ParseError(f"variable name expected at {j}: {text[j:j+40]!r}")
        p.expect("=")
        out[name] = p.value()


def to_tla(v) -> str:
    if isinstance(v, bool):
        return "TRUE" if v else "FALSE"
    if isinstance(v, MV):
        return str(v)
    if isinstance(v, int):
        return str(v) if v >= 0 else f"({v})"
    if isinstance(v, str):
        return '"' + v.replace("\\", "\\\\").replace('"', '\\"') + '"'
    if isinstance(v, (list, tuple)):
        return "<<" + ", ".join(to_tla(x) for x in v) + ">>"
    if isinstance(v, (set, frozenset)):
        return "{" + ", ".join(sorted(to_tla(x) for x in v)) + "}"
    if isinstance(v, dict):
        if not v:
            return "<<>>"
        if all(isinstance(k, str) and not isinstance(k, MV) and k.isidentifier() for k in v):
            return "[" + ", ".join(f"{k} |-> {to_tla(x)}" for k, x in v.items()) + "]"
        return "(" + " @@ ".join(f"{to_tla(k)} :> {to_tla(x)}" for k, x in v.items()) + ")"
    if v is None:
        return "NULL"
    raise TypeError(f"cannot print {type(v)} as TLA+")


def split_call(label: str):
    """`Alloc("a",1)` -> ("Alloc", ["a", 1]); `Tick` -> ("Tick", [])."""
    label = label.strip()
    if "(" not in label:
        return label, []
    name, rest = label.split("(", 1)
    assert rest.endswith(")"), label
    inner = rest[:-1].strip()
    if not inner:
        return name, []
    args = parse("<<" + inner + ">>")
    return name, args
