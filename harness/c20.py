"""C20 — STRL compilation: every model solution is a valid space-time allocation.

R/T: STRL DAGs are generated (systematic families + seeded random; thorough: all trees
     of a stated bound), compiled by the *real* C++ lowering through strl_driver (real
     passes, real parse()), the dumped linear model is solved / enumerated from Python
     (z3 projection on the decision variables, Gurobi for the optimum), every solution
     is pushed back through the real populateResults(), and TLC evaluates spec/Strl.tla
     on every (tree, model, solution, read-back) record:
       C20.model_sat  C20.capacity  C20.choose_exact  C20.unsat_nothing  C20.min_all
       C20.max_one  C20.lessthan  C20.utility_eq          (per solution)
       C20.best_eq  C20.pass_invariant  C20.coarse_le     (per tree, Best(tree) by brute force)
Python never judges a placement: it generates inputs, moves JSON and names nodes.
"""
from __future__ import annotations

import hashlib
import json
import os
import re
import time

from . import c20_driver, c20_gen, c20_solve, mcgen, tlc
from .common import CheckResult, Scratch, parallel, rng, seed

PASS_NAMES = ["critical_path", "capacity_purge"]  # bit 0, bit 1
CONV_TRIVIAL_MIN_BONUS = 1  # MinExpression::parse: `minUtility->addTerm(1)` when no child is enforceable

TIERS = {
    "quick": {"sol_cap": 40, "extremal": 3, "gs": (1, 2, 3), "chunk": 20, "procs": 14, "random": 70, "bound": None},
    "thorough": {"sol_cap": 150, "extremal": 6, "gs": (1, 2, 3), "chunk": 160, "procs": 15, "random": 1500, "bound": "B3"},
}


def _mask_passes(mask):
    return [PASS_NAMES[b] for b in range(len(PASS_NAMES)) if mask & (1 << b)]


# ---------------------------------------------------------------------------
# instances


def coarse_ok(tree, g):
    """May `tree` be compiled with discretisation g?  The library keys capacity slots by
    start + k*g, so its callers put every start on the absolute g-grid (the Python
    scheduler uses (now // g) * g + k*g); MalleableChoose counts slots of the
    discretisation, its demand is not comparable across g."""
    if g == 1:
        return True
    if tree["now"] % g:
        return False
    for n in tree["nodes"]:
        t = n["type"]
        if t == "MalleableChoose":
            return False
        if t in ("Choose", "Allocation") and n["start"] % g:
            return False
        if t == "WindowedChoose" and (n["start"] % g or n["end"] % g):
            return False
    return True


def make_job(tree, g, mask, solutions=None):
    nodes = []
    for n in tree["nodes"]:
        n2 = dict(n)
        if n["type"] == "WindowedChoose":
            n2["granularity"] = g * n["granularity"] if g > 1 else n["granularity"]
        nodes.append(n2)
    job = {
        "id": f"{tree['id']}/g{g}/p{mask}",
        "partitions": tree["partitions"],
        "nodes": nodes,
        "root": tree["root"],
        "current_time": tree["now"],
        "discretization": g,
        "passes": _mask_passes(mask),
    }
    if solutions is not None:
        job["solutions"] = solutions
    return job


def horizon(tree):
    h = tree["now"] + 1
    for n in tree["nodes"]:
        t = n["type"]
        if t in ("Choose", "Allocation"):
            h = max(h, n["start"] + n["duration"])
        elif t == "WindowedChoose":
            h = max(h, n["end"] + 2 + n["duration"])  # latest start is the next multiple of g <= 3 after `end`
        elif t == "MalleableChoose":
            h = max(h, n["end"] + n["granularity"])
    return h + 1


def tla_tree(tree):
    idx = {n["id"]: i + 1 for i, n in enumerate(tree["nodes"])}
    nodes = []
    for n in tree["nodes"]:
        nodes.append(
            {
                "k": n["type"],
                "name": n["name"],
                "ch": [idx[c] for c in n.get("children", [])],
                "ps": list(n.get("partitions", [])),
                "num": n.get("num", 0),
                "start": n.get("start", 0),
                "dur": n.get("duration", 0),
                "end": n.get("end", 0),
                "gran": n.get("granularity", 1),
                "slots": n.get("slots", 0),
                "util": n.get("utility", 0),
                "factor": n.get("factor", 1),
                "disr": 1 if n.get("disregard") else 0,
                "alloc": [list(a) for a in n.get("alloc", [])],
            }
        )
    assert [p["id"] for p in tree["partitions"]] == list(range(1, len(tree["partitions"]) + 1))
    return {
        "id": tree["id"],
        "now": tree["now"],
        "H": horizon(tree),
        "q": [p["quantity"] for p in tree["partitions"]],
        "root": idx[tree["root"]],
        "nodes": nodes,
    }


def tla_model(nm):
    cons = []
    for c in nm["cons"]:
        if not c["active"]:
            continue
        cons.append({"name": c["name"], "s": c["sense"], "rhs": c["rhs"], "t": [[co, ix + 1] for co, ix in c["terms"]]})
    return {
        "lb": [lb for _, lb, _ in nm["vars"]],
        "ub": [0 if ub is None else ub for _, _, ub in nm["vars"]],
        "hub": [0 if ub is None else 1 for _, _, ub in nm["vars"]],
        "cons": cons,
        "obj": [[co, ix + 1] for co, ix in nm["obj"]],
    }


def _intval(v, what):
    if v is None:
        return 0
    if abs(v - round(v)) > 1e-6 or abs(v) > 2_000_000_000:
        raise c20_solve.ModelShapeError(f"{what} {v} is not a small integer")
    return int(round(v))


def tla_rec(rid, tree, ti, mi, x, rb):
    # which leaf produced a reported placement?  Task names are shared by the options of a
    # task, so match the placement object against the ones the leaves report for themselves.
    named = {}
    for i, n in enumerate(tree["nodes"]):
        if n["type"] in ("Choose", "WindowedChoose", "MalleableChoose"):
            named.setdefault(n["name"], []).append((i + 1, n["id"]))
    pl = []
    root = rb["root"] or {"placements": {}, "utility": None}
    for name, p in root["placements"].items():
        if not p["placed"]:
            continue
        cands = named.get(name, [])
        leaf = 0
        if len(cands) == 1:
            leaf = cands[0][0]
        else:
            for li, nid in cands:
                own = (rb["nodes"].get(nid) or {}).get("placements", {}).get(name)
                if own == p:
                    leaf = li
                    break
        pl.append(
            {
                "leaf": leaf,
                "start": -1 if p["start"] is None else _intval(p["start"], "placement start"),
                "end": -1 if p["end"] is None else _intval(p["end"], "placement end"),
                "alloc": [[int(a), int(b), int(c)] for a, b, c in p["alloc"]],
            }
        )
    nclaim, nutil, nown = [], [], []
    for n in tree["nodes"]:
        s = rb["nodes"].get(n["id"])
        u = 0 if (s is None or s["utility"] is None) else _intval(s["utility"], "node utility")
        claimed = s is not None and s["type"] == "UTILITY" and s["utility"] is not None and u != 0
        nclaim.append(1 if claimed else 0)
        nutil.append(u)
        nown.append(1 if (s is not None and n["name"] in s["placements"] and s["placements"][n["name"]]["placed"]) else 0)
    return {
        "id": rid,
        "tree": ti,
        "model": mi,
        "x": x,
        "robj": _intval(rb.get("objective"), "objective"),
        "rutil": _intval(root["utility"], "root utility"),
        "pl": pl,
        "nclaim": nclaim,
        "nutil": nutil,
        "nown": nown,
    }


# ---------------------------------------------------------------------------
# naming of findings.  The ATTRIBUTION is made by TLC (spec/Strl.tla Part 3): a clause that
# fails under the specification is re-judged under the pinned-model variants of the known
# defects; the smallest explaining set of causes comes back in the checker line.


CAUSES = [
    "F1_lessthan_constant_times_untied",
    "F2_malleable_end_is_last_slot_start",
    "F3_lessthan_row_unconditional",
    "F4_critical_path_uint_underflow",
    "F6_critical_path_leaves_past_only_max",
    "F7_shared_subexpression_dead_without_passes",
    "F8_critical_path_treats_malleable_as_rigid",
]


def tree_hash(tree):
    return hashlib.sha1(c20_gen.canonical(tree).encode()).hexdigest()[:10]


def finding_keys(clause, causes, tree):
    """`C20:<cause>` for every cause TLC attributes the failure to (fixed vocabulary); a
    failure no pinned variant explains keeps a key of its own and is a new violation."""
    if causes == "unexplained":
        return [f"{clause}:unexplained:{tree_hash(tree)}"]
    out = []
    for c in causes.split("+"):
        if c not in CAUSES:
            raise tlc.TLCMachineryError(f"checker named an unknown cause: {causes}")
        out.append(f"C20:{c}")
    return out


def cfg_label(g, mask):
    return ("g1" if g == 1 else f"g{g}") + ("" if mask == 0 else "+" + "+".join(_mask_passes(mask)))


# ---------------------------------------------------------------------------
# one chunk of trees = one driver round trip (x2) + one TLC run, in a worker process


def _chunk(ci, trees, tier, binary):
    cfg = TIERS[tier]
    res = CheckResult("C20", tier)
    ex = res.extra
    for k in ("trees", "instances", "solutions", "records_checked", "records_deduplicated", "capped_enumerations", "exhaustive_enumerations", "models_distinct", "extremal_witnesses", "readbacks"):
        ex[k] = 0
    ex["compile_errors"] = {}
    ex["skipped"] = {}
    ex["clause_flags"] = {}
    t_start = time.time()
    with Scratch(prefix="erdosverif_c20_") as scratch:
        _chunk_in(ci, trees, tier, cfg, binary, res, scratch)
    ex.setdefault("chunk_wall_s", []).append(round(time.time() - t_start, 1))
    return res


def _bump(d, k, n=1):
    d[k] = d.get(k, 0) + n


def _chunk_in(ci, trees, tier, cfg, binary, res, scratch):
    ex = res.extra
    # ---- 1. compile every instance with the real library
    insts = []  # dicts: tree index, g, mask, job
    for ti, tree in enumerate(trees):
        for g in cfg["gs"]:
            if not coarse_ok(tree, g):
                continue
            for mask in range(1 << len(PASS_NAMES)):
                insts.append({"ti": ti, "g": g, "mask": mask})
    jobs = [make_job(trees[i["ti"]], i["g"], i["mask"]) for i in insts]
    t0 = time.time()
    outs = c20_driver.run_jobs_isolating(binary, jobs, scratch, tag=f"c{ci}a")
    ex["driver_s"] = round(time.time() - t0, 2)
    ex["trees"] += len(trees)
    # ---- 2. solve
    t0 = time.time()
    for inst, out in zip(insts, outs):
        tree = trees[inst["ti"]]
        inst["id"] = out.get("id") or f"{tree['id']}/g{inst['g']}/p{inst['mask']}"
        if "error" in out:
            inst["error"] = out["error"]
            _bump(ex["compile_errors"], f"{out['error']['kind']}@{out['error']['stage']}")
            if inst["g"] == 1 and inst["mask"] == 0:
                ex.setdefault("uncompilable_trees", []).append({"tree": c20_gen.sexpr(tree), "now": tree["now"], "error": out["error"]["what"][:200]})
            continue
        ex["instances"] += 1
        m = out["model"]
        nm = c20_solve.normalise(m)
        inst["nm"] = nm
        inst["model_nodes"] = m["nodes"]
        tv = sorted(c20_solve.time_vars(m))
        dec = [i for i in range(len(nm["vars"])) if i not in set(tv)]
        tcap = 2 * c20_solve.magnitude(nm) + 8
        anon = tla_model(nm)
        for c_ in anon["cons"]:
            c_.pop("name")  # WindowedChoose puts a random uuid into its names
        mhash = hashlib.sha1(json.dumps(anon, sort_keys=True).encode()).hexdigest()
        inst["mhash"] = mhash
        # identical active model as an earlier instance of the same tree -> same solution set
        twin = next((j for j in insts if j is not inst and j.get("mhash") == mhash and j["ti"] == inst["ti"] and "sols" in j), None)
        if twin is not None:
            for k in ("sols", "exhausted", "status", "max"):
                inst[k] = twin[k]
            continue
        sols, exhausted = c20_solve.enumerate_z3(nm, dec, tv, cfg["sol_cap"], tcap)
        status, best, xbest = c20_solve.optimum_gurobi(nm, tcap)
        if status == "optimal":
            if xbest not in sols:
                sols.append(xbest)
            if exhausted:
                zmax = max(c20_solve.objective_value(nm, s) for s in sols)
                if zmax != best:
                    raise tlc.TLCMachineryError(f"solver disagreement on {inst['id']}: z3 exhaustive max {zmax} vs Gurobi {best}")
        elif sols:
            raise tlc.TLCMachineryError(f"solver disagreement on {inst['id']}: Gurobi infeasible, z3 found a solution")
        extra = []
        for s in sols[: cfg["extremal"]]:
            for w in c20_solve.extremal_witnesses(nm, dec, tv, s, tcap):
                if w not in sols and w not in extra:
                    extra.append(w)
        ex["extremal_witnesses"] += len(extra)
        sols = sols + extra
        ex["exhaustive_enumerations" if exhausted else "capped_enumerations"] += 1
        inst.update(sols=sols, exhausted=exhausted, status=status, max=best)
    ex["solve_s"] = round(time.time() - t0, 2)
    # ---- 3. read every solution back through populateResults()
    live = [i for i in insts if "sols" in i]
    jobs2 = [make_job(trees[i["ti"]], i["g"], i["mask"], i["sols"]) for i in live]
    t0 = time.time()
    outs2 = c20_driver.run_jobs_isolating(binary, jobs2, scratch, tag=f"c{ci}b")
    ex["driver_s"] = round(ex["driver_s"] + time.time() - t0, 2)
    # ---- 4. batch for TLC
    batch = {"trees": [tla_tree(t) for t in trees], "models": [], "recs": [], "sums": []}
    model_ix = {}
    rec_of = {}
    seen_recs = {}
    for inst, out in zip(live, outs2):
        tree = trees[inst["ti"]]
        if "error" in out:
            inst["error"] = out["error"]
            _bump(ex["compile_errors"], f"{out['error']['kind']}@{out['error']['stage']}")
            continue
        mh = inst["mhash"]
        if mh not in model_ix:
            batch["models"].append(tla_model(inst["nm"]))
            model_ix[mh] = len(batch["models"])
        for k, (x, rb) in enumerate(zip(inst["sols"], out["readbacks"])):
            rid = f"{inst['id']}/s{k}"
            ex["solutions"] += 1
            if "error" in rb:
                # the library threw while reading a solution of its own model back
                res.violate(
                    "C20.utility_eq",
                    f"populateResults() raised {rb['error']['kind']} on a solution of the compiled model: {rb['error']['what'][:160]}",
                    _detail(tree, inst, x, rb, "exception"),
                    key=f"C20.utility_eq:unexplained:{tree_hash(tree)}",
                )
                continue
            ex["readbacks"] += 1
            rec = tla_rec(rid, tree, inst["ti"] + 1, model_ix[mh], x, rb)
            rec["cp"] = inst["mask"] & 1
            rec["purge"] = (inst["mask"] >> 1) & 1
            if any(0 <= e["start"] < tree["now"] for e in rec["pl"]):
                _bump(ex.setdefault("observations", {}), "placements_starting_before_now")
            # the same read-back under another pass subset is the same record: the first (smallest)
            # configuration it occurs in is the one it is judged / attributed in
            sig = hashlib.sha1(json.dumps({k2: v for k2, v in rec.items() if k2 not in ("id", "cp", "purge")}, sort_keys=True).encode()).hexdigest()
            if sig in seen_recs:
                ex["records_deduplicated"] += 1
                continue
            seen_recs[sig] = rid
            batch["recs"].append(rec)
            rec_of[rid] = (inst, x, rb)
    ex["models_distinct"] += len(batch["models"])
    run_of = {}
    for ti, tree in enumerate(trees):
        mine = [i for i in insts if i["ti"] == ti]
        base = next((i for i in mine if i["g"] == 1 and i["mask"] == 0), None)
        if base is None or "error" in base:
            _bump(ex["skipped"], "baseline_does_not_compile")
            # a pass must not turn an error into a model either way; nothing to compare
            continue
        runs = []
        order = sorted(mine, key=lambda i: (i["g"], i["mask"]))
        pos = {(i["g"], i["mask"]): k + 1 for k, i in enumerate(order)}
        for i in order:
            run_of[i["id"]] = i
            if "error" in i:
                kind = i["error"]["kind"]
                what = i["error"]["what"]
                runs.append(
                    {
                        "id": i["id"],
                        "g": i["g"],
                        "passes": i["mask"],
                        "status": "timeout" if kind == "timeout" else "exception",
                        "err": "max_no_child" if "must have at least one child with utility" in what else kind,
                        "feasible": 0,
                        "max": -1,
                        "fine": -2,
                        "fineix": 0,
                    }
                )
                continue
            fine = next((j for j in mine if j["g"] == 1 and j["mask"] == i["mask"] and "error" not in j), None)
            runs.append(
                {
                    "id": i["id"],
                    "g": i["g"],
                    "passes": i["mask"],
                    "status": "ok",
                    "err": "",
                    "feasible": 1 if i["status"] == "optimal" else 0,
                    "max": i["max"] if i["status"] == "optimal" else -1,
                    "fine": -2 if fine is None else (fine["max"] if fine["status"] == "optimal" else -1),
                    "fineix": 0 if fine is None or i["g"] == 1 else pos[(1, i["mask"])],
                }
            )
        batch["sums"].append({"id": tree["id"], "tree": ti + 1, "runs": runs})
    bpath = os.path.join(scratch, f"batch{ci}.json")
    with open(bpath, "w") as f:
        json.dump(batch, f)
    mod, cf = mcgen.write_mc(
        scratch,
        "Strl",
        {"BatchFile": bpath, "ConvTrivialMinBonus": CONV_TRIVIAL_MIN_BONUS},
        name=f"MC_Strl_{ci}",
    )
    r = tlc.run_tlc(mod, cf, workers=1, java_opts=mcgen.LIB_OPT + ["-Xss64m"], timeout=3000, coverage=False)
    res.add_tlc(f"Strl batch {ci}", r)
    if not r.ok:
        raise tlc.TLCMachineryError(f"Strl batch {ci}: unexpected TLC verdict {r.violation_kind} {r.violation_name}\n{r.stdout[-3000:]}")
    if r.distinct != len(batch["recs"]) + len(batch["sums"]) + 1:
        raise tlc.TLCMachineryError(f"Strl batch {ci}: {r.distinct} states for {len(batch['recs'])}+{len(batch['sums'])} records\n{r.stdout[-2000:]}")
    ex["records_checked"] += len(batch["recs"])
    res.traces_validated += len(batch["recs"])
    # ---- 5. verdicts
    bests = {}
    lines = _checker_lines(r.stdout)
    if sum(1 for l in lines if l.startswith("@@BEST ")) != len(batch["sums"]) or not any(l.startswith("@@TALLY ") for l in lines):
        raise tlc.TLCMachineryError(f"Strl batch {ci}: checker output incomplete\n{r.stdout[-2000:]}")
    for line in lines:
        if line.startswith("@@BEST "):
            _, tid, val = line.split(" ", 2)
            bests[tid] = int(val)
            continue
        if line.startswith("@@TALLY "):
            vals = [int(v) for v in re.findall(r"-?\d+", line.split(" ", 1)[1])]
            names = ["placed_leaves", "occupied_cells", "max_satisfied", "min_satisfied", "lessthan_satisfied", "scale_satisfied", "cells_at_full_capacity"]
            for n_, v in zip(names, vals):
                _bump(ex.setdefault("exercised", {}), n_, v)
            continue
        m = re.match(r"@@ (\S+) (C20\.\w+) (\S+) (.*)$", line)
        if not m:
            raise tlc.TLCMachineryError(f"unparsable checker line: {line}")
        rid, clause, causes, dtext = m.groups()
        _bump(ex["clause_flags"], clause)
        _bump(ex.setdefault("attribution", {}), causes)
        if rid in rec_of:
            inst, x, rb = rec_of[rid]
        elif rid in run_of:
            inst, x, rb = run_of[rid], None, None
        else:
            raise tlc.TLCMachineryError(f"checker line for unknown record: {line}")
        tree = trees[inst["ti"]]
        if "error" in inst and x is None:
            dtext += " " + json.dumps(inst["error"])
        for key in finding_keys(clause, causes, tree):
            res.violate(
                clause,
                f"[{causes}] {clause} fails for {'a solution of the model compiled from ' if x is not None else ''}{c20_gen.sexpr(tree)} "
                f"(partitions={[p['quantity'] for p in tree['partitions']]}, now={tree['now']}, g={inst['g']}, passes={_mask_passes(inst['mask'])}): {dtext[:260]}",
                _detail(tree, inst, x, rb, dtext),
                key=key,
            )
    # samples: first tree of the chunk with its optimum
    for t in trees[:1]:
        mine = [i for i in insts if i["ti"] == 0 and "sols" in i]
        if mine:
            res.samples.append(
                {
                    "tree": c20_gen.sexpr(t),
                    "partitions": [p["quantity"] for p in t["partitions"]],
                    "Best_by_TLC": bests.get(t["id"]),
                    "runs": [{"g": i["g"], "passes": _mask_passes(i["mask"]), "max": i["max"], "solutions": len(i["sols"]), "exhaustive": i["exhausted"]} for i in mine],
                }
            )


def _merge_extra(dst, src):
    """Sum counters (recursively), concatenate lists."""
    for k, v in src.items():
        if isinstance(v, dict):
            _merge_extra(dst.setdefault(k, {}), v)
        elif isinstance(v, list):
            dst.setdefault(k, []).extend(v)
        elif isinstance(v, (int, float)) and not isinstance(v, bool):
            dst[k] = dst.get(k, 0) + v
        else:
            dst[k] = v


def _checker_lines(stdout):
    """Lines the checker printed with PrintT (TLC prints a string value quoted and escaped)."""
    out = []
    for l in stdout.splitlines():
        if l.startswith('"@@') and l.endswith('"'):
            out.append(l[1:-1].replace('\\"', '"').replace("\\\\", "\\"))
    return out


def _detail(tree, inst, x, rb, dtext):
    d = {
        "tree": c20_gen.sexpr(tree),
        "tree_json": {k: tree[k] for k in ("partitions", "nodes", "root", "now")},
        "discretization": inst["g"],
        "passes": _mask_passes(inst["mask"]),
        "checker": dtext,
    }
    if x is not None:
        d["solution"] = x
    if rb is not None:
        d["readback_root"] = rb.get("root")
        d["objective"] = rb.get("objective")
    if "nm" in inst:
        d["model"] = {"vars": inst["nm"]["vars"], "cons": [c for c in inst["nm"]["cons"]], "obj": inst["nm"]["obj"]}
    return d


# ---------------------------------------------------------------------------


def replay(d: dict) -> int:
    """`run.py --replay <file>`: push the stored tree through the whole pipeline again (all
    discretisations / pass subsets it admits) and report whether the stored clause still fails."""
    det = d.get("detail", {})
    tj = det.get("tree_json")
    if not tj:
        print("replay: no tree stored in this file")
        return 2
    tree = dict(tj)
    tree.update(id="replay", tags=["replay"], H=0)
    try:
        binary, _ = c20_driver.ensure_built()
    except c20_driver.DriverBuildError as e:
        print(f"replay: the driver does not build: {str(e)[-500:]}")
        return 1
    res = _chunk(0, [tree], "quick", binary)
    hits = [v for v in res.violations if v.clause == d.get("clause")]
    for v in res.violations:
        print(f"replay: {v.clause} key={v.key}\n        {v.what[:300]}")
    print(f"replay: {len(res.violations)} failing clause instance(s), {len(hits)} of the stored clause {d.get('clause')}")
    return 1 if hits else 0


def run(tier: str) -> CheckResult:
    cfg = TIERS[tier]
    res = CheckResult("C20", tier)
    res.assumptions += [
        "trusted: TLC, CommunityModules Json, the JSON projection of trees/models/read-backs (harness/c20.py tla_*), the stand-alone driver (strl_driver/driver.cpp) and its sequential TBB shim (the property is not about concurrency)",
        "z3 / Gurobi only propose assignments: each is re-checked by TLC (ModelSat); they are trusted for completeness (no decision assignment missed below the cap; Gurobi's optimum is the optimum) and cross-checked against each other when the z3 enumeration is exhaustive",
        "'every solution' = every assignment of the decision variables (indicators, usages) that extends to a solution, with the solver's witness for start/end-time variables plus down/up-pushed witnesses for the first few assignments; enumeration is capped per model (see sol_cap)",
        "coarse discretisation g>1 is run only on trees whose start times lie on the absolute g-grid (what the library's Python caller generates) and without MalleableChoose; WindowedChoose granularity is scaled with g",
        "conventions fixed by the pinned code and named in spec/Strl.tla: ConvTrivialMinBonus=1; Min/LessThan couple placement-dependent children all-or-nothing; shared sub-expressions count once per parent; Allocation holds capacity unconditionally with utility 0",
    ]
    res.notes += [
        "observation (not a C20 clause): a WindowedChoose whose window opens before `now` is offered start times in the past (ChooseExpression refuses them); counted in coverage.observations",
        "not covered: the Gurobi/CPLEX/OR-tools C++ back-ends and the pybind11 module (cannot be built here); useOverlapConstraints=true (non-integral big-M rows); DiscretizationSelectorOptimizationPass (dynamic discretisation); solver hints / solution cache",
    ]
    try:
        binary, binfo = c20_driver.ensure_built()
    except c20_driver.DriverBuildError as e:
        res.violate("C20.model_sat", "the tetrisched sources do not compile against the sequential TBB shim", {"compiler": str(e)[-3000:]}, key="build-failure")
        return res
    res.extra["driver_build"] = binfo
    trees = c20_gen.corpus(tier, rng("c20"), cfg)
    only = os.environ.get("VERIF_C20_ONLY")  # development aid: restrict to tree-id prefixes / a count
    if only:
        trees = trees[: int(only)] if only.isdigit() else [t for t in trees if any(t["id"].startswith(p) for p in only.split(","))]
        res.notes.append(f"VERIF_C20_ONLY={only}: corpus restricted to {len(trees)} trees")
    res.extra["corpus"] = c20_gen.describe(trees)
    res.extra["constants"] = {"sol_cap": cfg["sol_cap"], "discretisations": list(cfg["gs"]), "pass_subsets": 4, "seed": seed()}
    # as many chunks as workers (or more, of bounded size), filled round-robin so that the
    # expensive families spread out; fewer, larger TLC batches amortise the JVM start
    nchunks = max(cfg["procs"], -(-len(trees) // cfg["chunk"]))
    nchunks = max(1, min(nchunks, len(trees)))
    chunks = [trees[i::nchunks] for i in range(nchunks)]
    parts = parallel(_chunk, [(ci, ch, tier, binary) for ci, ch in enumerate(chunks)], procs=cfg["procs"])
    for p in parts:
        res.states += p.states
        res.transitions += p.transitions
        res.traces_validated += p.traces_validated
        res.samples += p.samples
        res.violations += p.violations
        res.notes += [n for n in p.notes if n not in res.notes]
        _merge_extra(res.extra, p.extra)
    # keep the evidence readable: aggregate the per-batch TLC runs
    runs = res.extra.pop("tlc_runs", [])
    res.extra["tlc"] = {
        "batches": len(runs),
        "distinct_states": sum(r["distinct_states"] for r in runs),
        "wall_s_sum": round(sum(r["wall_s"] for r in runs), 1),
        "wall_s_max": max([r["wall_s"] for r in runs] or [0]),
    }
    for k in ("driver_s", "solve_s"):
        res.extra[k] = round(res.extra.get(k, 0), 1)
    res.extra["chunk_wall_s"] = {"max": max(res.extra.get("chunk_wall_s", [0])), "sum": round(sum(res.extra.get("chunk_wall_s", [0])), 1)}
    keys = {}
    for v in res.violations:
        keys[v.key] = keys.get(v.key, 0) + 1
    res.extra["finding_keys"] = dict(sorted(keys.items()))
    # one violation per key is enough for the verdict; keep the evidence / replay set small
    first = {}
    for v in res.violations:
        first.setdefault(v.key, v)
    res.violations = list(first.values())
    res.samples = res.samples[:6]
    return res
