------------------------------ MODULE Decision ------------------------------
(* C10 - what a scheduling policy may answer.                                *)
(*                                                                          *)
(* ValidDecision(call) judges one *scheduler call record*: the arguments of  *)
(* BaseScheduler.schedule(sim_time, workload, worker_pools) projected        *)
(* through the public getters just before the call, the returned Placements  *)
(* and the same projection just after the call.  It is a conjunction of       *)
(* named clauses; every clause is an operator from the record to the set of  *)
(* *offenders* (task numbers; 0 = the call as a whole; -(100*pool + worker)   *)
(* = a worker), the clause holds iff the set is empty.                        *)
(*                                                                          *)
(* call = [ id, policy, conv, now, raised, offered, tasks, cluster, decs,     *)
(*          pre, post ]                                                      *)
(*   policy   "edf" "fifo" "lsf" "ilp" "ts_gurobi" "ts_cplex" "z3" "clockwork"*)
(*   conv     the policy's planning convention (DESIGN 7), named constants:   *)
(*            gap      0: a task occupies start <= x < start + rt (a resource *)
(*                        freed at x is reusable at x - the simulator's own   *)
(*                        reading: TetriSched, greedy, Clockwork, Z3),        *)
(*                     1: start <= x <= start + rt (ILP: closed intervals,    *)
(*                        s1 >= s2 + rt2 + 1)                                 *)
(*            instants "now":    capacity is planned at the invocation time   *)
(*                               (and the starts of the new placements) only  *)
(*                     "starts": at every start point of a running /          *)
(*                               scheduled / newly placed interval            *)
(*            plans    "kept": the plan of a SCHEDULED task that the call     *)
(*                     does not re-decide keeps holding its worker;           *)
(*                     "ignored": only the live cluster counts (greedy)       *)
(*            startLB  new placements start at now + startLB or later (side)  *)
(*            grid     new placements start at now + k * grid (side clause)   *)
(*   now      invocation time                                                *)
(*   raised   "" or the exception schedule() raised                           *)
(*   offered  task numbers Workload.get_schedulable_tasks returned to it      *)
(*   tasks    per task [st, rel, dl, strats, plan, rem]                       *)
(*            st: TaskState value; rel: release time or -1; strats: sequence  *)
(*            of [dem, rt, bs]; plan = [pool, wk, sd, tm] (pool 0: none) is    *)
(*            the current Placement of a SCHEDULED task; rem: remaining time   *)
(*   cluster  per pool, per worker [insts, av, occ]; insts: sequence of       *)
(*            [name, id, cap]; av: available per instance; occ: the placed    *)
(*            tasks [t, dem, fin, bid] (fin = now + remaining time)           *)
(*   decs     sequence of [kind, t, placed, pool, wk, sd, tm]; kind 1 evict,  *)
(*            2 load, 3 cancel, 4 place; wk 0 = worker left to the pool,      *)
(*            -1 = not a worker of that pool; sd = [dem, rt, bs, bid] with    *)
(*            rt -1 = no strategy reported (then *some* strategy of the task   *)
(*            must make the plan fit); bid # 0: members of one batch (they     *)
(*            share one allocation)                                          *)
(*   pre/post [ts, cl] full projection of task states / plans and of the live *)
(*            cluster (per-instance availability, placed tasks, allocations)  *)
(*                                                                          *)
(* A demand / capacity is compared per resource *name* on a worker            *)
(* (LedgerOps!TotalQ with the wildcard id), which is what all bundled         *)
(* planners budget; the instance-level ledger is C01/C04's business.          *)
EXTENDS Integers, Sequences, FiniteSets, TLC, LedgerOps

VIRTUAL == 1  RELEASED == 2  SCHEDULED == 3  RUNNING == 4
PREEMPTED == 5  EVICTED == 6  COMPLETED == 7  CANCELLED == 8
EVICT == 1  LOAD == 2  CANCEL == 3  PLACE == 4

\* the greedy and optimisation planners: they answer every offered task
Planners == {"edf", "fifo", "lsf", "ilp", "ts_gurobi", "ts_cplex"}
\* "have started": no decision may name such a task
Started == {RUNNING, COMPLETED, CANCELLED}

ClauseNames == <<"C10.returns", "C10.one_per_task", "C10.only_offered", "C10.answers_all",
                 "C10.names_exist", "C10.strategy_of_task", "C10.time_not_past",
                 "C10.time_not_before_release", "C10.capacity", "C10.side_effect_free">>
\* beside the statement: the pinned conventions (reported as notes, never as violations)
SideNames == <<"conv.start_lb", "conv.grid">>

-----------------------------------------------------------------------------
(* vocabulary *)
TaskIds(c)   == 1..Len(c.tasks)
PoolIds(c)   == 1..Len(c.cluster)
WorkerIds(c, p) == 1..Len(c.cluster[p])
Offered(c)   == {c.offered[i] : i \in 1..Len(c.offered)}
DecIds(c)    == 1..Len(c.decs)
TaskDecs(c)  == {i \in DecIds(c) : c.decs[i].kind \in {CANCEL, PLACE}}
DecsOf(c, t) == {i \in TaskDecs(c) : c.decs[i].t = t}
PlacedDecs(c) == {i \in TaskDecs(c) : c.decs[i].kind = PLACE /\ c.decs[i].placed}
ProfileDecs(c) == {i \in DecIds(c) : c.decs[i].kind \in {EVICT, LOAD}}
Known(c, t)  == t \in TaskIds(c)
St(c, t)     == c.tasks[t].st

NamesOK(c, d) ==
    /\ d.pool \in PoolIds(c)
    /\ d.wk \in 0..Len(c.cluster[d.pool])

-----------------------------------------------------------------------------
(* clauses 0-4 *)
\* (0) schedule() returns normally
Returns(c) == IF c.raised = "" THEN {} ELSE {0}

\* (1) at most one decision (placed / not placed / cancel) per task
OnePerTask(c) == {c.decs[i].t : i \in {j \in TaskDecs(c) : Cardinality(DecsOf(c, c.decs[j].t)) > 1}}

\* (2) only tasks that were offered or that the policy had scheduled earlier, never a started one
OnlyOffered(c) ==
    {c.decs[i].t : i \in {j \in TaskDecs(c) :
        LET t == c.decs[j].t
        IN  \/ ~Known(c, t)
            \/ St(c, t) \in Started
            \/ (t \notin Offered(c) /\ St(c, t) # SCHEDULED)}}

\* (3) the planners answer every offered task that is not already SCHEDULED
AnswersAll(c) ==
    IF c.policy \in Planners
    THEN {t \in Offered(c) : Known(c, t) /\ St(c, t) # SCHEDULED /\ DecsOf(c, t) = {}}
    ELSE {}

\* (4a) a placement (and a profile load / eviction) names an existing pool, and a worker of it if any
NamesExist(c) ==
    {c.decs[i].t : i \in {j \in PlacedDecs(c) \cup ProfileDecs(c) : ~NamesOK(c, c.decs[j])}}

\* (4b) a reported strategy is one of the task's strategies
StrategyOfTask(c) ==
    {c.decs[i].t : i \in {j \in PlacedDecs(c) :
        LET d == c.decs[j]
        IN  /\ Known(c, d.t) /\ d.sd.rt # -1
            /\ ~\E k \in 1..Len(c.tasks[d.t].strats) :
                  LET s == c.tasks[d.t].strats[k]
                  IN  s.dem = d.sd.dem /\ s.rt = d.sd.rt /\ s.bs = d.sd.bs}}

\* (4c) not in the past, (4d) not before the task's known release
TimeNotPast(c) ==
    {c.decs[i].t : i \in {j \in PlacedDecs(c) \cup ProfileDecs(c) : c.decs[j].tm < c.now}}
TimeNotBeforeRelease(c) ==
    {c.decs[i].t : i \in {j \in PlacedDecs(c) :
        LET d == c.decs[j]
        IN  Known(c, d.t) /\ c.tasks[d.t].rel >= 0 /\ d.tm < c.tasks[d.t].rel}}

-----------------------------------------------------------------------------
(* clause 5: CapacityOK *)
\* An item is something that holds resources of a worker during [s, e):
\*   key <<1, p, w, j>>  the j-th occupant of worker w of pool p (until now + remaining)
\*   key <<2, t, 0, 0>>  a SCHEDULED task that this call does not re-decide (its plan)
\*   key <<3, i, 0, 0>>  the i-th decision, a new placement
\* wk = 0: the worker is chosen by the pool - some assignment must exist.
\* An abstract item carries the alternatives alts = <<[dem, rt], ...>> it may execute
\* with: exactly the reported strategy, or - when a placement reports no strategy (Z3;
\* the pool then takes the first strategy of the task that fits, WorkerPool.place_task)
\* - any strategy of the task: some choice must exist.
Item0(key, t, p, w, alts, s, isnew, bid) ==
    [key |-> key, t |-> t, pool |-> p, wk |-> w, alts |-> alts, s |-> s, new |-> isnew, bid |-> bid]
Alt(dem, rt) == [dem |-> dem, rt |-> rt]

RunItems0(c) ==
    UNION {UNION {{Item0(<<1, p, w, j>>, c.cluster[p][w].occ[j].t, p, w,
                         <<Alt(c.cluster[p][w].occ[j].dem, c.cluster[p][w].occ[j].fin - c.now)>>, c.now,
                         FALSE, c.cluster[p][w].occ[j].bid)
                     : j \in 1..Len(c.cluster[p][w].occ)} : w \in WorkerIds(c, p)} : p \in PoolIds(c)}

\* conv.plans = "ignored": the policy plans the invocation instant on the live cluster
\* only (it never leaves a task SCHEDULED for later itself); plans that are still
\* pending then are the simulator's to retry (WORKER_NOT_READY), not its to respect
KeptPlans(c) ==
    IF c.conv.plans = "ignored" THEN {}
    ELSE {t \in TaskIds(c) : St(c, t) = SCHEDULED /\ c.tasks[t].plan.pool \in PoolIds(c) /\ DecsOf(c, t) = {}}
PlanItems0(c) ==
    {Item0(<<2, t, 0, 0>>, t, c.tasks[t].plan.pool, c.tasks[t].plan.wk,
           <<Alt(c.tasks[t].plan.sd.dem, c.tasks[t].plan.sd.rt)>>, c.tasks[t].plan.tm, FALSE, c.tasks[t].plan.sd.bid)
       : t \in KeptPlans(c)}

GoodPlaced(c) == {i \in PlacedDecs(c) : Known(c, c.decs[i].t) /\ NamesOK(c, c.decs[i])}
AltsOf(c, d) ==
    IF d.sd.rt # -1 THEN <<Alt(d.sd.dem, d.sd.rt)>>
    ELSE [k \in 1..Len(c.tasks[d.t].strats) |-> Alt(c.tasks[d.t].strats[k].dem, c.tasks[d.t].strats[k].rt)]
DecItems0(c) ==
    {Item0(<<3, i, 0, 0>>, c.decs[i].t, c.decs[i].pool, c.decs[i].wk, AltsOf(c, c.decs[i]), c.decs[i].tm,
           TRUE, c.decs[i].sd.bid) : i \in GoodPlaced(c)}

Items0(c) == RunItems0(c) \cup PlanItems0(c) \cup DecItems0(c)

\* a choice of one alternative per item that has several; the concrete items under it
\* hold dem during [s, e), e = s + rt + conv.gap
MultiKeys(I0) == {it.key : it \in {x \in I0 : Len(x.alts) > 1}}
MaxAlts(I0)   == LET L == {Len(it.alts) : it \in I0} IN IF L = {} THEN 1 ELSE CHOOSE m \in L : \A x \in L : x <= m
Choices(I0) ==
    {ch \in [MultiKeys(I0) -> 1..MaxAlts(I0)] : \A it \in I0 : Len(it.alts) > 1 => ch[it.key] <= Len(it.alts)}
Conc(c, I0, ch) ==
    {LET a == it.alts[IF Len(it.alts) > 1 THEN ch[it.key] ELSE 1]
     IN  [key |-> it.key, t |-> it.t, pool |-> it.pool, wk |-> it.wk, dem |-> a.dem, s |-> it.s,
          e |-> it.s + a.rt + c.conv.gap, new |-> it.new, bid |-> it.bid] : it \in I0}
AnyChoice(I0) == CHOOSE ch \in Choices(I0) : TRUE
Items(c) == Conc(c, Items0(c), AnyChoice(Items0(c)))
RunItems(c)  == {it \in Items(c) : it.key[1] = 1}
PlanItems(c) == {it \in Items(c) : it.key[1] = 2}

DemQ(dem, n) == SumTo([k \in 1..Len(dem) |-> IF dem[k].name = n THEN dem[k].q ELSE 0], Len(dem))
CapQ(c, p, w, n) == TotalQ(c.cluster[p][w].insts, [name |-> n, id |-> "any"])
ResNames(c, I, p) ==
    UNION {{c.cluster[p][w].insts[k].name : k \in 1..Len(c.cluster[p][w].insts)} : w \in WorkerIds(c, p)}
    \cup UNION {{it.dem[k].name : k \in 1..Len(it.dem)} : it \in I}

Instants(c, I) ==
    IF c.conv.instants = "now" THEN {c.now} \cup {it.s : it \in {x \in I : x.new}}
    ELSE {c.now} \cup {it.s : it \in I}

Active(it, x) == it.s <= x /\ x < it.e
\* worker of an item under the assignment asg of the pool-chosen ones
On(asg, it) == IF it.wk = 0 THEN asg[it.key] ELSE it.wk
ActiveOn(I, asg, w, x) == {it \in I : On(asg, it) = w /\ Active(it, x)}

\* demand for resource name n of a set of items on one worker: the members of one
\* batch (same bid) hold one allocation together
Usage(A, n) ==
    LET single == {it \in A : it.bid = 0}
        bids   == {it.bid : it \in A \ single}
    IN  SumSet([it \in single |-> DemQ(it.dem, n)], single)
        + SumSet([b \in bids |-> DemQ((CHOOSE it \in A : it.bid = b).dem, n)], bids)

\* worker w of pool p is over-subscribed at x for n *by this call*: a new placement
\* that needs n is among the tasks there (what was over-committed before the call
\* without any new placement taking part is not this call's doing)
OverA(c, A, p, w, n) ==
    /\ \E it \in A : it.new /\ DemQ(it.dem, n) > 0
    /\ Usage(A, n) > CapQ(c, p, w, n)
Over(c, I, asg, p, w, x, n) == OverA(c, ActiveOn(I, asg, w, x), p, w, n)

PoolFits(c, I, asg, p) ==
    LET X  == Instants(c, I)
        NS == ResNames(c, I, p)
    IN  \A w \in WorkerIds(c, p), x \in X :
            LET A == ActiveOn(I, asg, w, x)
            IN  (\E it \in A : it.new) => \A n \in NS : ~OverA(c, A, p, w, n)

PoolItems0(c, p) == {it \in Items0(c) : it.pool = p}
FreeKeys(I) == {it.key : it \in {x \in I : x.wk = 0}}
Assignments(c, I, p) == [FreeKeys(I) -> WorkerIds(c, p)]

\* some choice of strategies (where none is reported) and some assignment of the
\* pool-chosen items to workers of the pool fits
PoolFeasible(c, I0, p) ==
    \E ch \in Choices(I0) : LET I == Conc(c, I0, ch) IN \E asg \in Assignments(c, I, p) : PoolFits(c, I, asg, p)
\* everything is named: one choice, one assignment
Determined(c, I0) == MultiKeys(I0) = {} /\ \A it \in I0 : it.wk # 0

\* offenders of pool p: nobody if the pool is feasible; the new placements standing on an
\* over-subscribed (worker, instant) if every worker and strategy is named; all new
\* placements of the pool otherwise
PoolOffenders(c, p) ==
    LET I0 == PoolItems0(c, p)
    IN  IF ~\E it \in I0 : it.new THEN {}
        ELSE IF PoolFeasible(c, I0, p) THEN {}
        ELSE IF Determined(c, I0)
             THEN LET I   == Conc(c, I0, AnyChoice(I0))
                      asg == CHOOSE a \in Assignments(c, I, p) : TRUE
                  IN  {it.t : it \in {y \in I : y.new /\
                          \E w \in WorkerIds(c, p), x \in Instants(c, I), n \in ResNames(c, I, p) :
                              /\ Over(c, I, asg, p, w, x, n)
                              /\ On(asg, y) = w /\ Active(y, x) /\ DemQ(y.dem, n) > 0}}
             ELSE {it.t : it \in {y \in I0 : y.new}}

Capacity(c) == UNION {PoolOffenders(c, p) : p \in PoolIds(c)}

-----------------------------------------------------------------------------
(* clause 6: deciding changes neither the live cluster nor any task *)
SideEffectFree(c) ==
    LET nt == IF Len(c.pre.ts) < Len(c.post.ts) THEN Len(c.pre.ts) ELSE Len(c.post.ts)
    IN  {t \in 1..nt : c.pre.ts[t] # c.post.ts[t]}
        \cup (IF Len(c.pre.ts) # Len(c.post.ts) \/ Len(c.pre.cl) # Len(c.post.cl) THEN {0} ELSE {})
        \cup (IF Len(c.pre.cl) # Len(c.post.cl) THEN {}
              ELSE UNION {IF Len(c.pre.cl[p]) # Len(c.post.cl[p]) THEN {-(100 * p)}
                          ELSE {-(100 * p + w) : w \in {v \in 1..Len(c.pre.cl[p]) : c.pre.cl[p][v] # c.post.cl[p][v]}}
                          : p \in 1..Len(c.pre.cl)})

-----------------------------------------------------------------------------
Offenders(cl, c) ==
    CASE cl = "C10.returns"                 -> Returns(c)
      [] cl = "C10.one_per_task"            -> OnePerTask(c)
      [] cl = "C10.only_offered"            -> OnlyOffered(c)
      [] cl = "C10.answers_all"             -> IF c.raised = "" THEN AnswersAll(c) ELSE {}
      [] cl = "C10.names_exist"             -> NamesExist(c)
      [] cl = "C10.strategy_of_task"        -> StrategyOfTask(c)
      [] cl = "C10.time_not_past"           -> TimeNotPast(c)
      [] cl = "C10.time_not_before_release" -> TimeNotBeforeRelease(c)
      [] cl = "C10.capacity"                -> Capacity(c)
      [] cl = "C10.side_effect_free"        -> SideEffectFree(c)
      [] cl = "conv.start_lb" -> {c.decs[i].t : i \in {j \in PlacedDecs(c) : c.decs[j].tm < c.now + c.conv.startLB}}
      [] cl = "conv.grid"     -> {c.decs[i].t : i \in {j \in PlacedDecs(c) : (c.decs[j].tm - c.now) % c.conv.grid # 0}}

\* the circumstance of a failure (part of the finding key): what the new placements
\* collide with / why a decision was not allowed / what changed
CapacityCirc(c) ==
    UNION {LET I0 == PoolItems0(c, p)
           IN  IF PoolOffenders(c, p) = {} THEN {}
               ELSE IF \E it \in I0 : it.wk = 0 THEN {"pool_chosen_workers"}
               ELSE LET I   == Conc(c, I0, AnyChoice(I0))
                        asg == CHOOSE a \in Assignments(c, I, p) : TRUE
                        K   == UNION {UNION {UNION {
                                 IF Over(c, I, asg, p, w, x, n)
                                 THEN {CASE it.key[1] = 1 -> "running" [] it.key[1] = 2 -> "kept_plan" [] OTHER -> "new"
                                         : it \in {y \in ActiveOn(I, asg, w, x) : DemQ(y.dem, n) > 0}}
                                 ELSE {} : n \in ResNames(c, I, p)} : x \in Instants(c, I)} : w \in WorkerIds(c, p)}
                    IN  IF K = {} THEN {"no_strategy_reported"} ELSE K
           : p \in PoolIds(c)}

Circ(cl, c) ==
    CASE cl = "C10.capacity" -> CapacityCirc(c)
      [] cl = "C10.only_offered" ->
            {CASE ~Known(c, t) -> "unknown_task" [] St(c, t) \in Started -> "started" [] OTHER -> "not_offered"
               : t \in OnlyOffered(c)}
      [] cl = "C10.side_effect_free" ->
            {IF o > 0 THEN "task" ELSE IF o < 0 THEN "cluster" ELSE "shape" : o \in SideEffectFree(c)}
      [] OTHER -> {}

Range(s) == {s[i] : i \in 1..Len(s)}
Failing(c) == {cl \in Range(ClauseNames) : Offenders(cl, c) # {}}
ValidDecision(c) == Failing(c) = {}

\* which parts of the contract a record puts to work (vacuity counters of the harness)
Exercised(c) ==
    LET I == Items(c)
        T == TaskIds(c)
    IN  {x \in {"decided", "placed", "unplaced", "cancel", "profile_decision", "offered_virtual", "offered_scheduled",
                "running", "scheduled", "kept_plan", "redecided_scheduled", "pool_chosen_worker", "named_worker",
                "future_start", "several_instants", "shared_worker", "worker_filled", "no_strategy", "batch"} :
          CASE x = "decided"   -> Len(c.decs) > 0
            [] x = "placed"    -> PlacedDecs(c) # {}
            [] x = "unplaced"  -> \E i \in TaskDecs(c) : c.decs[i].kind = PLACE /\ ~c.decs[i].placed
            [] x = "cancel"    -> \E i \in TaskDecs(c) : c.decs[i].kind = CANCEL
            [] x = "profile_decision" -> ProfileDecs(c) # {}
            [] x = "offered_virtual"   -> \E t \in Offered(c) : Known(c, t) /\ St(c, t) = VIRTUAL
            [] x = "offered_scheduled" -> \E t \in Offered(c) : Known(c, t) /\ St(c, t) = SCHEDULED
            [] x = "running"   -> RunItems(c) # {}
            [] x = "scheduled" -> \E t \in T : St(c, t) = SCHEDULED
            [] x = "kept_plan" -> PlanItems(c) # {}
            [] x = "redecided_scheduled" -> \E t \in T : St(c, t) = SCHEDULED /\ DecsOf(c, t) # {}
            [] x = "pool_chosen_worker" -> \E it \in I : it.new /\ it.wk = 0 /\ Len(c.cluster[it.pool]) > 1
            [] x = "named_worker" -> \E it \in I : it.new /\ it.wk # 0
            [] x = "future_start" -> \E it \in I : it.new /\ it.s > c.now
            [] x = "several_instants" -> Cardinality(Instants(c, I)) > 1
            [] x = "shared_worker" ->
                  \E it \in I : it.new /\ it.wk # 0 /\
                      \E ot \in I : ot.key # it.key /\ ot.pool = it.pool /\ ot.wk = it.wk /\ Active(ot, it.s)
            [] x = "worker_filled" ->
                  \E it \in I : it.new /\ it.wk # 0 /\ \E k \in 1..Len(it.dem) :
                      Usage({ot \in I : ot.pool = it.pool /\ ot.wk = it.wk /\ Active(ot, it.s)}, it.dem[k].name)
                          = CapQ(c, it.pool, it.wk, it.dem[k].name)
            [] x = "no_strategy" -> \E i \in PlacedDecs(c) : c.decs[i].sd.rt = -1
            [] x = "batch" -> \E i \in PlacedDecs(c) : c.decs[i].sd.bid # 0}

\* one line per failing (record, clause) and one line per record; always TRUE
Judge(c) ==
    /\ \A k \in 1..Len(ClauseNames) :
          LET o == Offenders(ClauseNames[k], c)
          IN  o = {} \/ PrintT(<<"@@f", c.id, ClauseNames[k], o, Circ(ClauseNames[k], c)>>)
    /\ \A k \in 1..Len(SideNames) :
          LET o == Offenders(SideNames[k], c) IN o = {} \/ PrintT(<<"@@s", c.id, SideNames[k], o>>)
    /\ PrintT(<<"@@x", c.id, Exercised(c)>>)
JudgeAll(R) == \A i \in 1..Len(R) : Judge(R[i])

-----------------------------------------------------------------------------
(* DecisionMC: the contract judged on hand-written records - every clause is *)
(* satisfiable (the base records pass) and falsifiable (each variant fails    *)
(* exactly the intended clause).  Evaluated by an ASSUME of the generated MC. *)
Gpu(q) == <<[name |-> "gpu", id |-> "any", q |-> q]>>
NoSd   == [dem |-> <<>>, rt |-> -1, bs |-> 0, bid |-> 0]
NoPlan == [pool |-> 0, wk |-> 0, sd |-> NoSd, tm |-> -1]
Sd(q, rt) == [dem |-> Gpu(q), rt |-> rt, bs |-> 1, bid |-> 0]
Str(q, rt) == [dem |-> Gpu(q), rt |-> rt, bs |-> 1]
Tk(st, rel, strats, plan, rem) ==
    [st |-> st, rel |-> rel, dl |-> 50, strats |-> strats, plan |-> plan, rem |-> rem]
Wkr(cap, av, occ) == [insts |-> <<[name |-> "gpu", id |-> "g", cap |-> cap]>>, av |-> <<av>>, occ |-> occ]
Place(t, p, w, sd, tm) == [kind |-> PLACE, t |-> t, placed |-> TRUE, pool |-> p, wk |-> w, sd |-> sd, tm |-> tm]
Unplaced(t) == [kind |-> PLACE, t |-> t, placed |-> FALSE, pool |-> 0, wk |-> 0, sd |-> NoSd, tm |-> -1]
Cancel(t)   == [kind |-> CANCEL, t |-> t, placed |-> FALSE, pool |-> 0, wk |-> 0, sd |-> NoSd, tm |-> -1]
Snap(c) == [ts |-> [t \in TaskIds(c) |-> [st |-> c.tasks[t].st, plan |-> c.tasks[t].plan]],
            cl |-> [p \in PoolIds(c) |-> [w \in WorkerIds(c, p) |-> c.cluster[p][w].av]]]
WithSnap(c) == [c EXCEPT !.pre = Snap(c), !.post = Snap(c)]

\* now = 10; one pool: worker 1 (2 gpus, task 1 runs on one of them until 13), worker 2 (1 gpu);
\* task 2 is SCHEDULED on worker 2 at 12 for 3; tasks 3 and 4 are offered; task 5 is a VIRTUAL child
SanityTasks ==
    << Tk(RUNNING, 5, <<Str(1, 8)>>, Place(1, 1, 1, Sd(1, 8), 5), 3),
       Tk(SCHEDULED, 8, <<Str(1, 3)>>, [pool |-> 1, wk |-> 2, sd |-> Sd(1, 3), tm |-> 12], 3),
       Tk(RELEASED, 9, <<Str(2, 4), Str(1, 6)>>, NoPlan, 6),
       Tk(RELEASED, 10, <<Str(1, 2)>>, NoPlan, 2),
       Tk(VIRTUAL, -1, <<Str(1, 2)>>, NoPlan, 2) >>
SanityCluster ==
    << << Wkr(2, 1, <<[t |-> 1, dem |-> Gpu(1), fin |-> 13, bid |-> 0]>>), Wkr(1, 1, <<>>) >> >>
Conv(gap, inst, lb) == [gap |-> gap, instants |-> inst, plans |-> "kept", startLB |-> lb, grid |-> 1]
SanityCall(policy, conv, decs) ==
    WithSnap([id |-> 0, policy |-> policy, conv |-> conv, now |-> 10, raised |-> "", offered |-> <<3, 4>>,
              tasks |-> SanityTasks, cluster |-> SanityCluster, decs |-> decs, pre |-> <<>>, post |-> <<>>])

\* ILP-like: closed intervals, every start point; 3 waits for the running task (14 > 13), 4 shares worker 2
\* with the kept plan of task 2 only after it ended (12 + 3 + 1)
GoodIlp == SanityCall("ilp", Conv(1, "starts", 1), <<Place(3, 1, 1, Sd(2, 4), 14), Place(4, 1, 2, Sd(1, 2), 16)>>)
\* greedy: at "now", workers chosen by the pool: 4 fits beside the running task or on worker 2, 3 is answered unplaced
GoodEdf == SanityCall("edf", Conv(0, "now", 0), <<Place(4, 1, 0, Sd(1, 2), 10), Unplaced(3)>>)
\* half-open slots: 4 may start on worker 2 exactly when... it ends at 12 where the plan of task 2 starts
GoodSlots == SanityCall("ts_cplex", Conv(0, "starts", 0), <<Place(4, 1, 2, Sd(1, 2), 10), Cancel(3)>>)

FailsExactly(c, cls) == Failing(c) = cls
SanityOK ==
    /\ ValidDecision(GoodIlp) /\ ValidDecision(GoodEdf) /\ ValidDecision(GoodSlots)
    \* (0)
    /\ FailsExactly([GoodEdf EXCEPT !.raised = "ValueError", !.decs = <<>>], {"C10.returns"})
    \* (1) two answers for task 4
    /\ FailsExactly([GoodEdf EXCEPT !.decs = Append(@, Unplaced(4))], {"C10.one_per_task"})
    \* (2) an answer for the VIRTUAL task 5 that was not offered; for the running task 1
    /\ FailsExactly([GoodEdf EXCEPT !.decs = Append(@, Unplaced(5))], {"C10.only_offered"})
    /\ FailsExactly([GoodEdf EXCEPT !.decs = Append(@, Cancel(1))], {"C10.only_offered"})
    \*     ... but the SCHEDULED task 2 may be re-decided although it was not offered
    /\ ValidDecision([GoodIlp EXCEPT !.decs = Append(@, Place(2, 1, 2, Sd(1, 3), 11))])
    \* (3) a planner leaves the offered task 3 without an answer; Clockwork may
    /\ FailsExactly([GoodEdf EXCEPT !.decs = <<Place(4, 1, 0, Sd(1, 2), 10)>>], {"C10.answers_all"})
    /\ ValidDecision([GoodEdf EXCEPT !.policy = "clockwork", !.decs = <<Place(4, 1, 0, Sd(1, 2), 10)>>])
    \* (4) unknown pool / worker of another pool; foreign strategy; past; before release
    /\ FailsExactly([GoodEdf EXCEPT !.decs[1].pool = 2], {"C10.names_exist"})
    /\ FailsExactly([GoodEdf EXCEPT !.decs[1].wk = -1], {"C10.names_exist"})
    /\ FailsExactly([GoodEdf EXCEPT !.decs[1].sd = Sd(1, 3)], {"C10.strategy_of_task"})
    /\ FailsExactly([GoodEdf EXCEPT !.decs[1].tm = 9], {"C10.time_not_past", "C10.time_not_before_release"})
    /\ FailsExactly([GoodIlp EXCEPT !.tasks[4].rel = 17], {"C10.time_not_before_release"})
    \* (5) closed intervals: 3 may not start at 13 where the running task ends, half-open slots allow it
    /\ FailsExactly([GoodIlp EXCEPT !.decs[1].tm = 13], {"C10.capacity"})
    /\ Capacity([GoodIlp EXCEPT !.decs[1].tm = 13]) = {3}
    /\ ValidDecision([GoodIlp EXCEPT !.decs[1].tm = 13, !.conv = Conv(0, "starts", 0)])
    \*     the kept plan of task 2 (12..15 on worker 2) counts: 4 may not start at 15 / overlap it at 11
    /\ FailsExactly([GoodIlp EXCEPT !.decs[2].tm = 15], {"C10.capacity"})
    /\ FailsExactly([GoodSlots EXCEPT !.decs[1].tm = 11], {"C10.capacity"})
    \*     ... unless this call re-decides task 2 (the old plan is void)
    /\ ValidDecision([GoodSlots EXCEPT !.decs = <<Place(4, 1, 2, Sd(1, 2), 11), Cancel(3), Unplaced(2)>>])
    \*     pool-chosen workers: 3 (2 gpus) and 4 (1 gpu) cannot both be placed now on {1 free, 1 free};
    \*     4 and the 1-gpu strategy of 3 can (one on each worker)
    /\ FailsExactly([GoodEdf EXCEPT !.decs = <<Place(4, 1, 0, Sd(1, 2), 10), Place(3, 1, 0, Sd(2, 4), 10)>>], {"C10.capacity"})
    /\ ValidDecision([GoodEdf EXCEPT !.decs = <<Place(4, 1, 0, Sd(1, 2), 10), Place(3, 1, 0, Sd(1, 6), 10)>>])
    \*     the greedy convention plans "now" only: the kept plan of task 2 at 12 is not looked at
    /\ ValidDecision([GoodEdf EXCEPT !.decs = <<Place(4, 1, 2, Sd(1, 2), 10), Place(3, 1, 2, Sd(1, 6), 11)>>]) = FALSE
    /\ ValidDecision([GoodEdf EXCEPT !.decs = <<Place(4, 1, 1, Sd(1, 2), 10), Place(3, 1, 2, Sd(1, 6), 10)>>])
    /\ FailsExactly([GoodEdf EXCEPT !.conv = Conv(0, "starts", 0),
                                    !.decs = <<Place(4, 1, 1, Sd(1, 2), 10), Place(3, 1, 2, Sd(1, 6), 10)>>], {"C10.capacity"})
    \*     the instant-only policies are judged on the live cluster: pending plans are not theirs to respect
    /\ ValidDecision([GoodEdf EXCEPT !.conv.plans = "ignored", !.decs = <<Place(4, 1, 2, Sd(1, 2), 10), Place(3, 1, 2, Sd(1, 6), 12)>>])
    /\ FailsExactly([GoodEdf EXCEPT !.decs = <<Place(4, 1, 2, Sd(1, 2), 10), Place(3, 1, 2, Sd(1, 6), 12)>>], {"C10.capacity"})
    /\ ValidDecision([GoodEdf EXCEPT !.conv.plans = "ignored", !.tasks[2].plan.tm = 10, !.decs = <<Place(4, 1, 2, Sd(1, 2), 10), Unplaced(3)>>])
    /\ FailsExactly([GoodEdf EXCEPT !.tasks[2].plan.tm = 10, !.decs = <<Place(4, 1, 2, Sd(1, 2), 10), Unplaced(3)>>], {"C10.capacity"})
    \*     an over-commitment that exists before the call is not charged to an innocent answer
    /\ ValidDecision([GoodSlots EXCEPT !.tasks[3] = Tk(SCHEDULED, 9, <<Str(1, 6)>>, [pool |-> 1, wk |-> 2, sd |-> Sd(1, 6), tm |-> 13], 6),
                                       !.offered = <<4>>, !.decs = <<Place(4, 1, 2, Sd(1, 2), 10)>>])
    \*     members of one batch share an allocation
    /\ ValidDecision([GoodEdf EXCEPT !.policy = "clockwork",
          !.decs = <<Place(4, 1, 2, [Sd(1, 2) EXCEPT !.bid = 7], 10), Place(3, 1, 2, [Sd(1, 6) EXCEPT !.bid = 7], 10)>>,
          !.tasks[4].strats = <<Str(1, 2), Str(1, 6)>>])
    \*     no strategy reported (Z3): some strategy of the task must fit - 3 on worker 2 (1 gpu) can only
    \*     take its 1-gpu strategy; on worker 1 beside the running task likewise; a 2-gpu-only task fits nowhere now
    /\ ValidDecision([GoodSlots EXCEPT !.policy = "z3", !.decs = <<Place(3, 1, 2, NoSd, 15)>>])
    /\ ValidDecision([GoodSlots EXCEPT !.policy = "z3", !.decs = <<Place(3, 1, 1, NoSd, 10)>>])
    /\ FailsExactly([GoodSlots EXCEPT !.policy = "z3", !.decs = <<Place(3, 1, 1, NoSd, 10)>>,
                                      !.tasks[3].strats = <<Str(2, 4)>>], {"C10.capacity"})
    /\ CapacityCirc([GoodSlots EXCEPT !.policy = "z3", !.decs = <<Place(3, 1, 1, NoSd, 10)>>,
                                      !.tasks[3].strats = <<Str(2, 4)>>]) = {"new", "running"}
    /\ FailsExactly([GoodSlots EXCEPT !.policy = "z3", !.decs = <<Place(3, 1, 2, NoSd, 11)>>], {"C10.capacity"})
    \* (6) a task state, a plan or an availability differs after the call
    /\ FailsExactly([GoodEdf EXCEPT !.post.ts[3].st = SCHEDULED], {"C10.side_effect_free"})
    /\ SideEffectFree([GoodEdf EXCEPT !.post.cl[1][2] = <<0>>]) = {-102}
    \* side clauses
    /\ Offenders("conv.start_lb", [GoodIlp EXCEPT !.decs[1].tm = 10]) = {3}
    /\ Offenders("conv.grid", [GoodSlots EXCEPT !.conv.grid = 4]) = {}
    /\ Offenders("conv.grid", [GoodSlots EXCEPT !.conv.grid = 4, !.decs[1].tm = 11]) = {4}
=============================================================================
