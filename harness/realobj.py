"""Builders for real repository objects from abstract (JSON-like) descriptions."""
from __future__ import annotations

from .common import import_repo

_ns = None


def ns():
    global _ns
    if _ns is None:
        import_repo()
        import utils
        import workers
        import workload

        class NS:
            pass

        _ns = NS()
        _ns.utils = utils
        _ns.workload = workload
        _ns.workers = workers
        _ns.EventTime = utils.EventTime
        for k in (
            "Resource Resources ExecutionStrategy ExecutionStrategies BatchStrategy WorkProfile Job JobGraph "
            "Task TaskGraph TaskState Workload Placement Placements"
        ).split():
            setattr(_ns, k, getattr(workload, k))
        for k in "Worker WorkerPool WorkerPools".split():
            setattr(_ns, k, getattr(workers, k))
    return _ns


def us(n: int):
    N = ns()
    return N.EventTime(int(n), N.EventTime.Unit.US)


def mk_request(dem):
    """dem: sequence of {name,id,q} -> Resources request vector (dict order = sequence order)."""
    N = ns()
    return N.Resources(resource_vector={N.Resource(name=e["name"], _id=e["id"]): e["q"] for e in dem})


def mk_vector(insts):
    """insts: sequence of {name,id,cap} -> (Resources, [Resource per instance])."""
    N = ns()
    rs = [N.Resource(name=i["name"], _id=i["id"]) for i in insts]
    return N.Resources(resource_vector={r: i["cap"] for r, i in zip(rs, insts)}), rs


def mk_strategy(dem, runtime=1, batch_size=1):
    N = ns()
    return N.ExecutionStrategy(resources=mk_request(dem), batch_size=batch_size, runtime=us(runtime))


def mk_profile(name, strategies, loading=None):
    N = ns()
    return N.WorkProfile(
        name=name,
        execution_strategies=N.ExecutionStrategies(strategies=list(strategies)),
        loading_strategies=N.ExecutionStrategies(strategies=list(loading or [])),
    )


def mk_job(name, profile=None, conditional=False, terminal=False, probability=1.0):
    N = ns()
    return N.Job(name=name, profile=profile, conditional=conditional, terminal=terminal, probability=probability)


def mk_task(name, graph="G", profile=None, deadline=10**6, release=-1, job=None, timestamp=0):
    N = ns()
    if profile is None:
        profile = mk_profile(f"{name}_p", [mk_strategy([{"name": "cpu", "id": "any", "q": 1}])])
    return N.Task(
        name=name,
        task_graph=graph,
        job=job or mk_job(name, profile),
        profile=profile,
        deadline=us(deadline),
        timestamp=timestamp,
        release_time=us(release),
    )
