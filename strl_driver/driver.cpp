// Stand-alone driver binding the TLA+ specification spec/Strl.tla to the real STRL
// compiler of schedulers/tetrisched (Expression / CapacityConstraint / SolverModel /
// OptimizationPasses / Partition / Types, compiled unchanged against the sequential
// TBB shim in tbb_shim/).
//
//   driver <jobs.json> <out.json> [CPU seconds per job, default 20]
//
// jobs.json: {"jobs": [JOB, ...]}   out.json: {"results": [RESULT, ...]}
//
// JOB = {"id": str,
//        "partitions": [{"id": int, "name": str, "quantity": int}, ...],
//        "nodes": [NODE, ...]   (children are referenced by node id: shared
//                                sub-expressions are the same C++ object),
//        "root": node id, "current_time": int, "discretization": int,
//        "overlap": bool (CapacityConstraintMap useOverlapConstraints),
//        "time_ranges": [[start, end, granularity], ...]   (optional explicit
//                                dynamic discretisation of the capacity map),
//        "passes": ["critical_path" | "capacity_purge" | "dynamic_discretization"],
//        "pass_config": {"min_disc", "max_disc", "max_occupancy"}   (optional),
//        "solutions": [[value of variable 0, value of variable 1, ...], ...]}
// NODE = {"id", "type", "name", "children": [ids]} plus, per type,
//   Choose:           partitions [ids], num, start, duration, utility
//   WindowedChoose:   partitions, num, start, duration, end, granularity, utility
//   MalleableChoose:  partitions, slots, start, end, granularity, utility
//   Allocation:       alloc [[partition id, quantity], ...], start, duration
//   Scale:            factor, disregard
//   Objective / Min / Max / LessThan: children only.
//
// The driver mirrors Scheduler::registerSTRL: pre-translation passes, parse(),
// post-translation passes -- all real code.  RESULT carries the dumped SolverModel
// (variables in creation order, constraints with an `active` flag, objective), the
// ParseResult of every node, and, for every entry of "solutions", the outcome of
// setting the variable values and calling populateResults() on a freshly compiled
// copy of the tree (the solution is cached inside Expression objects, so every
// read-back needs its own compilation; the driver checks that the recompiled model
// has the same shape).
//
// SolverModelT's constructor and the variable / constraint internals are private
// with `friend tetrisched::GoogleCPSolver`; that class is not compiled here (OR-tools
// is absent), so the driver defines it and uses it as its access point.

#include <poll.h>
#include <signal.h>
#include <sys/types.h>
#include <sys/wait.h>
#include <unistd.h>

#include <algorithm>
#include <cerrno>
#include <chrono>
#include <cmath>
#include <cstdio>
#include <cstdlib>
#include <fstream>
#include <map>
#include <sstream>
#include <stdexcept>
#include <string>
#include <vector>

#include "tetrisched/CapacityConstraint.hpp"
#include "tetrisched/Expression.hpp"
#include "tetrisched/OptimizationPasses.hpp"
#include "tetrisched/Partition.hpp"
#include "tetrisched/SolverModel.hpp"

// ---------------------------------------------------------------------------
// minimal JSON

struct J {
  enum T { Null, Bool, Num, Str, Arr, Obj } t = Null;
  bool b = false;
  double n = 0;
  std::string s;
  std::vector<J> a;
  std::vector<std::pair<std::string, J>> o;

  J() {}
  static J null() { return J(); }
  static J boolean(bool v) {
    J j;
    j.t = Bool;
    j.b = v;
    return j;
  }
  static J num(double v) {
    J j;
    j.t = Num;
    j.n = v;
    return j;
  }
  static J str(const std::string& v) {
    J j;
    j.t = Str;
    j.s = v;
    return j;
  }
  static J arr() {
    J j;
    j.t = Arr;
    return j;
  }
  static J obj() {
    J j;
    j.t = Obj;
    return j;
  }
  J& push(const J& v) {
    a.push_back(v);
    return *this;
  }
  J& set(const std::string& k, const J& v) {
    for (auto& kv : o)
      if (kv.first == k) {
        kv.second = v;
        return *this;
      }
    o.emplace_back(k, v);
    return *this;
  }
  const J* find(const std::string& k) const {
    if (t != Obj) return nullptr;
    for (auto& kv : o)
      if (kv.first == k) return &kv.second;
    return nullptr;
  }
  bool has(const std::string& k) const {
    auto p = find(k);
    return p && p->t != Null;
  }
  const J& at(const std::string& k) const {
    auto p = find(k);
    if (!p) throw std::runtime_error("missing JSON key: " + k);
    return *p;
  }
  double number() const {
    if (t != Num) throw std::runtime_error("JSON number expected");
    return n;
  }
  long long integer() const { return static_cast<long long>(std::llround(number())); }
  const std::string& string() const {
    if (t != Str) throw std::runtime_error("JSON string expected");
    return s;
  }
  bool boolean_() const {
    if (t != Bool) throw std::runtime_error("JSON bool expected");
    return b;
  }
  const std::vector<J>& array() const {
    if (t != Arr) throw std::runtime_error("JSON array expected");
    return a;
  }
};

class JParser {
  const std::string& s;
  size_t i = 0;
  void ws() {
    while (i < s.size() && (s[i] == ' ' || s[i] == '\n' || s[i] == '\t' || s[i] == '\r')) i++;
  }
  [[noreturn]] void fail(const std::string& m) {
    throw std::runtime_error("JSON parse error at " + std::to_string(i) + ": " + m);
  }
  std::string parseString() {
    if (s[i] != '"') fail("string expected");
    i++;
    std::string out;
    while (i < s.size() && s[i] != '"') {
      if (s[i] == '\\') {
        i++;
        if (i >= s.size()) fail("bad escape");
        char c = s[i++];
        switch (c) {
          case 'n': out += '\n'; break;
          case 't': out += '\t'; break;
          case 'r': out += '\r'; break;
          case 'b': out += '\b'; break;
          case 'f': out += '\f'; break;
          case 'u': {
            if (i + 4 > s.size()) fail("bad \\u");
            unsigned v = std::stoul(s.substr(i, 4), nullptr, 16);
            i += 4;
            if (v < 0x80) out += static_cast<char>(v);
            else out += '?';
            break;
          }
          default: out += c;
        }
      } else {
        out += s[i++];
      }
    }
    if (i >= s.size()) fail("unterminated string");
    i++;
    return out;
  }

 public:
  explicit JParser(const std::string& text) : s(text) {}
  J value() {
    ws();
    if (i >= s.size()) fail("unexpected end");
    char c = s[i];
    if (c == '{') {
      i++;
      J j = J::obj();
      ws();
      if (s[i] == '}') {
        i++;
        return j;
      }
      while (true) {
        ws();
        std::string k = parseString();
        ws();
        if (s[i] != ':') fail("':' expected");
        i++;
        j.o.emplace_back(k, value());
        ws();
        if (s[i] == ',') {
          i++;
          continue;
        }
        if (s[i] == '}') {
          i++;
          return j;
        }
        fail("',' or '}' expected");
      }
    }
    if (c == '[') {
      i++;
      J j = J::arr();
      ws();
      if (s[i] == ']') {
        i++;
        return j;
      }
      while (true) {
        j.a.push_back(value());
        ws();
        if (s[i] == ',') {
          i++;
          continue;
        }
        if (s[i] == ']') {
          i++;
          return j;
        }
        fail("',' or ']' expected");
      }
    }
    if (c == '"') return J::str(parseString());
    if (s.compare(i, 4, "true") == 0) {
      i += 4;
      return J::boolean(true);
    }
    if (s.compare(i, 5, "false") == 0) {
      i += 5;
      return J::boolean(false);
    }
    if (s.compare(i, 4, "null") == 0) {
      i += 4;
      return J::null();
    }
    size_t j0 = i;
    while (i < s.size() && (std::isdigit(static_cast<unsigned char>(s[i])) || s[i] == '-' || s[i] == '+' ||
                            s[i] == '.' || s[i] == 'e' || s[i] == 'E'))
      i++;
    if (j0 == i) fail("value expected");
    return J::num(std::stod(s.substr(j0, i - j0)));
  }
  J document() {
    J v = value();
    ws();
    if (i != s.size()) fail("trailing characters");
    return v;
  }
};

static void writeJ(std::ostream& os, const J& j) {
  switch (j.t) {
    case J::Null: os << "null"; break;
    case J::Bool: os << (j.b ? "true" : "false"); break;
    case J::Num: {
      if (std::isnan(j.n) || std::isinf(j.n)) {
        os << "null";
      } else if (std::floor(j.n) == j.n && std::fabs(j.n) < 9e15) {
        os << static_cast<long long>(j.n);
      } else {
        char buf[64];
        std::snprintf(buf, sizeof buf, "%.17g", j.n);
        os << buf;
      }
      break;
    }
    case J::Str: {
      os << '"';
      for (char c : j.s) {
        switch (c) {
          case '"': os << "\\\""; break;
          case '\\': os << "\\\\"; break;
          case '\n': os << "\\n"; break;
          case '\t': os << "\\t"; break;
          case '\r': os << "\\r"; break;
          default:
            if (static_cast<unsigned char>(c) < 0x20) {
              char buf[8];
              std::snprintf(buf, sizeof buf, "\\u%04x", c);
              os << buf;
            } else {
              os << c;
            }
        }
      }
      os << '"';
      break;
    }
    case J::Arr: {
      os << '[';
      bool first = true;
      for (auto& v : j.a) {
        if (!first) os << ',';
        first = false;
        writeJ(os, v);
      }
      os << ']';
      break;
    }
    case J::Obj: {
      os << '{';
      bool first = true;
      for (auto& kv : j.o) {
        if (!first) os << ',';
        first = false;
        writeJ(os, J::str(kv.first));
        os << ':';
        writeJ(os, kv.second);
      }
      os << '}';
      break;
    }
  }
}

// ---------------------------------------------------------------------------
// access point into the library's private parts

namespace tetrisched {
class GoogleCPSolver {
 public:
  static SolverModelPtr newModel() { return SolverModelPtr(new SolverModel()); }

  /// Variables of the model in creation order (ids come from a process-wide counter).
  static std::vector<VariablePtr> variables(const SolverModelPtr& m) {
    std::vector<VariablePtr> out;
    for (auto& kv : m->modelVariables) out.push_back(kv.second);
    std::sort(out.begin(), out.end(),
              [](const VariablePtr& x, const VariablePtr& y) { return x->getId() < y->getId(); });
    return out;
  }
  static std::vector<ConstraintPtr> constraints(const SolverModelPtr& m) {
    std::vector<ConstraintPtr> out;
    for (auto& kv : m->modelConstraints) out.push_back(kv.second);
    std::sort(out.begin(), out.end(),
              [](const ConstraintPtr& x, const ConstraintPtr& y) { return x->getId() < y->getId(); });
    return out;
  }
  static const char* typeName(const VariablePtr& v) {
    switch (v->variableType) {
      case VAR_CONTINUOUS: return "CONTINUOUS";
      case VAR_INTEGER: return "INTEGER";
      case VAR_INDICATOR: return "INDICATOR";
    }
    return "UNKNOWN";
  }
  static void setValue(const VariablePtr& v, TETRISCHED_ILP_TYPE x) { v->solutionValue = x; }

  static J dumpVariable(const VariablePtr& v, size_t index) {
    J j = J::obj();
    j.set("i", J::num(static_cast<double>(index)));
    j.set("name", J::str(v->variableName));
    j.set("type", J::str(typeName(v)));
    j.set("lb", v->lowerBound.has_value() ? J::num(v->lowerBound.value()) : J::null());
    j.set("ub", v->upperBound.has_value() ? J::num(v->upperBound.value()) : J::null());
    return j;
  }
  static J dumpTerms(const tbb::concurrent_vector<std::pair<TETRISCHED_ILP_TYPE, VariablePtr>>& terms,
                     const std::map<uint32_t, size_t>& index) {
    J a = J::arr();
    for (auto& term : terms) {
      J t = J::arr();
      t.push(J::num(term.first));
      if (term.second) {
        auto it = index.find(term.second->getId());
        // A variable that was never added to the model: index -2 (reported by the harness).
        t.push(J::num(it == index.end() ? -2.0 : static_cast<double>(it->second)));
      } else {
        t.push(J::num(-1));  // constant term
      }
      a.push(t);
    }
    return a;
  }
  static J dumpConstraint(const ConstraintPtr& c, const std::map<uint32_t, size_t>& index) {
    J j = J::obj();
    j.set("name", J::str(c->constraintName));
    const char* sense = c->constraintType == CONSTR_LE ? "LE" : (c->constraintType == CONSTR_EQ ? "EQ" : "GE");
    j.set("sense", J::str(sense));
    j.set("rhs", J::num(c->rightHandSide));
    j.set("active", J::boolean(c->active));
    j.set("lazy", J::boolean(c->attributes.count(LAZY_CONSTRAINT) > 0));
    j.set("terms", dumpTerms(c->terms, index));
    return j;
  }
  static J dumpObjective(const SolverModelPtr& m, const std::map<uint32_t, size_t>& index) {
    if (!m->objectiveFunction) return J::null();
    J j = J::obj();
    j.set("sense", J::str(m->objectiveFunction->objectiveType == OBJ_MAXIMIZE ? "MAX" : "MIN"));
    j.set("terms", dumpTerms(m->objectiveFunction->terms, index));
    auto ub = m->objectiveFunction->getUpperBound();
    j.set("ub", ub.has_value() ? J::num(ub.value()) : J::null());
    return j;
  }
};
}  // namespace tetrisched

using namespace tetrisched;

// ---------------------------------------------------------------------------
// building the expression DAG

struct Built {
  std::map<std::string, ExpressionPtr> nodes;
  std::vector<std::string> order;  // node ids in input order
  ExpressionPtr root;
  Partitions partitions;
  std::map<uint32_t, PartitionPtr> partitionById;
};

static Partitions pickPartitions(const Built& b, const J& ids) {
  Partitions ps;
  for (auto& v : ids.array()) {
    auto it = b.partitionById.find(static_cast<uint32_t>(v.integer()));
    if (it == b.partitionById.end()) throw std::runtime_error("unknown partition id in node");
    ps.addPartition(it->second);
  }
  return ps;
}

static Built buildTree(const J& job) {
  Built b;
  for (auto& p : job.at("partitions").array()) {
    auto id = static_cast<uint32_t>(p.at("id").integer());
    auto part = std::make_shared<Partition>(id, p.at("name").string(),
                                            static_cast<size_t>(p.at("quantity").integer()));
    b.partitionById[id] = part;
    b.partitions.addPartition(part);
  }
  // first create every node, then wire the children (children may be listed later)
  for (auto& n : job.at("nodes").array()) {
    const std::string& id = n.at("id").string();
    const std::string& type = n.at("type").string();
    const std::string& name = n.at("name").string();
    ExpressionPtr e;
    if (type == "Objective") {
      e = std::make_shared<ObjectiveExpression>(name);
    } else if (type == "Min") {
      e = std::make_shared<MinExpression>(name);
    } else if (type == "Max") {
      e = std::make_shared<MaxExpression>(name);
    } else if (type == "LessThan") {
      e = std::make_shared<LessThanExpression>(name);
    } else if (type == "Scale") {
      bool disregard = n.has("disregard") && n.at("disregard").boolean_();
      e = std::make_shared<ScaleExpression>(name, n.at("factor").number(), disregard);
    } else if (type == "Choose") {
      e = std::make_shared<ChooseExpression>(
          name, pickPartitions(b, n.at("partitions")), static_cast<uint32_t>(n.at("num").integer()),
          static_cast<Time>(n.at("start").integer()), static_cast<Time>(n.at("duration").integer()),
          n.at("utility").number());
    } else if (type == "WindowedChoose") {
      e = std::make_shared<WindowedChooseExpression>(
          name, pickPartitions(b, n.at("partitions")), static_cast<uint32_t>(n.at("num").integer()),
          static_cast<Time>(n.at("start").integer()), static_cast<Time>(n.at("duration").integer()),
          static_cast<Time>(n.at("end").integer()), static_cast<Time>(n.at("granularity").integer()),
          n.at("utility").number());
    } else if (type == "MalleableChoose") {
      e = std::make_shared<MalleableChooseExpression>(
          name, pickPartitions(b, n.at("partitions")), static_cast<uint32_t>(n.at("slots").integer()),
          static_cast<Time>(n.at("start").integer()), static_cast<Time>(n.at("end").integer()),
          static_cast<Time>(n.at("granularity").integer()), n.at("utility").number());
    } else if (type == "Allocation") {
      PriorPlacement pp;
      for (auto& a : n.at("alloc").array()) {
        auto it = b.partitionById.find(static_cast<uint32_t>(a.array().at(0).integer()));
        if (it == b.partitionById.end()) throw std::runtime_error("unknown partition id in Allocation");
        pp.push_back({it->second, static_cast<uint32_t>(a.array().at(1).integer())});
      }
      e = std::make_shared<AllocationExpression>(name, pp, static_cast<Time>(n.at("start").integer()),
                                                 static_cast<Time>(n.at("duration").integer()));
    } else {
      throw std::runtime_error("unknown node type " + type);
    }
    if (b.nodes.count(id)) throw std::runtime_error("duplicate node id " + id);
    b.nodes[id] = e;
    b.order.push_back(id);
  }
  for (auto& n : job.at("nodes").array()) {
    if (!n.has("children")) continue;
    auto parent = b.nodes.at(n.at("id").string());
    for (auto& c : n.at("children").array()) {
      auto it = b.nodes.find(c.string());
      if (it == b.nodes.end()) throw std::runtime_error("unknown child id " + c.string());
      parent->addChild(it->second);
    }
  }
  auto rit = b.nodes.find(job.at("root").string());
  if (rit == b.nodes.end()) throw std::runtime_error("unknown root id");
  b.root = rit->second;
  return b;
}

// ---------------------------------------------------------------------------
// compile = Scheduler::registerSTRL without a solver back-end

struct Compiled {
  Built tree;
  SolverModelPtr model;
  CapacityConstraintMapPtr capacity;
  std::vector<VariablePtr> vars;
  std::vector<ConstraintPtr> cons;
  std::map<uint32_t, size_t> index;
  std::string stage;  // last stage entered (for error reports)
};

static void compile(const J& job, Compiled& c) {
  c.stage = "build";
  c.tree = buildTree(job);
  Time currentTime = static_cast<Time>(job.at("current_time").integer());
  Time discretization = static_cast<Time>(job.at("discretization").integer());
  bool overlap = job.has("overlap") && job.at("overlap").boolean_();
  c.model = GoogleCPSolver::newModel();
  if (job.has("time_ranges") && !job.at("time_ranges").array().empty()) {
    std::vector<std::pair<TimeRange, Time>> ranges;
    for (auto& r : job.at("time_ranges").array()) {
      ranges.push_back({{static_cast<Time>(r.array().at(0).integer()), static_cast<Time>(r.array().at(1).integer())},
                        static_cast<Time>(r.array().at(2).integer())});
    }
    c.capacity = std::make_shared<CapacityConstraintMap>(ranges, overlap);
  } else {
    c.capacity = std::make_shared<CapacityConstraintMap>(discretization, overlap);
  }
  auto config = std::make_shared<OptimizationPassConfig>();
  if (job.has("pass_config")) {
    auto& pc = job.at("pass_config");
    if (pc.has("min_disc")) config->minDiscretization = static_cast<Time>(pc.at("min_disc").integer());
    if (pc.has("max_disc")) config->maxDiscretization = static_cast<Time>(pc.at("max_disc").integer());
    if (pc.has("max_occupancy")) config->maxOccupancyThreshold = static_cast<float>(pc.at("max_occupancy").number());
  }
  OptimizationPassRunner runner(config, false);
  if (job.has("passes")) {
    for (auto& p : job.at("passes").array()) {
      const std::string& name = p.string();
      if (name == "critical_path") runner.addOptimizationPass(CRITICAL_PATH_PASS);
      else if (name == "capacity_purge") runner.addOptimizationPass(CAPACITY_CONSTRAINT_PURGE_PASS);
      else if (name == "dynamic_discretization") runner.addOptimizationPass(DYNAMIC_DISCRETIZATION_PASS);
      else throw std::runtime_error("unknown pass " + name);
    }
  }
  c.stage = "pre_passes";
  runner.runPreTranslationPasses(currentTime, c.tree.root, c.capacity);
  c.stage = "parse";
  c.tree.root->parse(c.model, c.tree.partitions, c.capacity, currentTime);
  c.stage = "post_passes";
  runner.runPostTranslationPasses(currentTime, c.tree.root, c.capacity);
  c.stage = "dump";
  c.vars = GoogleCPSolver::variables(c.model);
  c.cons = GoogleCPSolver::constraints(c.model);
  for (size_t i = 0; i < c.vars.size(); i++) c.index[c.vars[i]->getId()] = i;
}

template <typename X>
static J dumpXOr(const std::optional<XOrVariableT<X>>& v, const std::map<uint32_t, size_t>& index) {
  if (!v.has_value()) return J::null();
  J j = J::obj();
  if (v->isVariable()) {
    auto var = v->template get<VariablePtr>();
    auto it = index.find(var->getId());
    j.set("v", J::num(it == index.end() ? -2.0 : static_cast<double>(it->second)));
  } else {
    j.set("c", J::num(static_cast<double>(v->template get<X>())));
  }
  return j;
}

static J dumpBounds(const ExpressionTimeBounds& tb) {
  J j = J::arr();
  j.push(J::num(tb.startTimeRange.first)).push(J::num(tb.startTimeRange.second));
  j.push(J::num(tb.endTimeRange.first)).push(J::num(tb.endTimeRange.second));
  j.push(J::num(tb.duration));
  return j;
}

static J dumpCompiled(const Compiled& c) {
  J out = J::obj();
  J vars = J::arr();
  for (size_t i = 0; i < c.vars.size(); i++) vars.push(GoogleCPSolver::dumpVariable(c.vars[i], i));
  out.set("vars", vars);
  J cons = J::arr();
  for (auto& k : c.cons) cons.push(GoogleCPSolver::dumpConstraint(k, c.index));
  out.set("cons", cons);
  out.set("obj", GoogleCPSolver::dumpObjective(c.model, c.index));
  // reverse map expression -> node id for the post-pass children lists
  std::map<const Expression*, std::string> idOf;
  for (auto& kv : c.tree.nodes) idOf[kv.second.get()] = kv.first;
  J nodes = J::obj();
  for (auto& id : c.tree.order) {
    auto& e = c.tree.nodes.at(id);
    J n = J::obj();
    n.set("type", J::str(e->getTypeString()));
    J ch = J::arr();
    for (auto& child : e->getChildren()) {
      auto it = idOf.find(child.get());
      ch.push(J::str(it == idOf.end() ? "?" : it->second));
    }
    n.set("children", ch);
    n.set("bounds", dumpBounds(e->getTimeBounds()));
    auto pr = e->getParsedResult();
    if (!pr.has_value()) {
      n.set("parsed", J::boolean(false));
    } else {
      n.set("parsed", J::boolean(true));
      n.set("ptype", J::str(pr.value()->type == EXPRESSION_UTILITY ? "UTILITY" : "NO_UTILITY"));
      n.set("ind", dumpXOr<uint32_t>(pr.value()->indicator, c.index));
      n.set("start", dumpXOr<Time>(pr.value()->startTime, c.index));
      n.set("end", dumpXOr<Time>(pr.value()->endTime, c.index));
      if (pr.value()->utility.has_value() && pr.value()->utility.value()) {
        auto ub = pr.value()->utility.value()->getUpperBound();
        n.set("utility_ub", ub.has_value() ? J::num(ub.value()) : J::null());
      }
    }
    nodes.set(id, n);
  }
  out.set("nodes", nodes);
  return out;
}

// signature used to check that a recompilation produced the same model
static std::string shapeOf(const Compiled& c) {
  std::ostringstream os;
  for (auto& v : c.vars) {
    os << GoogleCPSolver::typeName(v) << ':' << (v->getLowerBound().has_value() ? v->getLowerBound().value() : -7777)
       << ':' << (v->getUpperBound().has_value() ? v->getUpperBound().value() : -7777) << ';';
  }
  os << '|';
  for (auto& k : c.cons) {
    J d = GoogleCPSolver::dumpConstraint(k, c.index);
    writeJ(os, d.at("sense"));
    writeJ(os, d.at("rhs"));
    writeJ(os, d.at("active"));
    writeJ(os, d.at("terms"));
  }
  os << '|';
  J o = GoogleCPSolver::dumpObjective(c.model, c.index);
  if (o.t == J::Obj) writeJ(os, o.at("terms"));
  return os.str();
}

static J dumpPlacement(const PlacementPtr& p) {
  J j = J::obj();
  bool placed = false;
  try {
    placed = p->isPlaced();
  } catch (std::exception& e) {
    j.set("error", J::str(e.what()));
  }
  j.set("placed", J::boolean(placed));
  j.set("start", p->getStartTime().has_value() ? J::num(p->getStartTime().value()) : J::null());
  j.set("end", p->getEndTime().has_value() ? J::num(p->getEndTime().value()) : J::null());
  std::vector<std::array<double, 3>> rows;
  for (auto& [pid, allocs] : p->getPartitionAllocations())
    for (auto& [t, amount] : allocs) rows.push_back({static_cast<double>(pid), static_cast<double>(t), static_cast<double>(amount)});
  std::sort(rows.begin(), rows.end());
  J a = J::arr();
  for (auto& r : rows) a.push(J::arr().push(J::num(r[0])).push(J::num(r[1])).push(J::num(r[2])));
  j.set("alloc", a);
  return j;
}

static J dumpSolution(const std::optional<SolutionResultPtr>& s) {
  if (!s.has_value()) return J::null();
  auto& sol = s.value();
  J j = J::obj();
  j.set("type", J::str(sol->type == EXPRESSION_UTILITY ? "UTILITY" : "NO_UTILITY"));
  j.set("utility", sol->utility.has_value() ? J::num(sol->utility.value()) : J::null());
  j.set("start", sol->startTime.has_value() ? J::num(sol->startTime.value()) : J::null());
  j.set("end", sol->endTime.has_value() ? J::num(sol->endTime.value()) : J::null());
  std::vector<std::string> names;
  for (auto& kv : sol->placements) names.push_back(kv.first);
  std::sort(names.begin(), names.end());
  J pl = J::obj();
  for (auto& nm : names) pl.set(nm, dumpPlacement(sol->placements.at(nm)));
  j.set("placements", pl);
  J sat = J::arr();
  for (auto& nm : sol->satsifiedExpressionNames) sat.push(J::str(nm));
  j.set("sat_names", sat);
  return j;
}

static J errorJ(const std::string& stage, const std::string& kind, const std::string& what) {
  J e = J::obj();
  e.set("stage", J::str(stage));
  e.set("kind", J::str(kind));
  e.set("what", J::str(what));
  return e;
}

template <typename F>
static bool guarded(const std::string& stage, J& sink, F&& f) {
  try {
    f();
    return true;
  } catch (exceptions::ExpressionConstructionException& e) {
    sink.set("error", errorJ(stage, "ExpressionConstructionException", e.what()));
  } catch (exceptions::ExpressionSolutionException& e) {
    sink.set("error", errorJ(stage, "ExpressionSolutionException", e.what()));
  } catch (exceptions::SolverException& e) {
    sink.set("error", errorJ(stage, "SolverException", e.what()));
  } catch (exceptions::RuntimeException& e) {
    sink.set("error", errorJ(stage, "RuntimeException", e.what()));
  } catch (std::exception& e) {
    sink.set("error", errorJ(stage, "std::exception", e.what()));
  }
  return false;
}

static J runJob(const J& job) {
  J res = J::obj();
  res.set("id", job.has("id") ? job.at("id") : J::str(""));
  Compiled first;
  {
    J sink = J::obj();
    bool ok = guarded("compile", sink, [&] { compile(job, first); });
    if (!ok) {
      J err = sink.at("error");
      err.set("stage", J::str(first.stage));
      res.set("error", err);
      return res;
    }
  }
  res.set("model", dumpCompiled(first));
  if (!job.has("solutions")) return res;
  std::string shape = shapeOf(first);
  J readbacks = J::arr();
  for (auto& solj : job.at("solutions").array()) {
    J rb = J::obj();
    Compiled c;
    bool ok = guarded("recompile", rb, [&] { compile(job, c); });
    if (ok && shapeOf(c) != shape) {
      rb.set("error", errorJ("recompile", "nondeterministic", "recompiled model differs from the dumped one"));
      ok = false;
    }
    if (ok && solj.array().size() != c.vars.size()) {
      rb.set("error", errorJ("recompile", "arity", "solution vector length differs from the variable count"));
      ok = false;
    }
    if (ok) {
      for (size_t i = 0; i < c.vars.size(); i++) GoogleCPSolver::setValue(c.vars[i], solj.array()[i].number());
      ok = guarded("populate", rb, [&] { c.tree.root->populateResults(c.model); });
    }
    if (ok) {
      guarded("objective", rb, [&] { rb.set("objective", J::num(c.model->getObjectiveValue())); });
      rb.set("root", dumpSolution(c.tree.root->getSolution()));
      J nodes = J::obj();
      for (auto& id : c.tree.order) nodes.set(id, dumpSolution(c.tree.nodes.at(id)->getSolution()));
      rb.set("nodes", nodes);
    }
    readbacks.push(rb);
  }
  res.set("readbacks", readbacks);
  return res;
}

// Jobs run in a forked child so that a crash or an endless loop inside the library
// (both are verdicts about the code under test, not machinery failures) costs one
// job, not the batch: the child works through the remaining jobs and streams one
// framed RESULT per job through a pipe; the parent enforces a wall-clock limit per
// job, and when the child dies or stalls it fails the job in progress and forks a
// new child for the rest.
static std::string failureText(const J& job, const std::string& kind, const std::string& what) {
  J res = J::obj();
  res.set("id", job.has("id") ? job.at("id") : J::str(""));
  res.set("error", errorJ("process", kind, what));
  std::ostringstream os;
  writeJ(os, res);
  return os.str();
}

static bool writeAll(int fd, const std::string& text) {
  size_t off = 0;
  while (off < text.size()) {
    ssize_t w = write(fd, text.data() + off, text.size() - off);
    if (w < 0 && errno == EINTR) continue;
    if (w <= 0) return false;
    off += static_cast<size_t>(w);
  }
  return true;
}

static void childLoop(const std::vector<J>& jobs, size_t from, int fd) {
  for (size_t k = from; k < jobs.size(); k++) {
    std::string text;
    try {
      J res = runJob(jobs[k]);
      std::ostringstream os;
      writeJ(os, res);
      text = os.str();
    } catch (std::exception& e) {
      text = failureText(jobs[k], "std::exception", e.what());
    } catch (...) {
      text = failureText(jobs[k], "unknown exception", "");
    }
    char header[32];
    std::snprintf(header, sizeof header, "%015zu\n", text.size());
    if (!writeAll(fd, header) || !writeAll(fd, text)) _exit(3);
  }
  close(fd);
  _exit(0);
}

// CPU seconds (user + system) consumed so far by process `pid`; -1 when unknown.
static double cpuSecondsOf(pid_t pid) {
  std::ifstream st("/proc/" + std::to_string(pid) + "/stat");
  std::string line;
  if (!std::getline(st, line)) return -1;
  auto close = line.rfind(')');  // the command name may contain spaces
  if (close == std::string::npos) return -1;
  std::istringstream rest(line.substr(close + 2));
  std::string field;
  unsigned long long utime = 0, stime = 0;
  for (int k = 3; k <= 15 && (rest >> field); k++) {  // fields 14 and 15 of the stat line
    if (k == 14) utime = std::stoull(field);
    if (k == 15) stime = std::stoull(field);
  }
  long ticks = sysconf(_SC_CLK_TCK);
  return static_cast<double>(utime + stime) / static_cast<double>(ticks > 0 ? ticks : 100);
}

// The limit per job is on the CPU time of the child (an endless loop burns CPU, a busy
// machine does not), with a generous wall-clock limit as a backstop.
static std::vector<std::string> runBatchIsolated(const std::vector<J>& jobs, int timeoutSeconds) {
  std::vector<std::string> results;
  while (results.size() < jobs.size()) {
    int fds[2];
    if (pipe(fds) != 0) throw std::runtime_error("pipe() failed");
    pid_t pid = fork();
    if (pid < 0) throw std::runtime_error("fork() failed");
    if (pid == 0) {
      close(fds[0]);
      childLoop(jobs, results.size(), fds[1]);
    }
    close(fds[1]);
    std::string buffer;
    bool timedOut = false;
    const int wallFactor = 30;
    auto deadline = std::chrono::steady_clock::now() + std::chrono::seconds(timeoutSeconds * wallFactor);
    double cpuAtJobStart = 0;
    char chunk[65536];
    while (results.size() < jobs.size()) {
      // complete frames in the buffer?
      bool progressed = false;
      while (buffer.size() >= 16) {
        size_t len = std::stoull(buffer.substr(0, 15));
        if (buffer.size() < 16 + len) break;
        results.push_back(buffer.substr(16, len));
        buffer.erase(0, 16 + len);
        progressed = true;
      }
      if (progressed) {
        deadline = std::chrono::steady_clock::now() + std::chrono::seconds(timeoutSeconds * wallFactor);
        double c = cpuSecondsOf(pid);
        if (c >= 0) cpuAtJobStart = c;
        continue;
      }
      auto left = std::chrono::duration_cast<std::chrono::milliseconds>(deadline - std::chrono::steady_clock::now()).count();
      double cpuNow = cpuSecondsOf(pid);
      if (left <= 0 || (cpuNow >= 0 && cpuNow - cpuAtJobStart > timeoutSeconds)) {
        timedOut = true;
        break;
      }
      struct pollfd pfd = {fds[0], POLLIN, 0};
      int pr = poll(&pfd, 1, static_cast<int>(std::min<long long>(left, 1000)));
      if (pr < 0 && errno != EINTR) break;
      if (pr <= 0) continue;
      ssize_t r = read(fds[0], chunk, sizeof chunk);
      if (r > 0) buffer.append(chunk, static_cast<size_t>(r));
      else if (r < 0 && errno == EINTR) continue;
      else break;  // EOF: the child is gone
    }
    close(fds[0]);
    if (timedOut || results.size() < jobs.size()) kill(pid, SIGKILL);
    int status = 0;
    waitpid(pid, &status, 0);
    if (results.size() < jobs.size()) {
      const J& job = jobs[results.size()];
      if (timedOut)
        results.push_back(failureText(job, "timeout", "no result after " + std::to_string(timeoutSeconds) +
                                                          " s of CPU time (endless loop in the library?)"));
      else if (WIFSIGNALED(status) && WTERMSIG(status) != SIGKILL)
        results.push_back(failureText(job, "crash", "killed by signal " + std::to_string(WTERMSIG(status))));
      else
        results.push_back(failureText(job, "crash", "child ended without a result, status " + std::to_string(status)));
    }
  }
  return results;
}

int main(int argc, char** argv) {
  if (argc != 3 && argc != 4) {
    std::fprintf(stderr, "usage: %s <jobs.json> <out.json> [seconds per job]\n", argv[0]);
    return 2;
  }
  int timeoutSeconds = argc == 4 ? std::max(1, std::atoi(argv[3])) : 20;
  try {
    std::ifstream in(argv[1]);
    if (!in) throw std::runtime_error(std::string("cannot read ") + argv[1]);
    std::stringstream ss;
    ss << in.rdbuf();
    std::string text = ss.str();
    J doc = JParser(text).document();
    auto results = runBatchIsolated(doc.at("jobs").array(), timeoutSeconds);
    std::ofstream out(argv[2]);
    if (!out) throw std::runtime_error(std::string("cannot write ") + argv[2]);
    out << "{\"results\":[";
    for (size_t k = 0; k < results.size(); k++) out << (k ? ",\n" : "") << results[k];
    out << "]}\n";
    out.close();
    if (!out) throw std::runtime_error("write failed");
  } catch (std::exception& e) {
    std::fprintf(stderr, "driver failure: %s\n", e.what());
    return 2;
  }
  return 0;
}
