-------------------------------- MODULE Dag --------------------------------
(* Definitions of the graph notions that workload/graph.py (Graph),         *)
(* workload/tasks.py (TaskGraph) and workload/jobs.py (JobGraph) promise.   *)
(*                                                                          *)
(* A graph is given by   n  (the nodes are 1..n),                            *)
(*                       E  (a set of pairs <<parent, child>>),              *)
(*                       W  (a function / sequence 1..n -> positive Nat).    *)
(* Every notion is an operator of (n, E, W) so that one TLC run can apply    *)
(* the definitions to thousands of recorded graphs (DagTrace.tla) and to     *)
(* every graph of a small universe (DagMC.tla).                               *)
(*                                                                          *)
(* Two families of definitions:                                             *)
(*   * the defining ones (brute force: path enumeration, recursion over      *)
(*     parents, quantification over subsets / permutations) -- exponential,  *)
(*     used for n <= 6;                                                      *)
(*   * polynomial ones (fixpoint closure, Kahn order, tables folded over a   *)
(*     topological order) -- used for graphs up to 40 nodes.                 *)
(* TLC cross-checks the two families on all small graphs (DagMC.tla).        *)
EXTENDS Naturals, Sequences, FiniteSets, TLC

-----------------------------------------------------------------------------
(* basics *)

Nodes(n) == 1..n
Range(s) == {s[i] : i \in 1..Len(s)}
NoDup(s) == Cardinality(Range(s)) = Len(s)
Max0(S) == IF S = {} THEN 0 ELSE CHOOSE x \in S : \A y \in S : y <= x
MinOf(S) == CHOOSE x \in S : \A y \in S : x <= y

Succ(E, a) == {e[2] : e \in {x \in E : x[1] = a}}
Pred(E, b) == {e[1] : e \in {x \in E : x[2] = b}}
Image(E, S) == {e[2] : e \in {x \in E : x[1] \in S}}

WellFormed(n, E) == \A e \in E : e[1] \in Nodes(n) /\ e[2] \in Nodes(n)

Sources(n, E) == {v \in Nodes(n) : Pred(E, v) = {}}
Sinks(n, E)   == {v \in Nodes(n) : Succ(E, v) = {}}

-----------------------------------------------------------------------------
(* reachability (least fixpoint; polynomial, defined for cyclic graphs too) *)

RECURSIVE Closure(_, _)
Closure(E, S) == LET T == S \cup Image(E, S) IN IF T = S THEN S ELSE Closure(E, T)

Reach(E, a)     == Closure(E, Succ(E, a))     \* through at least one edge
ReachStar(E, a) == Closure(E, {a})            \* a itself included

\* materialised table v -> Reach(E, v)
RECURSIVE ReachFold(_, _, _, _)
ReachFold(n, E, v, acc) ==
    IF v > n THEN acc ELSE ReachFold(n, E, v + 1, acc @@ (v :> Reach(E, v)))
ReachTable(n, E) == ReachFold(n, E, 1, <<>>)

\* <<p, d>> is a skip edge: d is also reachable from p through another child
SkipEdge(E, p, d) == <<p, d>> \in E /\ \E c \in Succ(E, p) \ {d} : d \in ReachStar(E, c)

HasCycle(n, E) == \E a \in Nodes(n) : a \in Reach(E, a)
IsDag(n, E)    == ~HasCycle(n, E)

\* defining form: a non-empty set of nodes each of which has a successor in the set
HasCycleDef(n, E) ==
    \E S \in SUBSET Nodes(n) : S # {} /\ \A a \in S : Succ(E, a) \cap S # {}

\* two distinct nodes are dependent iff one is reachable from the other
Dependent(E, a, b) == b \in Reach(E, a) \/ a \in Reach(E, b)

-----------------------------------------------------------------------------
(* orders *)

\* every node exactly once
IsPerm(n, s) == Len(s) = n /\ Range(s) = Nodes(n)
Pos(s, v) == CHOOSE i \in 1..Len(s) : s[i] = v

\* topological order: each node once, every node after all its predecessors
TopoOK(n, E, s) == IsPerm(n, s) /\ \A e \in E : Pos(s, e[1]) < Pos(s, e[2])

\* breadth-first iteration: every node once, every node after all its parents
BfsOK(n, E, s) ==
    /\ IsPerm(n, s)
    /\ \A i \in 1..Len(s) : \A p \in Pred(E, s[i]) : \E j \in 1..(i - 1) : s[j] = p

\* depth-first iteration from `start`: exactly the nodes reachable from it
\* (start included), each exactly once
DfsOK(E, start, s) == NoDup(s) /\ Range(s) = ReachStar(E, start)

\* depth-first iteration without a start node begins at the sources
DfsAllOK(n, E, s) == NoDup(s) /\ Range(s) = Closure(E, Sources(n, E))

\* canonical topological order (Kahn, least ready node first).  It has
\* length n exactly when the graph is acyclic.
RECURSIVE Kahn(_, _, _)
Kahn(n, E, done) ==
    LET placed == Range(done)
        ready  == {v \in Nodes(n) \ placed : Pred(E, v) \subseteq placed}
    IN  IF ready = {} THEN done ELSE Kahn(n, E, Append(done, MinOf(ready)))
CanonTopo(n, E) == Kahn(n, E, <<>>)

-----------------------------------------------------------------------------
(* depth: a source has depth 1, any other node 1 + the largest depth of its *)
(* parents, i.e. the number of nodes on the longest chain ending in it      *)

\* defining form (recursion over parents; exponential on DAGs with sharing)
RECURSIVE DepthDef(_, _)
DepthDef(E, v) == 1 + Max0({DepthDef(E, p) : p \in Pred(E, v)})

\* polynomial form: table folded over a topological order
RECURSIVE DepthFold(_, _, _, _)
DepthFold(E, order, k, acc) ==
    IF k > Len(order) THEN acc
    ELSE LET v == order[k]
         IN  DepthFold(E, order, k + 1,
                       acc @@ (v :> 1 + Max0({acc[p] : p \in Pred(E, v)})))
DepthTable(n, E) == DepthFold(E, CanonTopo(n, E), 1, <<>>)
Depth(n, E, v) == DepthTable(n, E)[v]

(* get_node_depth(node, func=min): the depth through the shallowest parent -- *)
(* a source has depth 1, any other node 1 + the SMALLEST (shallowest) depth   *)
(* of its parents, i.e. the number of nodes on the shortest chain from a     *)
(* source to it                                                              *)
RECURSIVE MinDepthDef(_, _)
MinDepthDef(E, v) ==
    IF Pred(E, v) = {} THEN 1 ELSE 1 + MinOf({MinDepthDef(E, p) : p \in Pred(E, v)})

RECURSIVE MinDepthFold(_, _, _, _)
MinDepthFold(E, order, k, acc) ==
    IF k > Len(order) THEN acc
    ELSE LET v == order[k]
         IN  MinDepthFold(E, order, k + 1,
                 acc @@ (v :> IF Pred(E, v) = {} THEN 1
                              ELSE 1 + MinOf({acc[p] : p \in Pred(E, v)})))
MinDepthTable(n, E) == MinDepthFold(E, CanonTopo(n, E), 1, <<>>)
MinDepth(n, E, v) == MinDepthTable(n, E)[v]

-----------------------------------------------------------------------------
(* source-to-sink paths and their weights *)

RECURSIVE Wt(_, _)
Wt(W, p) == IF p = <<>> THEN 0 ELSE W[Head(p)] + Wt(W, Tail(p))

\* defining form: enumeration of all paths (n <= 6)
RECURSIVE PathsFrom(_, _)
PathsFrom(E, v) ==
    IF Succ(E, v) = {} THEN {<<v>>}
    ELSE UNION {{<<v>> \o p : p \in PathsFrom(E, c)} : c \in Succ(E, v)}
Paths(n, E) == UNION {PathsFrom(E, s) : s \in Sources(n, E)}

LongestWeightDef(n, E, W) == Max0({Wt(W, p) : p \in Paths(n, E)})

\* polynomial characterisation of "p is a source-to-sink path"
IsSrcSinkPath(n, E, p) ==
    /\ Len(p) >= 1
    /\ \A i \in 1..Len(p) : p[i] \in Nodes(n)
    /\ p[1] \in Sources(n, E)
    /\ p[Len(p)] \in Sinks(n, E)
    /\ \A i \in 1..(Len(p) - 1) : <<p[i], p[i + 1]>> \in E

\* polynomial form: heaviest path ending in v, folded over a topological order
RECURSIVE LWFold(_, _, _, _, _)
LWFold(E, W, order, k, acc) ==
    IF k > Len(order) THEN acc
    ELSE LET v == order[k]
         IN  LWFold(E, W, order, k + 1,
                    acc @@ (v :> W[v] + Max0({acc[p] : p \in Pred(E, v)})))
LWTable(n, E, W) == LWFold(E, W, CanonTopo(n, E), 1, <<>>)
LongestWeight(n, E, W) ==
    LET t == LWTable(n, E, W) IN Max0({t[v] : v \in Sinks(n, E)})

\* the longest path returned is a real source-to-sink path of maximum weight
LongestPathOKDef(n, E, W, p) == p \in Paths(n, E) /\ Wt(W, p) = LongestWeightDef(n, E, W)
LongestPathOK(n, E, W, p)    == IsSrcSinkPath(n, E, p) /\ Wt(W, p) = LongestWeight(n, E, W)

\* Graph.get_longest_path(weights=None): a source counts 1, any other node 2
DefaultW(n, E) == [v \in Nodes(n) |-> IF v \in Sources(n, E) THEN 1 ELSE 2]

-----------------------------------------------------------------------------
(* The graph OBJECT as a state machine.  A Graph / TaskGraph / JobGraph is    *)
(* mutable: its state is the current node set V and edge set E; the public   *)
(* mutators are add_node, add_child and remove.  Every public query must be  *)
(* a function of the CURRENT state <<V, E>> only -- never of the history of  *)
(* earlier queries or of the way the state was reached.  (DagTrace judges    *)
(* every recorded query against the state at the version it was asked on;    *)
(* DagMC explores the machine and is the generator of mutate / query walks.) *)

EmptyG == [V |-> {}, E |-> {}]
WellFormedG(G) == \A e \in G.E : e[1] \in G.V /\ e[2] \in G.V

\* add_node(v): a node without children; a no-op on an existing node
AddNodeG(G, v) == [V |-> G.V \cup {v}, E |-> G.E]

\* add_child(a, c): the parent must be a node (ValueError otherwise); the child
\* becomes a node if it is none yet.  Graphs are simple: an edge is added once.
CanAddChild(G, a, c) == a \in G.V /\ <<a, c>> \notin G.E
AddChildG(G, a, c) == [V |-> G.V \cup {c}, E |-> G.E \cup {<<a, c>>}]

\* remove(v): Graph.remove unlinks v from its children only (the child lists of
\* its parents keep it), so the object is a graph again exactly when v has no
\* parent; only that case belongs to the machine.  The node disappears together
\* with its outgoing edges.
CanRemove(G, v) == v \in G.V /\ Pred(G.E, v) = {}
RemoveG(G, v) == [V |-> G.V \ {v}, E |-> {e \in G.E : e[1] # v}]

\* Graph(mapping) = add_node(node, *children) for every item of the mapping,
\* add_node(node, *children) = add_node(node); add_child(node, c) for every c
RECURSIVE AddChildrenG(_, _, _, _)
AddChildrenG(G, a, cs, k) ==
    IF k > Len(cs) THEN G ELSE AddChildrenG(AddChildG(G, a, cs[k]), a, cs, k + 1)

\* The definitions above are written for node sets 1..n.  After a removal the
\* node set is an arbitrary finite set of naturals: it is renamed to 1..|V|
\* by rank (order preserving); a value that is no node is renamed to 0.
Rank(V, v) == IF v \in V THEN Cardinality({u \in V : u <= v}) ELSE 0
Unrank(V, i) == CHOOSE v \in V : Rank(V, v) = i
CompactE(G) == {<<Rank(G.V, e[1]), Rank(G.V, e[2])>> : e \in G.E}
IsCompact(V) == V = 1..Cardinality(V)

=============================================================================
