"""C17 — graph algorithms agree with their definitions on every DAG.

M: TLC model-checks the definitions of spec/Dag.tla against each other on every
   graph of a small universe (spec/DagMC.tla): both longest-weight definitions
   agree, a topological order exists exactly on acyclic graphs, the depth table
   equals the recursion over parents and the longest chain, path enumeration
   equals the polynomial path predicate, ...
T: the harness builds real `Graph` / `TaskGraph` / `JobGraph` objects for
   enumerated and random graphs (several insertion orders of the same abstract
   graph, equal-weight ties, graphs with cycles), calls the public methods and
   records (graph, method, args, result | exception type).  The records are
   written as JSON batches and judged by TLC against the definitions
   (spec/DagTrace.tla, relational: any valid order / path is accepted).  Python
   never decides whether an answer is right; it only groups TLC's verdicts.

The real object is treated as a state machine (spec/Dag.tla: EmptyG, AddNodeG,
AddChildG, RemoveG).  A batch entry is a *session*: constructor mapping, mutator
calls, and the queries with the version (number of mutator calls applied) they were
asked on; DagTrace computes the machine state of every version and judges each query
against the state at its version.  Three families of sessions:
  * static: the object is built completely, then queried -- in a seeded shuffled
    order with repeats, get_node_depth with func = default / min / max interleaved
    (the answer may not depend on earlier queries on the same object);
  * incremental: the graph is grown by add_node / add_child (children may be created
    implicitly), shrunk by remove(parentless node) and partly re-grown, with queries
    between the mutations, the previous version's queries asked again (stale caches);
  * walks: DagMC's ObjSpec (the machine itself) is model-checked, its state graph is
    dumped, and walks covering its transitions are replayed on real objects with
    queries after every step (spec -> code).
"""
from __future__ import annotations

import itertools
import json
import os
import re
import signal
import time

from . import mcgen, tlaval, tlc
from .common import CheckResult, Scratch, parallel, rng
from .realobj import mk_job, mk_profile, mk_strategy, mk_task, ns

BFMAX = 6  # graphs up to this size are judged with the brute-force definitions
OBJ_INV = ["ObjTypeOK", "Obj_LastExplains", "Obj_CompactFaithful", "Obj_Mutators"]
MC_INV = [
    "MCTypeOK",
    "MC_CycleDefsAgree",
    "MC_TopoIffDag",
    "MC_BfsIsTopo",
    "MC_Depth",
    "MC_Dependent",
    "MC_Paths",
    "MC_LongestAgree",
    "MC_Traversals",
]
JAVA_OPTS = mcgen.LIB_OPT + ["-Xmx3g", "-Xss256m", "-XX:ParallelGCThreads=2"]
CALL_TIMEOUT_S = 20  # CPU seconds of the calling process (ITIMER_PROF): wall-clock limits are never verdicts


# ---------------------------------------------------------------------------
# abstract graphs ("builds"): which nodes / edges, and in which order the public
# mutators are called


def _pairs_upper(n):
    return [(a, b) for a in range(1, n + 1) for b in range(a + 1, n + 1)]


def upper_dags(n):
    """all DAGs on 1..n whose edges go from a smaller to a larger label"""
    pairs = _pairs_upper(n)
    for mask in range(1 << len(pairs)):
        yield tuple(p for k, p in enumerate(pairs) if mask >> k & 1)


_LAB_CACHE = {}


def labelled_dags(n):
    """all labelled DAGs on 1..n = all relabellings of the upper-triangular ones (no
    cycle test in Python); sorted, deterministic"""
    if n not in _LAB_CACHE:
        seen = set()
        for perm in itertools.permutations(range(1, n + 1)):
            for es in upper_dags(n):
                seen.add(tuple(sorted((perm[a - 1], perm[b - 1]) for a, b in es)))
        _LAB_CACHE[n] = sorted(seen)
    return _LAB_CACHE[n]


def cyclic_digraphs(n, loops):
    """all digraphs on 1..n that are not labelled DAGs (i.e. have a cycle)"""
    dags = set(labelled_dags(n))
    pairs = [(a, b) for a in range(1, n + 1) for b in range(1, n + 1) if loops or a != b]
    for mask in range(1, 1 << len(pairs)):
        es = tuple(p for k, p in enumerate(pairs) if mask >> k & 1)
        if es not in dags:
            yield es


def child_orders(n, edges):
    """all edge sequences that differ in the order of some node's children (edges grouped
    by parent, parents ascending)"""
    per_parent = []
    for a in range(1, n + 1):
        cs = [b for (x, b) in edges if x == a]
        per_parent.append([[(a, b) for b in p] for p in itertools.permutations(cs)])
    for combo in itertools.product(*per_parent):
        yield [e for grp in combo for e in grp]


def build(n, nodes, edges, style, cat, cyclic=False):
    return {"n": n, "nodes": list(nodes), "edges": [list(e) for e in edges], "style": style, "cat": cat,
            "cyclic": cyclic}


def random_dag(r, n, p):
    order = list(range(1, n + 1))
    r.shuffle(order)
    edges = [(order[i], order[j]) for i in range(n) for j in range(i + 1, n) if r.random() < p]
    r.shuffle(edges)
    nodes = list(range(1, n + 1))
    r.shuffle(nodes)
    return nodes, edges


def add_cycle(r, n, edges):
    """close a cycle: walk along children from a random edge and add an edge back"""
    edges = list(edges)
    if not edges or r.random() < 0.15:
        v = r.randint(1, n)
        if (v, v) not in edges:
            edges.insert(r.randint(0, len(edges)), (v, v))
        return edges
    a, b = r.choice(edges)
    tip = b
    for _ in range(r.randint(0, 4)):
        nxt = [y for (x, y) in edges if x == tip]
        if not nxt:
            break
        tip = r.choice(nxt)
    if (tip, a) not in edges:
        edges.insert(r.randint(0, len(edges)), (tip, a))
    return edges


def parts_for(tier):
    """[(part name, generator key, args, estimated cost)] — a part is generated and exercised
    inside the worker process that judges it; its content depends on (VERIF_SEED, name) only"""
    q = tier == "quick"
    out = [("lab<=3", "lab", (1, 3, 0, 1), 3)]
    for k in range(12):
        out.append((f"lab4/{k}", "lab", (4, 4, k, 12), 11))
    shards = 12 if q else 16
    for k in range(shards):
        out.append((f"ut5/{k}", "ut", (5, k, shards, 1 if q else 3), 9 if q else 14))
    for k in range(6 if q else 48):
        out.append((f"rand/{k}", "rand", (k, 10 if q else 20), 12 if q else 30))
    out.append(("cyc<=3", "cyc", (3, 0, 1, None), 6))
    if q:
        out.append(("cyc4/sample", "cyc", (4, 0, 1, 400), 5))
        out.append(("cycrand/0", "cycrand", (0, 40), 4))
    else:
        for k in range(4):
            out.append((f"cyc4/{k}", "cyc", (4, k, 4, None), 12))
        for k in range(4):
            out.append((f"cycrand/{k}", "cycrand", (k, 100), 10))
        for k in range(24):
            out.append((f"lab5/{k}", "lab5", (k, 24), 55))
        for k in range(96):
            out.append((f"ut6/{k}", "ut", (6, k, 96, 1), 45))
    # incremental sessions: mutations interleaved with queries
    out.append(("sess/lab<=3", "sess_lab", (1, 3, 0, 1), 3))
    for k in range(2 if q else 6):
        out.append((f"sess/lab4/{k}", "sess_lab", (4, 4, k, 6), 6))
    for k in range(2 if q else 12):
        out.append((f"sess/rand/{k}", "sess_rand", (k, 14 if q else 40), 6 if q else 16))
    out.append(("sess/cyc<=3", "sess_cyc", (3, None), 3))
    out.append(("sess/cyc4", "sess_cyc", (4, 60 if q else 600), 2 if q else 12))
    return out


def batches_for(tier, groups):
    """distribute the parts over `groups` batches of similar estimated cost (one TLC run each)"""
    parts = sorted(parts_for(tier), key=lambda p: (-p[3], p[0]))
    bins = [[0, []] for _ in range(groups)]
    for p in parts:
        tgt = min(bins, key=lambda x: x[0])
        tgt[0] += p[3]
        tgt[1].append(p[:3])
    return [(f"batch{k}", sorted(b[1])) for k, b in enumerate(bins) if b[1]]


def gen_builds(key, args, tier):
    """yield (build, kinds) for one batch; deterministic in (VERIF_SEED, key, args)"""
    if key == "lab":
        lo, hi, k, shards = args
        idx = 0
        for n in range(lo, hi + 1):
            for es in labelled_dags(n):
                idx += 1
                if idx % shards != k:
                    continue
                nodes = list(range(1, n + 1))
                for ci, seq in enumerate(child_orders(n, es)):
                    # node order = label order (all labelled DAGs are enumerated, which covers
                    # every insertion order up to renaming); every order of every child list
                    if ci == 0:
                        yield build(n, nodes, seq, "edges", "lab"), ("graph",)
                        yield build(n, nodes, seq, "mapping", "lab"), ("graph", "task")
                        # parents' lists in the opposite order (edges inserted parent-descending)
                        yield build(n, nodes[::-1], seq[::-1], "edges", "lab"), ("graph", "job")
                    elif ci % 2 == 1:
                        yield build(n, nodes, seq, "edges", "lab"), ("graph", "task")
                    else:
                        yield build(n, nodes, seq, "mapping", "lab"), ("graph", "task")
    elif key == "lab5":
        k, shards = args
        r = rng(f"c17:lab5:{k}")
        for idx, es in enumerate(labelled_dags(5)):
            if idx % shards != k:
                continue
            seq = list(es)
            r.shuffle(seq)
            yield build(5, [1, 2, 3, 4, 5], seq, r.choice(["edges", "mapping"]), "lab5"), ("graph",)
    elif key == "ut":
        n, k, shards, nperm = args
        r = rng(f"c17:ut{n}:{k}")
        for idx, es in enumerate(upper_dags(n)):
            if idx % shards != k:
                continue
            nodes = list(range(1, n + 1))
            kinds = ("graph", "task") if (n == 5 or idx % 8 == 0) else ("graph",)
            yield build(n, nodes, es, "mapping", f"ut{n}"), kinds
            for _ in range(nperm):
                # the same abstract DAG inserted in another node order / child order
                perm = nodes[:]
                r.shuffle(perm)
                seq = list(es)
                r.shuffle(seq)
                yield build(n, perm, seq, r.choice(["edges", "mapping"]), f"ut{n}perm"), ("graph",)
    elif key == "rand":
        k, count = args
        r = rng(f"c17:rand:{k}")
        for j in range(count):
            n = r.choice([7, 8, 9, 10, 12, 14, 16, 20, 24, 28, 32, 36, 40, 40])
            p = r.choice([0.08, 0.15, 0.25, 0.4, 0.7]) if n <= 20 else r.choice([0.04, 0.08, 0.15, 0.3])
            nodes, edges = random_dag(r, n, p)
            kinds = ("graph", "task") if j % 2 == 0 else ("graph", "job")
            yield build(n, nodes, edges, r.choice(["edges", "mapping"]), "rand"), kinds
    elif key == "cyc":
        n, k, shards, sample = args
        r = rng(f"c17:cyc:{n}")
        allc = []
        for m in range(1, n + 1):
            allc += [(m, es) for es in cyclic_digraphs(m, loops=(m <= 3))]
        if sample is not None:
            allc = [x for x in allc if x[0] == n]
            allc = r.sample(allc, min(sample, len(allc)))
        for idx, (m, es) in enumerate(allc):
            if idx % shards != k:
                continue
            seq = list(es)
            r.shuffle(seq)
            nodes = list(range(1, m + 1))
            r.shuffle(nodes)
            kinds = ("graph", "task", "job") if idx % 4 == 0 else ("graph",)
            yield build(m, nodes, seq, r.choice(["edges", "mapping"]), f"cyc{m}", cyclic=True), kinds
    elif key == "cycrand":
        k, count = args
        r = rng(f"c17:cycrand:{k}")
        for j in range(count):
            n = r.choice([5, 6, 8, 10, 15, 20, 30, 40])
            nodes, edges = random_dag(r, n, r.choice([0.1, 0.2, 0.4]))
            for _ in range(r.randint(1, 3)):
                edges = add_cycle(r, n, edges)
            kinds = ("graph", "task") if j % 3 == 0 else ("graph",)
            yield build(n, nodes, edges, r.choice(["edges", "mapping"]), "cycrand", cyclic=True), kinds
    elif key == "sess_lab":
        lo, hi, k, shards = args
        idx = 0
        for n in range(lo, hi + 1):
            for es in labelled_dags(n):
                idx += 1
                if idx % shards != k:
                    continue
                kinds = ("graph", "task") if idx % 3 == 0 else ("graph", "job") if idx % 3 == 1 else ("graph",)
                yield build(n, list(range(1, n + 1)), es, "session", "sess_lab"), kinds
    elif key == "sess_rand":
        k, count = args
        r = rng(f"c17:sess_rand:{k}")
        for j in range(count):
            n = r.choice([5, 5, 6, 6, 7, 8, 9, 10, 12, 16])
            nodes, edges = random_dag(r, n, r.choice([0.15, 0.25, 0.4, 0.6]))
            kinds = ("graph", "task") if j % 3 == 0 else ("graph", "job") if j % 3 == 1 else ("graph",)
            yield build(n, nodes, edges, "session", "sess_rand"), kinds
    elif key == "sess_cyc":
        n, sample = args
        r = rng(f"c17:sess_cyc:{n}")
        if sample is None:
            allc = [(m, es) for m in range(1, n + 1) for es in cyclic_digraphs(m, loops=True)]
        else:
            allc = [(n, es) for es in cyclic_digraphs(n, loops=False)]
            allc = r.sample(allc, min(sample, len(allc)))
        for idx, (m, es) in enumerate(allc):
            if sample is None and m == 3 and idx % 4 != 0:
                continue
            nodes = list(range(1, m + 1))
            r.shuffle(nodes)
            kinds = ("graph", "task") if idx % 5 == 0 else ("graph", "job") if idx % 5 == 1 else ("graph",)
            yield build(m, nodes, list(es), "session", f"sess_cyc{m}", cyclic=True), kinds
    else:
        raise AssertionError(key)


# ---------------------------------------------------------------------------
# sessions: constructor mapping + mutator calls (the spec computes the graph of every
# version from them) and the script of mutations / queries to perform


def static_session(b):
    """the object is built completely (constructor mapping, or add_node for every node then
    add_child for every edge); all queries are asked on the final version"""
    if b["style"] == "mapping":
        return {"n": b["n"], "init": mapping_of(b), "muts": []}
    return {"n": b["n"], "init": [],
            "muts": [("add_node", v, 0) for v in b["nodes"]] + [("add_child", a, c) for a, c in b["edges"]]}


def grow_shrink_muts(b, r):
    """Mutator calls that grow the build's graph in a seeded order (a child may be created
    implicitly by add_child; add_node of an existing node is a no-op), then remove parentless
    nodes and re-attach some of them.  Only input generation: whether each call is one the
    graph machine allows is decided by the specification (DagTrace, MutOK)."""
    edges = [tuple(e) for e in b["edges"]]
    r.shuffle(edges)
    present, muts = set(), []
    for a, c in edges:
        if a not in present:
            muts.append(("add_node", a, 0))
            present.add(a)
        if c not in present and r.random() < 0.4:
            muts.append(("add_node", c, 0))
            present.add(c)
        muts.append(("add_child", a, c))
        present.add(c)
        if r.random() < 0.08:
            muts.append(("add_node", r.choice(sorted(present)), 0))  # no-op
    for v in b["nodes"]:
        if v not in present:
            muts.insert(r.randint(0, len(muts)), ("add_node", v, 0))
    V, E = set(b["nodes"]), set(edges)
    for _ in range(r.randint(1, 3)):
        free = sorted(v for v in V if not any(e[1] == v for e in E))
        if not free or len(V) <= 1:
            break
        v = r.choice(free)
        out = sorted(e for e in E if e[0] == v)
        muts.append(("remove", v, 0))
        V.discard(v)
        E -= set(out)
        how = r.random()
        if how < 0.35 and out:
            # back as a parent of (some of) its former children
            muts.append(("add_node", v, 0))
            V.add(v)
            for e in out:
                if r.random() < 0.7:
                    muts.append(("add_child", v, e[1]))
                    E.add(e)
        elif how < 0.6:
            # back as a childless child of another node
            u = r.choice(sorted(V))
            muts.append(("add_child", u, v))
            V.add(v)
            E.add((u, v))
    return muts


def nodes_after(V, m):
    op, a, c = m
    if op == "remove":
        return V - {a}
    return V | ({a} if op == "add_node" else {a, c})


def random_query(kind, bw, V, wvs, traversals, r):
    """one query spec (kind, build weights, method, func, args, w) on the current node set"""
    vs = sorted(V)
    pool = ["topological_sort", "get_node_depth", "get_node_depth", "get_node_depth"]
    if len(vs) >= 2:
        pool += ["are_dependent"] * 3
    if kind == "graph":
        pool += ["get_sources", "get_longest_path", "get_longest_path"]
        if traversals:
            pool += ["breadth_first", "depth_first_all", "depth_first", "breadth_first_from"]
    else:
        pool += ["critical_path_runtime"] * 2
        pool += ["get_source_tasks", "get_sink_tasks"] if kind == "task" else ["completion_time", "get_sources"]
        if traversals:
            pool += ["breadth_first", "depth_first"]
    m = r.choice(pool)
    func, args, w = "", [], []
    if m == "get_node_depth":
        func, args = r.choice(["", "", "min", "min", "max"]), [r.choice(vs)]
    elif m == "are_dependent":
        args = r.sample(vs, 2)
    elif m in ("depth_first", "breadth_first_from"):
        args = [r.choice(vs)]
    elif m == "get_longest_path":
        w = r.choice([[]] + wvs)
    elif m in ("critical_path_runtime", "completion_time"):
        w = bw
    return (kind, list(bw), m, func, list(args), list(w))


def session_script(n, muts, objs, traversals, r, per_version=(2, 4), V0=()):
    """[("m", k) | ("c", query spec)]: the mutator calls in order, queries in between.  Queries
    of the previous queried version are asked again (an answer remembered across a mutation is
    exposed), some queries are asked twice in a row, sometimes several mutations pass unobserved."""
    wvs = weight_vectors(r, n, 3)
    script, prev, V = [], [], set(V0)
    for k, m in enumerate(muts):
        script.append(("m", k))
        V = nodes_after(V, m)
        if not V or (k + 1 < len(muts) and r.random() < 0.2):
            continue
        qs = [q for q in prev if set(q[4]) <= V and r.random() < 0.6]
        for _ in range(r.randint(*per_version)):
            kind, bw = r.choice(objs)
            qs.append(random_query(kind, bw, V, wvs, traversals, r))
        r.shuffle(qs)
        if r.random() < 0.5:
            qs.insert(r.randint(0, len(qs)), r.choice(qs))
        script += [("c", q) for q in qs]
        prev = qs
    return script


def session_objects(kinds, n, r):
    wvs = weight_vectors(r, n, 3)
    objs = [("graph", [])]
    if "task" in kinds:
        objs.append(("task", wvs[r.randint(0, 1)]))
    if "job" in kinds:
        objs.append(("job", wvs[r.randint(1, 2)]))
    return objs


# ---------------------------------------------------------------------------
# real objects


def mapping_of(b):
    """[(node, [children in insertion order])] in key order of the mapping handed to the
    constructor"""
    return [(v, [c for (a, c) in b["edges"] if a == v]) for v in b["nodes"]]


def make(kind, sess, weights, upto):
    """Build the real object through its public constructor and apply the first `upto`
    mutator calls of the session.  Returns (object, node id -> node object, node object ->
    node id)."""
    N = ns()
    n = sess["n"]
    dem = [{"name": "cpu", "id": "any", "q": 1}]
    if kind == "graph":
        import importlib

        cls = importlib.import_module("workload.graph").Graph
        obj = {v: v for v in range(1, n + 1)}
        back = lambda x: x  # noqa: E731
        new = lambda m: cls(m)  # noqa: E731
    elif kind == "task":
        obj = {}
        for v in range(1, n + 1):
            strategies = [mk_strategy(dem, runtime=weights[v - 1])]
            if v % 2 == 0 and weights[v - 1] > 1:
                # the slowest strategy is the one that counts
                strategies.insert(0, mk_strategy(dem, runtime=weights[v - 1] - 1))
            obj[v] = mk_task(f"t{v}", graph="G", profile=mk_profile(f"p{v}", strategies), timestamp=0)
        new = lambda m: N.TaskGraph(name="G", tasks=m)  # noqa: E731
    elif kind == "job":
        obj = {}
        for v in range(1, n + 1):
            strategies = [mk_strategy(dem, runtime=weights[v - 1])]
            if v % 2 == 1 and weights[v - 1] > 1:
                strategies.append(mk_strategy(dem, runtime=1))
            obj[v] = mk_job(f"j{v}", mk_profile(f"p{v}", strategies))
        new = lambda m: N.JobGraph(name="J", jobs=m)  # noqa: E731
    else:
        raise AssertionError(kind)
    if kind != "graph":
        ids = {id(o): v for v, o in obj.items()}
        back = lambda x: ids[id(x)]  # noqa: E731
    g = new({obj[v]: [obj[c] for c in cs] for v, cs in sess["init"]})
    for m in sess["muts"][:upto]:
        mutate(g, obj, m)
    return g, obj, back


def mutate(g, obj, m):
    op, a, c = m
    if op == "add_node":
        g.add_node(obj[a])
    elif op == "add_child":
        g.add_child(obj[a], obj[c])
    elif op == "remove":
        g.remove(obj[a])
    else:
        raise AssertionError(op)


class _Timeout(Exception):
    pass


def _alarm(signum, frame):
    raise _Timeout()


def _as_bool(x):
    if not isinstance(x, bool):
        raise TypeError(f"not a bool: {x!r}")
    return x


def _as_int(x):
    if isinstance(x, bool) or not isinstance(x, int):
        raise TypeError(f"not an int: {x!r}")
    return x


FUNCS = {"min": min, "max": max}


def invoke(g, obj, back, n, method, func, args, w):
    """(thunk calling the public method, projection of its value to node ids / ints / bools,
    cap on the number of items drawn from a generator)"""
    N = ns()
    seq = lambda xs: [_as_int(back(x)) for x in xs]  # noqa: E731
    t_us = lambda t: _as_int(t.to(N.EventTime.Unit.US).time)  # noqa: E731
    cap = 6 * n + 10
    if method == "topological_sort":
        return g.topological_sort, seq, None
    if method == "get_sources":
        return g.get_sources, seq, None
    if method == "get_source_tasks":
        return g.get_source_tasks, seq, None
    if method == "get_sink_tasks":
        return g.get_sink_tasks, seq, None
    if method == "get_longest_path":
        if not w:
            return g.get_longest_path, seq, None
        return (lambda: g.get_longest_path(weights=lambda v: w[back(v) - 1])), seq, None
    if method == "critical_path_runtime":
        return (lambda: g.critical_path_runtime), t_us, None
    if method == "completion_time":
        return (lambda: g.completion_time), t_us, None
    if method == "get_node_depth":
        if func:
            return (lambda: g.get_node_depth(obj[args[0]], func=FUNCS[func])), _as_int, None
        return (lambda: g.get_node_depth(obj[args[0]])), _as_int, None
    if method == "are_dependent":
        return (lambda: g.are_dependent(obj[args[0]], obj[args[1]])), _as_bool, None
    if method == "breadth_first":
        return g.breadth_first, seq, cap
    if method == "depth_first_all":
        return g.depth_first, seq, cap
    if method == "depth_first":
        return (lambda: g.depth_first(obj[args[0]])), seq, cap
    if method == "breadth_first_from":
        return (lambda: g.breadth_first(obj[args[0]])), seq, cap
    raise AssertionError(method)


class Recorder:
    """Drives the real objects of one session through its script and records every query
    (object, version, method, func, args, result | exception type)."""

    def __init__(self):
        self.calls = []  # records of the current session
        self.next_id = 1
        self.meta = {}  # id -> (session index, kind, build weights, method, func, args, weights, got, object, index)
        self.mutator_calls = {}

    def _timed(self, thunk):
        """-> (raised, value, got)"""
        signal.setitimer(signal.ITIMER_PROF, CALL_TIMEOUT_S)
        try:
            val = thunk()
            return "", val, val
        except _Timeout:
            return "Timeout", 0, f"no answer within {CALL_TIMEOUT_S}s of CPU time"
        except Exception as ex:  # the exception type is part of the record
            return type(ex).__name__, 0, f"{type(ex).__name__}: {ex}"[:200]
        finally:
            signal.setitimer(signal.ITIMER_PROF, 0)

    def _record(self, gi, oi, ver, kind, bw, method, func, args, w, raised, result, got):
        cid = self.next_id
        self.next_id += 1
        self.calls.append({"id": cid, "obj": oi, "ver": ver, "method": method, "func": func, "args": list(args),
                           "w": list(w), "result": result, "raised": raised})
        self.meta[cid] = (gi, kind, list(bw), method, func, list(args), list(w), got, oi, len(self.calls) - 1)

    def perform(self, gi, sess, script):
        """script: [("m", k) -> apply sess["muts"][k] to every live object |
        ("c", (kind, build weights, method, func, args, w)) -> query]"""
        live = {}  # (kind, weights) -> [index, g, obj, back]
        ver = 0
        n = sess["n"]
        for item in script:
            if item[0] == "m":
                assert item[1] == ver, (item, ver)
                m = sess["muts"][ver]
                self.mutator_calls[m[0]] = self.mutator_calls.get(m[0], 0) + 1
                for (kind, bw), (oi, g, obj, back) in live.items():
                    raised, _, got = self._timed(lambda: mutate(g, obj, m))
                    if raised:
                        # a mutator call the graph machine allows must succeed
                        self._record(gi, oi, ver, kind, bw, m[0], "", [x for x in m[1:] if x], [], raised, 0, got)
                ver += 1
                continue
            kind, bw, method, func, args, w = item[1]
            ck = (kind, tuple(bw))
            if ck not in live:
                raised, val, got = self._timed(lambda: make(kind, sess, bw, ver))
                if raised:
                    self._record(gi, len(live), ver, kind, bw, "construct", "", [], [], raised, 0, got)
                    continue
                live[ck] = [len(live)] + list(val)
            oi, g, obj, back = live[ck]

            def call():
                fn, proj, cap = invoke(g, obj, back, n, method, func, args, w)
                val = fn()
                if cap is not None:
                    val = list(itertools.islice(val, cap))
                return proj(val)

            raised, result, got = self._timed(call)
            self._record(gi, oi, ver, kind, bw, method, func, args, w, raised, result, got)


def weight_vectors(r, n, count):
    out = [[1] * n]  # every path of equal length ties
    if count >= 2:
        out.append([r.choice([1, 2, 3]) for _ in range(n)])  # many ties
    if count >= 3:
        out.append([r.randint(1, 1000) for _ in range(n)])
    return out


def plan(b, kinds, r, tier):
    """the calls to make on one abstract graph: [(kind, build weights, method, func, args, w)]"""
    n = b["n"]
    cyc = b["cyclic"]
    nodes = list(range(1, n + 1))
    big = n > 6
    q = tier == "quick"
    wvs = weight_vectors(r, n, 3)
    specs = []

    def add(kind, bw, method, args=(), w=(), func=""):
        specs.append((kind, list(bw), method, func, list(args), list(w)))

    if "graph" in kinds:
        add("graph", [], "topological_sort")
        add("graph", [], "get_sources")
        add("graph", [], "get_longest_path")  # default weights
        for w in wvs:
            add("graph", [], "get_longest_path", (), w)
        dn = nodes if not big else r.sample(nodes, min(n, 10 if q else 16))
        for v in dn if not cyc else dn[:3]:
            add("graph", [], "get_node_depth", [v])
            # the optional argument: depth through the shallowest parent / explicit max
            add("graph", [], "get_node_depth", [v], func="min")
        for v in r.sample(dn, min(2, len(dn))):
            add("graph", [], "get_node_depth", [v], func="max")
        pairs = [(a, c) for a in nodes for c in nodes if a != c]
        if cyc:
            pairs = r.sample(pairs, min(len(pairs), 4))
        elif big:
            pairs = r.sample(pairs, min(len(pairs), 60 if q else 120))
        for a, c in pairs:
            add("graph", [], "are_dependent", [a, c])
        if not cyc:
            add("graph", [], "breadth_first")
            add("graph", [], "depth_first_all")
            starts = nodes if not big else r.sample(nodes, min(n, 12 if q else 20))
            for v in starts:
                add("graph", [], "depth_first", [v])
            if b["style"] == "edges" or big:
                # outside the property statement, informational only
                for v in starts[:4]:
                    add("graph", [], "breadth_first_from", [v])
    for kind in ("task", "job"):
        if kind not in kinds:
            continue
        for w in wvs[:2] if kind == "task" else wvs[1:3]:
            add(kind, w, "critical_path_runtime", (), w)
            if kind == "job":
                add(kind, w, "completion_time", (), w)
                add(kind, w, "get_sources")
            else:
                add(kind, w, "get_source_tasks")
                add(kind, w, "get_sink_tasks")
            # the inherited algorithms on real Task / Job nodes
            add(kind, w, "topological_sort")
            if not cyc:
                v, u = r.choice(nodes), r.choice(nodes)
                add(kind, w, "breadth_first")
                add(kind, w, "depth_first", [v])
                add(kind, w, "get_node_depth", [v])
                add(kind, w, "get_node_depth", [u], func="min")
                if u != v:
                    add(kind, w, "are_dependent", [u, v])
    return specs


def static_script(sess, specs, r):
    """All mutator calls, then the queries in a seeded shuffled order (objects and methods
    interleaved) with repeats: one more query of about every third (object, method, func)
    group is asked again somewhere later / earlier."""
    groups = {}
    for q in specs:
        groups.setdefault((q[0], tuple(q[1]), q[2], q[3]), []).append(q)
    qs = list(specs)
    repeats = 0
    for key in sorted(groups):
        if r.random() < 0.35:
            qs.append(r.choice(groups[key]))
            repeats += 1
    r.shuffle(qs)
    return [("m", k) for k in range(len(sess["muts"]))] + [("c", q) for q in qs], repeats


def gen_items(key, args, tier, r):
    """yield (build, session, script) for one part"""
    for b, kinds in gen_builds(key, args, tier):
        if b["style"] == "session":
            muts = grow_shrink_muts(b, r)
            sess = {"n": b["n"], "init": [], "muts": muts}
            script = session_script(b["n"], muts, session_objects(kinds, b["n"], r), not b["cyclic"], r)
        else:
            sess = static_session(b)
            script, _ = static_script(sess, plan(b, kinds, r, tier), r)
        yield b, sess, script


# ---------------------------------------------------------------------------
# one batch = one worker process = one TLC run



_FAIL_RE = re.compile(r'^<<\s*"@@",\s*(\d+),\s*"([^"]*)",\s*"([^"]*)",\s*(.*?)\s*>>$', re.S)


def _tlc_in(scratch, *a, **k):
    """run_tlc with TLC's metadir inside our scratch directory (not a shared /tmp/tlcmeta_*)"""
    import tempfile

    old = tempfile.tempdir
    tempfile.tempdir = scratch
    try:
        return tlc.run_tlc(*a, **k)
    finally:
        tempfile.tempdir = old


def judge_batch(scratch, name, entries, nrecords, workers=1):
    """Write the JSON batch, run TLC on DagTrace, return (failures, counts, TLCResult).
    failures: [(id, clause, reason, expected)]"""
    safe = re.sub(r"\W", "_", name)
    path = os.path.join(scratch, f"batch_{safe}.json")
    with open(path, "w") as f:
        json.dump(entries, f, separators=(",", ":"))
    mod, cf = mcgen.write_mc(
        scratch, "DagTrace", {"File": path, "BFMax": BFMAX, "Chains": max(1, workers)},
        name=f"MC_DagTrace_{safe}", invariants=["TypeOK"],
    )
    r = _tlc_in(scratch, mod, cf, workers=max(1, workers), coverage=False, deadlock=False, java_opts=JAVA_OPTS,
                timeout=3300)
    if not r.ok:
        raise tlc.TLCMachineryError(f"DagTrace batch {name}: {r.violation_kind} {r.violation_name}\n{r.stdout[-3000:]}")
    fails, done = [], []
    lines = r.stdout.splitlines()
    k = 0
    while k < len(lines):
        line = lines[k]
        k += 1
        if not re.match(r'^<< ?"@@', line):
            continue
        # TLC pretty-prints long values over several lines
        txt = line
        while txt.count("<<") > txt.count(">>") and k < len(lines):
            txt += " " + lines[k].strip()
            k += 1
        m = _FAIL_RE.match(txt)
        if m:
            # the expected value is parsed later, only for the examples that are kept
            fails.append((int(m.group(1)), m.group(2), m.group(3), m.group(4)))
            continue
        val = tlaval.parse(txt)
        if val[0] != "@@done":
            raise tlc.TLCMachineryError(f"DagTrace batch {name}: unparsable verdict line {txt[:300]}")
        done.append(val)
    counts, ngraphs, nfail = {}, 0, 0
    for _, _chain, glen, cnt, nf in done:
        ngraphs += glen
        nfail += nf
        for cl, v in (dict(cnt) if cnt else {}).items():
            counts[cl] = counts.get(cl, 0) + v
    if (len(done) != max(1, workers) or ngraphs != len(entries) or sum(counts.values()) != nrecords
            or nfail != len(fails)):
        raise tlc.TLCMachineryError(
            f"DagTrace batch {name}: {len(done)} chains finished, judged {ngraphs}/{len(entries)} graphs, "
            f"{sum(counts.values())}/{nrecords} records, {nfail} vs {len(fails)} failures reported\n{r.stdout[-3000:]}"
        )
    return fails, counts, r


def _printable(v):
    if isinstance(v, (set, frozenset)):
        return sorted(_printable(x) for x in v)
    if isinstance(v, (list, tuple)):
        return [_printable(x) for x in v]
    if isinstance(v, dict):
        return {str(k): _printable(x) for k, x in v.items()}
    return v


QUALIFIED = {"critical_path_runtime", "completion_time", "get_source_tasks", "get_sink_tasks"}
KIND_CLASS = {"graph": "Graph", "task": "TaskGraph", "job": "JobGraph"}


def _fail_order(f):
    d = f["detail"]
    return (f["size"], json.dumps(d["session"]["init"]), json.dumps(d["session"]["mutator_calls"]), d["call"],
            len(d["earlier_calls_on_the_object"]))


def _call_text(method, func, args, w):
    if method == "get_longest_path":
        return f"get_longest_path(weights=node -> {w}[node - 1])" if w else "get_longest_path()"
    if method in ("critical_path_runtime", "completion_time"):
        return f"{method}  # slowest runtimes of nodes 1..n: {w}"
    if method == "depth_first_all":
        return "depth_first()"
    if method == "breadth_first_from":
        return f"breadth_first({args[0]})"
    if method == "get_node_depth" and func:
        return f"get_node_depth({args[0]}, func={func})"
    return f"{method}({', '.join(map(str, args))})"


def finding_key(kind, method, reason):
    m = f"{KIND_CLASS[kind]}.{method}" if method in QUALIFIED else method
    return f"{m}:{reason}"


def _script_of_object(sess, calls, oi, upto_index):
    """what happened to object `oi` up to and including calls[upto_index]: the mutator calls and
    its own queries, in order (enough to reproduce an answer that depends on the history)"""
    out, ver = [], 0
    for c in calls[: upto_index + 1]:
        if c["obj"] != oi:
            continue
        while ver < c["ver"]:
            out.append(["m"] + list(sess["muts"][ver]))
            ver += 1
        out.append(["c", c["method"], c["func"], c["args"], c["w"]])
    return out


def _entry(gi, sess, calls):
    return {"g": gi, "n": sess["n"],
            "init": [{"v": v, "cs": list(cs)} for v, cs in sess["init"]],
            "muts": [{"op": op, "a": a, "b": c} for op, a, c in sess["muts"]],
            "calls": calls}


def exercise_and_judge(name, items, workers, t0):
    """items: iterable of (part name, build | None, session, script).  Exercise the real objects,
    let TLC judge the records, group the verdicts.  Returns a plain dict (picklable)."""
    signal.signal(signal.SIGPROF, _alarm)
    rec = Recorder()
    entries, sessions = [], []
    per_method = {}
    per_part = {}
    stats = {"cyclic_graphs": 0, "sessions_with_queries_between_mutations": 0, "queried_versions": 0,
             "records_before_the_last_mutation": 0, "records_after_a_removal": 0, "repeated_queries": 0,
             "records_func_min": 0, "records_func_max": 0, "objects": 0}
    for pname, b, sess, script in items:
        gi = len(entries)
        rec.calls = []
        rec.perform(gi, sess, script)
        calls = rec.calls
        sessions.append((sess, b, pname))
        if b is not None and b["cyclic"]:
            stats["cyclic_graphs"] += 1
        entries.append(_entry(gi, sess, calls))
        pp = per_part.setdefault(pname, [0, 0])
        pp[0] += 1
        pp[1] += len(calls)
        last = len(sess["muts"])
        first_removal = min([k for k, m in enumerate(sess["muts"]) if m[0] == "remove"], default=last)
        seen = set()
        for c in calls:
            per_method[c["method"]] = per_method.get(c["method"], 0) + 1
            sig = (c["obj"], c["ver"], c["method"], c["func"], tuple(c["args"]), tuple(c["w"]))
            stats["repeated_queries"] += sig in seen
            seen.add(sig)
            stats["records_before_the_last_mutation"] += c["ver"] < last
            stats["records_after_a_removal"] += c["ver"] > first_removal
            stats["records_func_min"] += c["func"] == "min"
            stats["records_func_max"] += c["func"] == "max"
        vs = {c["ver"] for c in calls}
        stats["queried_versions"] += len(vs)
        stats["sessions_with_queries_between_mutations"] += len(vs) > 1
        stats["objects"] += len({c["obj"] for c in calls})
    nrecords = rec.next_id - 1
    t1 = time.time()
    with Scratch() as scratch:
        fails, counts, tr = judge_batch(scratch, name, entries, nrecords, workers)
    out_f = []
    for cid, clause, reason, exp in fails:
        gi, kind, bw, method, func, cargs, w, got, oi, ci = rec.meta[cid]
        sess, b, pname = sessions[gi]
        c = entries[gi]["calls"][ci]
        hist = _script_of_object(sess, entries[gi]["calls"], oi, ci)
        out_f.append(
            {
                "clause": clause,
                "reason": reason,
                "key": finding_key(kind, method + ("_min" if func == "min" else ""), reason),
                "size": (sess["n"], len(hist), len(sess["init"]) + c["ver"], len(cargs), sum(w)),
                "detail": {
                    "class": KIND_CLASS[kind],
                    "n": sess["n"],
                    "construction": (
                        {"style": "constructor mapping {node: [children]}, then the mutator calls",
                         "mapping": sess["init"], "mutator_calls": [list(m) for m in sess["muts"][: c["ver"]]]}
                    ),
                    "session": {"n": sess["n"], "init": [[v, list(cs)] for v, cs in sess["init"]],
                                "mutator_calls": [list(m) for m in sess["muts"][: c["ver"]]]},
                    "version": c["ver"],
                    "call": _call_text(method, func, cargs, w),
                    "earlier_calls_on_the_object": [
                        _call_text(h[1], h[2], h[3], h[4]) if h[0] == "c" else f"<{h[1]}({h[2]}{', ' + str(h[3]) if h[1] == 'add_child' else ''})>"
                        for h in hist[:-1]
                    ],
                    "object_script": hist,
                    "method": method,
                    "func": func,
                    "args": cargs,
                    "weights": w,
                    "node_runtimes": bw,
                    "got": got,
                    "expected": exp,
                    "part": pname,
                },
            }
        )
    out_f.sort(key=_fail_order)
    grouped = {}
    for f in out_f:
        g = grouped.setdefault((f["clause"], f["key"]), {"count": 0, "examples": []})
        g["count"] += 1
        if len(g["examples"]) < 4:
            d = f["detail"]
            try:
                d["expected"] = _printable(tlaval.parse(d["expected"]))
            except tlaval.ParseError:
                pass
            # diagnostic only: the same call on a fresh object brought to the same version without
            # any earlier query (a different answer = the answer depends on the history)
            kind = {v: k for k, v in KIND_CLASS.items()}[d["class"]]
            sess_f = {"n": d["n"], "init": d["session"]["init"], "muts": d["session"]["mutator_calls"]}
            d["same_call_on_a_fresh_object"] = None
            if d["method"] not in ("construct", "add_node", "add_child", "remove"):
                probe = Recorder()
                probe.perform(0, sess_f, [("m", k) for k in range(len(sess_f["muts"]))]
                              + [("c", (kind, d["node_runtimes"], d["method"], d["func"], d["args"], d["weights"]))])
                d["same_call_on_a_fresh_object"] = probe.meta[probe.next_id - 1][7] if probe.meta else None
            g["examples"].append(f)
    sample = None
    if entries:
        gi = len(entries) // 2
        e = entries[gi]
        sample = {
            "part": sessions[gi][2],
            "session": {"n": e["n"], "init": e["init"], "muts": [[m["op"], m["a"], m["b"]] for m in e["muts"]][:30]},
            "records": [
                {"obj": c["obj"], "ver": c["ver"], "method": c["method"], "func": c["func"], "args": c["args"],
                 "w": c["w"], "result": c["result"] if not c["raised"] else None, "raised": c["raised"]}
                for c in e["calls"][:8]
            ],
            "verdict": "see violations / notes" if any(rec.meta[cid][0] == gi for cid, *_ in fails)
            else "accepted by DagTrace",
        }
    return {
        "name": name,
        "graphs": len(entries),
        "records": nrecords,
        "per_method": per_method,
        "per_clause": counts,
        "per_part": per_part,
        "stats": stats,
        "mutator_calls": rec.mutator_calls,
        "failures": grouped,
        "sample": sample,
        "wall_exercise_s": round(t1 - t0, 2),
        "wall_tlc_s": round(tr.wall_s, 2),
        "tlc_states": tr.distinct,
    }


def run_batch(name, parts, tier, workers):
    """Generate, exercise, judge the sessions of the given parts."""
    t0 = time.time()

    def items():
        for pname, key, args in parts:
            r = rng(f"c17:calls:{pname}")
            for b, sess, script in gen_items(key, args, tier, r):
                yield pname, b, sess, script

    return exercise_and_judge(name, items(), workers, t0)


# ---------------------------------------------------------------------------
# walks: TLC explores the graph machine (DagMC, ObjSpec); walks covering the transitions of
# its dumped state graph are replayed on real objects, queries after every step


def _state_key(st):
    return (tuple(sorted(st["mcV"])), tuple(sorted(tuple(e) for e in st["mcE"])), tuple(st["mcLast"]))


def cover_walks(g, r, max_len, max_steps):
    """walks from the initial state that together take every transition (greedy: an untaken
    transition of the current state, else the shortest route to a state that has one); returns
    ([walk = list of state keys after the initial state], transitions, transitions taken)"""
    key = {nid: _state_key(st) for nid, st in g.states.items()}
    adj = {}
    for nid, outs in g.edges.items():
        adj[key[nid]] = sorted({key[d] for _, d in outs})
    init = key[g.init[0]]
    untaken = {(a, d) for a, ds in adj.items() for d in ds}
    total = len(untaken)
    walks, steps = [], 0
    while untaken and steps < max_steps:
        cur, walk = init, []
        while len(walk) < max_len:
            cand = [d for d in adj[cur] if (cur, d) in untaken]
            if cand:
                route = [r.choice(cand)]
            else:
                # breadth-first route to the nearest state with an untaken transition
                prev, frontier, goal = {cur: None}, [cur], None
                while frontier and goal is None:
                    nxt = []
                    for a in frontier:
                        for d in adj[a]:
                            if d in prev:
                                continue
                            prev[d] = a
                            if any((d, x) in untaken for x in adj[d]):
                                goal = d
                                break
                            nxt.append(d)
                        if goal is not None:
                            break
                    frontier = nxt
                if goal is None:
                    break
                route = []
                while goal != cur:
                    route.append(goal)
                    goal = prev[goal]
                route.reverse()
                if walk and len(walk) + len(route) >= max_len:
                    break  # closer from the initial state of a new walk
            for d in route:
                untaken.discard((cur, d))
                walk.append(d)
                cur = d
        if not walk:
            break
        steps += len(walk)
        walks.append(walk)
    return walks, total, total - len(untaken)


def run_walk(name, consts, tier, workers, max_len, max_steps):
    t0 = time.time()
    with Scratch() as scratch:
        mod, cf = mcgen.write_mc(
            scratch, "DagMC", consts, name="MC_DagMC_" + re.sub(r"\W", "_", name), spec="ObjSpec", invariants=OBJ_INV
        )
        dot = os.path.join(scratch, "objgraph")
        mcr = _tlc_in(scratch, mod, cf, workers=workers, deadlock=False, dump_dot=dot,
                      java_opts=mcgen.LIB_OPT + ["-XX:ParallelGCThreads=2"], timeout=3400)
        mcr.stdout = mcr.stdout[-4000:]
        if not mcr.ok:
            return {"mc": name, "consts": consts, "tlc": mcr}
        g = tlc.load_dot(dot + ".dot")
    r = rng(f"c17:walk:{name}")
    walks, total, taken = cover_walks(g, r, max_len, max_steps)
    n = consts["MCN"]

    def items():
        for wi, walk in enumerate(walks):
            muts = [tuple(k[2]) for k in walk]
            kinds = ("graph", "task") if wi % 7 == 0 else ("graph", "job") if wi % 7 == 1 else ("graph",)
            sess = {"n": n, "init": [], "muts": muts}
            script = session_script(n, muts, session_objects(kinds, n, r), True, r, per_version=(1, 3))
            yield name, None, sess, script

    out = exercise_and_judge(name, items(), workers, t0)
    out.update({"mc": name, "consts": consts, "tlc": mcr,
                "walk": {"machine_states": len(g.states), "machine_transitions": total, "transitions_replayed": taken,
                         "walks": len(walks), "steps": sum(len(w) for w in walks), "max_walk_length": max_len}})
    return out


def run_mc(name, consts, workers):
    with Scratch() as scratch:
        mod, cf = mcgen.write_mc(
            scratch, "DagMC", consts, name="MC_DagMC_" + re.sub(r"\W", "_", name), spec="MCSpec", invariants=MC_INV
        )
        r = _tlc_in(scratch, mod, cf, workers=workers, deadlock=False,
                    java_opts=mcgen.LIB_OPT + ["-XX:ParallelGCThreads=2"], timeout=3400)
    r.stdout = r.stdout[-4000:]
    return {"mc": name, "consts": consts, "tlc": r}


def _job(kind, *a):
    if kind == "mc":
        return run_mc(*a)
    if kind == "walk":
        return run_walk(*a)
    return run_batch(*a)


# ---------------------------------------------------------------------------


WHAT = {
    "C17.topo_order": "topological_sort does not list every node once after all its predecessors",
    "C17.topo_cycle": "a cycle is not reported as RuntimeError (or reported on an acyclic graph)",
    "C17.longest_path": "get_longest_path is not a source-to-sink path of maximum total weight",
    "C17.critical_path": "critical-path runtime differs from the maximum source-to-sink path weight",
    "C17.dependent": "are_dependent disagrees with reachability",
    "C17.depth": "get_node_depth differs from 1 + the depth of the deepest (func=min: shallowest) parent",
    "C17.mutator": "a constructor / mutator call that yields a graph raised",
    "C17.sources": "sources do not match the graph",
    "C17.sinks": "sinks do not match the graph",
    "C17.bfs": "breadth-first iteration does not yield every node once with parents first",
    "C17.dfs": "depth-first iteration does not yield exactly the reachable nodes, each once",
}


def run(tier: str) -> CheckResult:
    res = CheckResult("C17", tier)
    res.assumptions = [
        "TLC evaluates the definitions of spec/Dag.tla faithfully; the polynomial forms used above "
        f"{BFMAX} nodes (fixpoint reachability, Kahn order, folded depth / longest-weight tables) are "
        "cross-checked against the brute-force forms by DagMC only up to the model-checked universe",
        "graphs are simple (no parallel edges), nodes are hashable and truthy (ints >= 1, Task, Job); weights "
        "are positive integers; are_dependent is only judged on distinct nodes",
        "insertion-order coverage: all labelled DAGs on <= 4 nodes (equivalent to all node insertion orders "
        "up to renaming) x every order of every child list x {add_node/add_child, constructor mapping}; "
        "larger graphs with sampled node / edge insertion orders",
        "methods judged on cyclic graphs: topological_sort, get_longest_path, get_node_depth, are_dependent, "
        "critical_path_runtime, completion_time (must raise RuntimeError), sources / sinks; traversals are "
        "only judged on DAGs",
        "depth_first() without a start node is judged as depth-first iteration from the sources; "
        "breadth_first(node) is outside the statement and only reported as info.bfs_from",
        "Task / Job nodes: distinct names, one timestamp, slo unset, probability 1 (no conditional branches)",
        "the object as a state machine: add_node, add_child(existing parent, new edge) and remove(node without "
        "parents) -- Graph.remove leaves the removed node in its parents' child lists, so only a parentless node "
        "can be removed and leave a graph; every query is judged against the graph of the version it was asked on",
        "conv.cached_property: critical_path_runtime (functools.cached_property) and completion_time are declared "
        "computed-once by the code; a read that repeats the value of an earlier read on an earlier version of the "
        "same object is reported as info.cached_property, not as a violation",
    ]
    q = tier == "quick"
    jobs = []
    if q:
        jobs.append(("mc", "DagMC/N4W2", {"MCN": 4, "MCW": 2, "MCLoops": False, "MCUpper": False}, 3))
        jobs.append(("mc", "DagMC/N3W3loops", {"MCN": 3, "MCW": 3, "MCLoops": True, "MCUpper": False}, 1))
    else:
        jobs.append(("mc", "DagMC/N4W3loops", {"MCN": 4, "MCW": 3, "MCLoops": True, "MCUpper": False}, 2))
        jobs.append(("mc", "DagMC/N5W2upper", {"MCN": 5, "MCW": 2, "MCLoops": False, "MCUpper": True}, 2))
    if q:
        jobs.append(("walk", "walk/ObjN3", {"MCN": 3, "MCW": 1, "MCLoops": False, "MCUpper": False}, tier, 1,
                     16, 4200))
    else:
        jobs.append(("walk", "walk/ObjN3loops", {"MCN": 3, "MCW": 1, "MCLoops": True, "MCUpper": False}, tier, 2,
                     20, 60000))
        jobs.append(("walk", "walk/ObjN4", {"MCN": 4, "MCW": 1, "MCLoops": False, "MCUpper": False}, tier, 2,
                     24, 60000))
    labelled_dags(4)  # computed once before forking
    if not q:
        labelled_dags(5)
    # few JVMs with several workers each (every JVM start costs seconds of CPU)
    groups, workers = (5, 2) if q else (30, 2)
    for name, parts in batches_for(tier, groups):
        jobs.append(("batch", name, parts, tier, workers))
    outs = parallel(_job, jobs, procs=len(jobs) if q else 7)

    per_method, per_clause, batches = {}, {}, []
    batch_samples = []
    by_key = {}
    graphs = 0
    stats, mutator_calls, walks = {}, {}, {}
    for o in outs:
        if "mc" in o:
            r = o["tlc"]
            res.add_tlc(o["mc"], r)
            res.extra.setdefault("mc_constants", {})[o["mc"]] = o["consts"]
            if not r.ok:
                # the definitions disagree with each other: the oracle is broken, not the code
                raise tlc.TLCMachineryError(
                    f"DagMC {o['consts']}: {r.violation_kind} {r.violation_name} violated\n{r.stdout[-3000:]}"
                )
            if "walk" not in o:
                continue
            walks[o["mc"]] = o["walk"]
        graphs += o["graphs"]
        for k, v in o["stats"].items():
            stats[k] = stats.get(k, 0) + v
        for k, v in o["mutator_calls"].items():
            mutator_calls[k] = mutator_calls.get(k, 0) + v
        res.traces_validated += o["records"]
        res.states += o["tlc_states"]
        for k, v in o["per_method"].items():
            per_method[k] = per_method.get(k, 0) + v
        for k, v in o["per_clause"].items():
            per_clause[k] = per_clause.get(k, 0) + v
        for ck, g in o["failures"].items():
            t = by_key.setdefault(ck, {"count": 0, "examples": []})
            t["count"] += g["count"]
            t["examples"] += g["examples"]
        batches.append({"name": o["name"], "parts": o["per_part"], "graphs": o["graphs"], "records": o["records"],
                        "wall_exercise_s": o["wall_exercise_s"], "wall_tlc_s": o["wall_tlc_s"]})
        if o["sample"] and len(batch_samples) < 3:
            batch_samples.append(o["sample"])

    unsupported = [ck for ck in by_key if ck[0].startswith("spec.")]
    if unsupported:
        raise tlc.TLCMachineryError(
            f"DagTrace could not judge some records: {by_key[unsupported[0]]['examples'][0]}"
        )

    info = {}
    failing_per_clause = {}
    for (clause, key), g in sorted(by_key.items()):
        fs = sorted(g["examples"], key=_fail_order)
        mn = fs[0]
        detail = dict(mn["detail"])
        detail["failing_records"] = g["count"]
        detail["other_examples"] = [
            {k: f["detail"][k] for k in ("class", "construction", "earlier_calls_on_the_object", "call", "weights",
                                         "got", "expected", "same_call_on_a_fresh_object")}
            for f in fs[1:4]
        ]
        failing_per_clause[clause] = failing_per_clause.get(clause, 0) + g["count"]
        if clause.startswith("info."):
            info[key] = {"clause": clause, "failing_records": g["count"], "minimal": detail}
            continue
        res.violate(
            clause,
            f"{WHAT.get(clause, clause)}: {detail['class']} {detail['construction']} "
            f"after {len(detail['earlier_calls_on_the_object'])} earlier calls on the object "
            f"{detail['earlier_calls_on_the_object'][-6:]} {detail['call']} -> "
            f"{detail['got']} ({mn['reason']}; same call on a fresh object: "
            f"{detail.get('same_call_on_a_fresh_object')}; {g['count']} failing records)",
            detail,
            key=key,
        )
        res.samples.append({"violation": clause, "key": key, "construction": detail["construction"],
                            "earlier_calls_on_the_object": detail["earlier_calls_on_the_object"],
                            "call": detail["call"], "weights": detail["weights"], "got": detail["got"],
                            "expected": detail["expected"],
                            "same_call_on_a_fresh_object": detail.get("same_call_on_a_fresh_object")})
    res.samples = res.samples[:5] + batch_samples
    if info:
        res.extra["informational_outside_statement"] = info
        for k, v in info.items():
            res.notes.append(
                f"{k}: {v['failing_records']} records outside the property statement rejected by the "
                f"informational clause {v['clause']} (not a violation)"
            )
    res.extra.update(
        {
            "graphs": graphs,
            "cyclic_graphs": stats.pop("cyclic_graphs", 0),
            "history_and_mutation_coverage": dict(sorted(stats.items())),
            "mutator_calls": dict(sorted(mutator_calls.items())),
            "machine_walks": walks,
            "records_per_method": dict(sorted(per_method.items())),
            "records_per_clause": dict(sorted(per_clause.items())),
            "failing_records_per_clause": failing_per_clause,
            # C17.mutator only gets a record when an allowed constructor / mutator call raises
            "clauses_not_exercised": sorted(c for c in WHAT if per_clause.get(c, 0) == 0 and c != "C17.mutator"),
            "batches": batches,
            "bf_max_nodes": BFMAX,
        }
    )
    return res


def replay(d):
    """Re-run one stored counterexample (the whole life of the object up to the failing call:
    constructor, mutator calls and earlier queries) against the repository and let TLC judge it."""
    det = d["detail"]
    if "object_script" not in det:
        return 0
    if det["method"] in ("construct", "add_node", "add_child", "remove"):
        print("a constructor / mutator call raised:", det["call"], "->", det["got"], "(not replayed on its own)")
        return 0
    signal.signal(signal.SIGPROF, _alarm)
    kind = {v: k for k, v in KIND_CLASS.items()}[det["class"]]
    sess = {"n": det["n"], "init": det["session"]["init"],
            "muts": [tuple(m) for m in det["session"]["mutator_calls"]]}
    script, k = [], 0
    for h in det["object_script"]:
        if h[0] == "m":
            script.append(("m", k))
            k += 1
        elif h[1] not in ("construct", "add_node", "add_child", "remove"):
            script.append(("c", (kind, det.get("node_runtimes", []), h[1], h[2], h[3], h[4])))
    rec = Recorder()
    rec.perform(0, sess, script)
    if not rec.calls:
        print("nothing recorded")
        return 0
    with Scratch() as scratch:
        fails, _, _ = judge_batch(scratch, "replay", [_entry(0, sess, rec.calls)], len(rec.calls))
    last = rec.calls[-1]
    print("recorded now:", last, "got:", rec.meta[last["id"]][7])
    mine = [f[1:] for f in fails if f[0] == last["id"]]
    print("TLC verdict on the call:", mine if mine else "accepted",
          "| on the earlier calls of the object:", [f[:3] for f in fails if f[0] != last["id"]] or "accepted")
    return 1 if mine else 0
