"""World descriptions (JSON-able) -> real simulator inputs, and seeded generators.

A world = job graphs with release policies + profiles/strategies + cluster + policy +
simulator flags + seed.  `build(world)` returns (worker_pools, scheduler, loader, flags).
"""
from __future__ import annotations

import json
import random
import sys
import types

from .realobj import mk_request, ns, us


def R(n, i, q):
    return {"name": n, "id": i, "q": q}


def I(n, i, c):
    return {"name": n, "id": i, "cap": c}


DEFAULT_FLAGS = {
    "frequency": -1,
    "delay": 0,
    "at_worker_free": False,
    "drop_skipped": False,
    "timeout": 400,
    "variance": 0,
    "update_interval": -1,
    "resolve_conditionals": False,
    "min_dl_var": 0,
    "max_dl_var": 0,
    "expect_all_done": False,
}

DEFAULT_SCHED = {
    "kind": "edf",
    "runtime": 0,
    "enforce": False,
    "lookahead": 0,
    "retract": False,
    "rtg": False,
    "goal": "max_goodput",
    "disc": 1,
    "plan_ahead": -1,
    "batching": False,
    "preemptive": False,
}


def mk_flags(world):
    fl = dict(DEFAULT_FLAGS)
    fl.update(world.get("flags", {}))
    sc = dict(DEFAULT_SCHED)
    sc.update(world.get("sched", {}))
    f = types.SimpleNamespace(
        log_dir=None,
        log_file_name=None,
        log_level="info",
        csv_file_name=None,
        scheduler_delay=fl["delay"],
        runtime_variance=fl["variance"],
        drop_skipped_tasks=fl["drop_skipped"],
        verify_schedule=False,
        scheduler_run_at_worker_free=fl["at_worker_free"],
        workload_update_interval=fl["update_interval"],
        log_graphs=False,
        random_seed=world.get("seed", 0),
        min_deadline_variance=fl["min_dl_var"],
        max_deadline_variance=fl["max_dl_var"],
        min_deadline=0,
        max_deadline=sys.maxsize,
        use_branch_predicated_deadlines=False,
        resolve_conditionals_at_submission=fl["resolve_conditionals"],
        decompose_deadlines=False,
        release_taskgraphs=sc["rtg"],
        scheduler_log_times=[],
        scheduler_run_load=bool(sc.get("run_load", False)),
        scheduler_log_to_file=False,
    )
    return f, fl, sc


def build_profiles(world):
    N = ns()
    profs = []

    def rt_of(s):
        # "unit": "ms" / "s": the runtime is handed to the code in a coarser EventTime unit ("rt" stays microseconds in the
        # world description and must be a multiple of the unit): arithmetic that forgets the unit is exposed
        u = s.get("unit", "us")
        if u == "us":
            return us(s["rt"])
        f = {"ms": 1000, "s": 1000000}[u]
        assert s["rt"] % f == 0, s
        return N.EventTime(s["rt"] // f, {"ms": N.EventTime.Unit.MS, "s": N.EventTime.Unit.S}[u])

    for p in world["profiles"]:
        strats = [
            N.ExecutionStrategy(resources=mk_request(s["dem"]), batch_size=s.get("bs", 1), runtime=rt_of(s))
            for s in p["strats"]
        ]
        loading = [
            N.ExecutionStrategy(resources=mk_request(s["dem"]), batch_size=s.get("bs", 1), runtime=us(s["rt"]))
            for s in p.get("loading", [])
        ]
        profs.append(
            N.WorkProfile(
                name=p["name"],
                execution_strategies=N.ExecutionStrategies(strategies=strats),
                loading_strategies=N.ExecutionStrategies(strategies=loading),
            )
        )
    return profs


def build_policy(pol):
    N = ns()
    RP = N.JobGraph.ReleasePolicy
    t = pol["type"]
    start = us(pol.get("start", 0))
    if t == "fixed":
        return RP.fixed(period=us(pol["period"]), num_invocations=pol["n"], start=start)
    if t == "periodic":
        return RP.periodic(period=us(pol["period"]), start=start)
    if t == "poisson":
        return RP.poisson(rate=pol["rate"], num_invocations=pol["n"], start=start, rng_seed=pol.get("rng_seed", 1))
    if t == "gamma":
        return RP.gamma(
            rate=pol["rate"], coefficient=pol["coef"], num_invocations=pol["n"], start=start, rng_seed=pol.get("rng_seed", 1)
        )
    if t == "closed_loop":
        return RP.closed_loop(concurrency=pol["conc"], num_invocations=pol["n"], start=start)
    raise ValueError(t)


def build_job_graphs(world, profs):
    N = ns()
    out = {}
    for g in world["graphs"]:
        jobs = {}
        for j in g["jobs"]:
            jobs[j["name"]] = N.Job(
                name=j["name"],
                profile=profs[j["profile"]],
                conditional=j.get("cond", False),
                terminal=j.get("term", False),
                probability=j.get("prob", 1.0),
                slo=us(j["slo"]) if j.get("slo") is not None else N.EventTime.invalid(),
            )
        jg = N.JobGraph(
            name=g["name"],
            release_policy=build_policy(g["policy"]),
            deadline_variance=tuple(g["dv"]) if g.get("dv") is not None else None,
        )
        for j in g["jobs"]:
            jg.add_job(jobs[j["name"]])
        for j in g["jobs"]:
            for c in j.get("children", []):
                jg.add_child(jobs[j["name"]], jobs[c])
        out[g["name"]] = jg
    return out


def build_task_graphs(world, profs):
    """Trace-replay style TaskGraphs built directly from Tasks (no JobGraph), as TaskLoaderPylot produces them: every
    operator has one Task per timestamp; the operators of one timestamp are connected as the jobs say; a non-pipelined
    operator's Task of timestamp t additionally depends on the same operator's Task of timestamp t-1.  Sources of a
    timestamp are released at start + t * period; with `own_release` every Task carries that release time."""
    N = ns()
    out = []
    for g in world.get("tgraphs", []):
        names = [j["name"] for j in g["jobs"]]
        has_parent = {c for j in g["jobs"] for c in j.get("children", [])}
        jobs = {j["name"]: N.Job(name=j["name"], profile=profs[j["profile"]]) for j in g["jobs"]}
        tasks = {}
        for ts in range(g["timestamps"]):
            rel = g.get("start", 0) + ts * g["period"]
            for n in names:
                own = n not in has_parent or g.get("own_release", False)
                tasks[(n, ts)] = N.Task(
                    name=n, task_graph=g["name"], job=jobs[n], deadline=us(rel + g["deadline"]), timestamp=ts,
                    release_time=us(rel) if own else N.EventTime(-1, N.EventTime.Unit.US),
                )
        mapping = {}
        for ts in range(g["timestamps"]):
            for j in g["jobs"]:
                ch = [tasks[(c, ts)] for c in j.get("children", [])]
                if not j.get("pipelined", g.get("pipelined", False)) and ts + 1 < g["timestamps"]:
                    ch.append(tasks[(j["name"], ts + 1)])
                mapping[tasks[(j["name"], ts)]] = ch
        out.append(N.TaskGraph(name=g["name"], tasks=mapping))
    return out


def build_pools(world):
    N = ns()
    pools = []
    for pi, pool in enumerate(world["pools"]):
        workers = []
        for wi, insts in enumerate(pool):
            rv = {N.Resource(name=i["name"], _id=i["id"]): i["cap"] for i in insts}
            workers.append(N.Worker(name=f"W{pi}_{wi}", resources=N.Resources(resource_vector=rv)))
        pools.append(N.WorkerPool(name=f"Pool{pi}", workers=workers))
    return N.WorkerPools(pools)


class OnceLoader:
    """Releases the whole workload at the first UPDATE_WORKLOAD (like WorkloadLoader)."""

    def __init__(self, workload):
        self._workload = workload
        self._done = False

    def get_next_workload(self, current_time):
        if self._done:
            return None
        self._done = True
        return self._workload


class BatchedLoader:
    """Hands the task graphs over in several UPDATE_WORKLOAD batches, adding to the SAME Workload object on every call
    (as AlibabaLoader does): with an update interval I the call at time T releases the graphs with release time < T + I;
    without one (the next update then happens one microsecond after the latest release) the next `count` graphs in
    release order plus all the graphs released at the same instant as the last of them.  A call that finds nothing new
    returns the unchanged Workload (not None) while graphs remain, None afterwards."""

    def __init__(self, workload, flags, interval, count):
        from utils import EventTime
        from workload import Workload

        self._us = EventTime.Unit.US
        self._pending = sorted(workload.task_graphs.values(), key=lambda tg: (tg.release_time.to(self._us).time, tg.name))
        self._out = Workload.empty(flags)
        self._interval = interval
        self._count = max(1, count)

    def get_next_workload(self, current_time):
        if not self._pending:
            return None
        now = current_time.to(self._us).time
        rel = lambda tg: tg.release_time.to(self._us).time  # noqa: E731
        if self._interval > 0:
            n = sum(1 for tg in self._pending if rel(tg) < now + self._interval)
        else:
            # the simulator polls again one microsecond after the latest release time among the tasks it released for
            # this batch: every graph that starts up to that instant has to be in the batch too (a trace-replay graph
            # releases sources of later timestamps long after its first one)
            n = min(self._count, len(self._pending))
            while True:
                horizon = max([rel(self._pending[n - 1])] + [t.release_time.to(self._us).time for tg in self._pending[:n]
                                                             for t in tg.get_releasable_tasks() if not t.release_time.is_invalid()])
                m = sum(1 for tg in self._pending if rel(tg) <= horizon)
                if m <= n:
                    break
                n = m
        batch, self._pending = self._pending[:n], self._pending[n:]
        for tg in batch:
            self._out.add_task_graph(tg)
        return self._out


def make_loader(workload, world=None, flags=None, fl=None):
    from data import BaseWorkloadLoader

    spec = (world or {}).get("loader")
    if spec:
        class _B(BatchedLoader, BaseWorkloadLoader):
            pass

        return _B(workload, flags, fl["update_interval"], spec.get("count", 1))

    class _L(OnceLoader, BaseWorkloadLoader):
        pass

    return _L(workload)


def build_scheduler(world, flags, sc):
    N = ns()
    import schedulers

    kind = sc["kind"]
    rt = us(sc["runtime"])
    la = us(sc["lookahead"])
    if kind == "edf":
        return schedulers.EDFScheduler(preemptive=sc["preemptive"], runtime=rt, enforce_deadlines=sc["enforce"], _flags=flags)
    if kind == "fifo":
        return schedulers.FIFOScheduler(runtime=rt, enforce_deadlines=sc["enforce"], _flags=flags)
    if kind == "lsf":
        return schedulers.LSFScheduler(preemptive=sc["preemptive"], runtime=rt, _flags=flags)
    if kind == "ilp":
        from schedulers import ILPScheduler

        return ILPScheduler(
            runtime=rt, lookahead=la, enforce_deadlines=sc["enforce"], retract_schedules=sc["retract"],
            release_taskgraphs=sc["rtg"], goal=sc["goal"], batching=sc["batching"],
            time_limit=N.EventTime(20, N.EventTime.Unit.S), _flags=flags,
        )
    if kind in ("ts_gurobi", "ts_cplex"):
        from schedulers import TetriSchedCPLEXScheduler, TetriSchedGurobiScheduler

        cls = TetriSchedGurobiScheduler if kind == "ts_gurobi" else TetriSchedCPLEXScheduler
        kw = dict(
            runtime=rt, lookahead=la, enforce_deadlines=sc["enforce"], retract_schedules=sc["retract"],
            goal=sc["goal"], batching=sc["batching"], time_limit=N.EventTime(20, N.EventTime.Unit.S),
            time_discretization=us(sc["disc"]), plan_ahead=us(sc["plan_ahead"]), _flags=flags,
        )
        if kind == "ts_gurobi":
            kw["release_taskgraphs"] = sc["rtg"]
        return cls(**kw)
    if kind == "clockwork":
        return schedulers.ClockworkScheduler(runtime=rt, goal=sc.get("cw_goal", "clockwork"), _flags=flags)
    if kind == "scripted":
        from .hostile import ScriptedScheduler

        return ScriptedScheduler(sc["script"], runtime=rt, lookahead=la, retract_schedules=sc["retract"],
                                 release_taskgraphs=sc["rtg"], _flags=flags)
    if kind == "hostile":
        from .hostile import HostileScheduler

        return HostileScheduler(
            seed=world.get("seed", 0), runtime=rt, lookahead=la, retract_schedules=sc["retract"],
            release_taskgraphs=sc["rtg"], cancel_rate=sc.get("cancel_rate", 0.1),
            cancel_cond_children=sc.get("cancel_cond_children", False), batching=sc.get("batching", False),
            preemptive=sc.get("preemptive", False), _flags=flags,
        )
    raise ValueError(kind)


def build(world):
    N = ns()
    flags, fl, sc = mk_flags(world)
    seed = world.get("seed", 0)
    random.seed(seed)
    N.EventTime._rng = random.Random(seed)
    profs = build_profiles(world)
    jgs = build_job_graphs(world, profs)
    workload = N.Workload.from_job_graphs(jgs, _flags=flags)
    workload.populate_task_graphs(completion_time=us(fl["timeout"]))
    # explicit release times for non-source tasks, as trace-replay loaders (TaskLoaderPylot) produce them
    for gname, names in world.get("task_release", {}).items():
        for tg in workload.task_graphs.values():
            if tg.name.split("@")[0] == gname:
                for tname, rel in names.items():
                    t = tg.get_task(tname)
                    t._release_time = us(rel)
                    t._intended_release_time = us(rel)
    for tg in build_task_graphs(world, profs):
        workload.add_task_graph(tg)
    pools = build_pools(world)
    sched = build_scheduler(world, flags, sc)
    loader = make_loader(workload, world, flags, fl)
    return pools, sched, loader, flags, fl, sc


# ---------------------------------------------------------------------------
# generators

SHAPES = ["single", "chain2", "chain3", "fork", "join", "diamond", "skip", "cond", "cond_uneven", "two_cond", "disconnected",
          "uneven_join", "rand_dag", "rand_dag", "cond_elif", "cond3_zero"]


def shape_jobs(shape, rnd, nprof):
    """Return list of job dicts for a DAG shape."""
    P = lambda: rnd.randrange(nprof)  # noqa: E731

    def J(name, children=(), **kw):
        d = {"name": name, "profile": P(), "children": list(children)}
        d.update(kw)
        return d

    if shape == "single":
        return [J("A")]
    if shape == "chain2":
        return [J("A", ["B"]), J("B")]
    if shape == "chain3":
        return [J("A", ["B"]), J("B", ["C"]), J("C")]
    if shape == "fork":
        return [J("A", ["B", "C"]), J("B"), J("C")]
    if shape == "join":
        return [J("A", ["C"]), J("B", ["C"]), J("C")]
    if shape == "diamond":
        return [J("A", ["B", "C"]), J("B", ["D"]), J("C", ["D"]), J("D")]
    if shape == "skip":
        return [J("A", ["D", "B"]), J("B", ["D"]), J("D")]
    if shape == "cond":
        p = rnd.choice([0.5, 0.3, 0.9, 1.0])
        return [
            J("A", ["B", "C"], cond=True),
            J("B", ["D"], prob=p),
            J("C", ["D"], prob=round(1.0 - p, 6)),
            J("D", ["E"], term=True),
            J("E"),
        ]
    if shape == "cond_uneven":
        p = rnd.choice([0.5, 0.25, 0.75])
        return [
            J("A", ["B", "C"], cond=True),
            J("B", ["B2"], prob=p),
            J("B2", ["D"]),
            J("C", ["D"], prob=round(1.0 - p, 6)),
            J("D", term=True),
        ]
    if shape == "two_cond":
        return [
            J("S", ["A"]),
            J("A", ["B", "C"], cond=True),
            J("B", ["D"], prob=0.5),
            J("C", ["D"], prob=0.5),
            J("D", ["X"], term=True),
            J("X", ["Y", "Z"], cond=True),
            J("Y", ["T"], prob=0.5),
            J("Z", ["T"], prob=0.5),
            J("T", term=True),
        ]
    if shape == "cond3_zero":
        # a three-way conditional with a disabled (probability 0) branch and no branch at 1.0
        z = rnd.randrange(3)
        pr = [0.5, 0.5]
        pr.insert(z, 0.0)
        return [
            J("A", ["B", "C", "D"], cond=True), J("B", ["Jn"], prob=pr[0]), J("C", ["C2"], prob=pr[1]), J("C2", ["Jn"]),
            J("D", ["Jn"], prob=pr[2]), J("Jn", ["K"], term=True), J("K"),
        ]
    if shape == "cond_elif":
        # if / else-if / else sharing ONE join, followed by another conditional
        return [
            J("A", ["C", "B"] if rnd.random() < 0.7 else ["B", "C"], cond=True), J("B", ["D", "E"], cond=True, prob=0.5), J("C", ["Jn"], prob=0.5),
            J("D", ["Jn"], prob=0.5), J("E", ["Jn"], prob=0.5), J("Jn", ["X"], term=True),
            J("X", ["Y", "Z"], cond=True), J("Y", ["T"], prob=0.5), J("Z", ["T"], prob=0.5), J("T", ["K"], term=True), J("K"),
        ]
    if shape == "disconnected":
        return [J("A", ["B"]), J("B"), J("C")]
    if shape == "uneven_join":
        # a join reached through paths of unequal length, with a descendant: the frontier's estimate of M (and G) must be
        # the one propagated along the LONGER path even when the shorter one is expanded first
        first = [J("P1", ["M"]), J("P2", ["X1"])]
        if rnd.random() < 0.5:
            first.reverse()
        return first + [J("X1", ["X2"]), J("X2", ["M"]), J("M", ["G"]), J("G")]
    if shape == "rand_dag":
        # a random DAG on 4..7 nodes (edges i -> j for i < j), children lists in random order, nodes inserted in random order
        n = rnd.randint(4, 7)
        names = [f"N{i}" for i in range(n)]
        p = rnd.choice([0.25, 0.4, 0.6])
        ch = {i: [j for j in range(i + 1, n) if rnd.random() < p] for i in range(n)}
        for i in ch:
            rnd.shuffle(ch[i])
        order = list(range(n))
        if rnd.random() < 0.5:
            rnd.shuffle(order)
        return [J(names[i], [names[j] for j in ch[i]]) for i in order]
    raise ValueError(shape)


def gen_world(rnd: random.Random, *, kinds=("edf", "fifo", "lsf", "hostile"), max_graphs=2, closed_loop=True, extras=True):
    res_names = ["gpu"] if rnd.random() < 0.6 else ["gpu", "cpu"]
    nprof = rnd.randint(1, 3)
    profiles = []
    for k in range(nprof):
        strats = []
        for _ in range(rnd.randint(1, 2)):
            dem = [R(n, "any", rnd.randint(1, 2)) for n in res_names if rnd.random() < 0.8] or [R(res_names[0], "any", 1)]
            strats.append({"dem": dem, "rt": rnd.randint(1, 6), "bs": 1})
        profiles.append({"name": f"P{k}", "strats": strats})
    graphs = []
    for gi in range(rnd.randint(1, max_graphs)):
        shape = rnd.choice(SHAPES if extras else [x for x in SHAPES if x != "rand_dag"])
        pt = rnd.choice(["fixed", "fixed", "periodic", "closed_loop" if closed_loop else "fixed"])
        if pt == "fixed":
            pol = {"type": "fixed", "period": rnd.randint(1, 8), "n": rnd.randint(1, 3), "start": rnd.randint(0, 4)}
        elif pt == "periodic":
            pol = {"type": "periodic", "period": rnd.randint(20, 60), "start": rnd.randint(0, 4)}
        else:
            pol = {"type": "closed_loop", "conc": rnd.randint(1, 2), "n": rnd.randint(1, 4), "start": rnd.randint(0, 3)}
        dv = rnd.choice([[0, 0], [0, 0], [10, 50], [0, 100]])
        graphs.append({"name": f"G{gi}", "jobs": shape_jobs(shape, rnd, nprof), "policy": pol, "dv": dv})
    pools = []
    uid = 0
    for pi in range(rnd.randint(1, 2)):
        ws = []
        for wi in range(rnd.randint(1, 2)):
            insts = []
            for n in res_names:
                for _ in range(1 if rnd.random() < 0.7 else 2):
                    uid += 1
                    insts.append(I(n, f"{n}{uid}", rnd.randint(1, 3)))
            ws.append(insts)
        pools.append(ws)
    # make sure the biggest demand fits somewhere for work-conserving worlds
    kind = rnd.choice(list(kinds))
    # the greedy policies place at the invocation time, which the simulator rejects as "in the
    # past" when the scheduler runtime is non-zero (see known findings): their worlds use 0
    sched = {"kind": kind, "runtime": rnd.choice([0, 0, 1, 2]) if kind == "hostile" else 0,
             "enforce": rnd.random() < 0.3 and kind in ("edf", "fifo")}
    if kind == "hostile":
        sched.update({"lookahead": rnd.choice([0, 0, 3, 10]), "retract": rnd.random() < 0.4, "rtg": rnd.random() < 0.3,
                      "cancel_rate": rnd.choice([0.0, 0.1, 0.3]), "batching": rnd.random() < 0.3})
    flags = {
        "frequency": rnd.choice([-1, -1, 2, 5]),
        "delay": rnd.choice([0, 0, 1]),
        "at_worker_free": rnd.random() < 0.15,
        "drop_skipped": rnd.random() < 0.2,
        "timeout": rnd.choice([80, 150, 300]),
        "variance": rnd.choice([0, 0, 0, 50]),
    }
    w = {"profiles": profiles, "graphs": graphs, "pools": pools, "sched": sched, "flags": flags, "seed": rnd.randrange(10**6)}
    # conditionals resolved at submission (C07): the branch that runs is fixed when the task graph is created
    if any(j.get("cond") for g in graphs for j in g["jobs"]) and rnd.random() < 0.35:
        flags["resolve_conditionals"] = True
    # a trace-replay style task graph (no JobGraph): one Task per operator and timestamp, non-pipelined operators chained
    # across timestamps, optionally every Task with its own release time
    if extras and rnd.random() < 0.15:
        ops = rnd.choice([[("Cam", ["Det"]), ("Det", [])], [("Cam", ["Det", "Loc"]), ("Det", ["Plan"]), ("Loc", ["Plan"]), ("Plan", [])],
                          [("Src", [])], [("A", ["B"]), ("B", ["C"]), ("C", [])]])
        w["tgraphs"] = [{"name": "T0", "jobs": [{"name": n, "profile": rnd.randrange(nprof), "children": ch, "pipelined": rnd.random() < 0.4} for n, ch in ops],
                         "timestamps": rnd.randint(2, 4), "period": rnd.randint(3, 10), "start": rnd.randint(0, 5), "deadline": rnd.choice([15, 40, 100]),
                         "own_release": rnd.random() < 0.3}]
    # the workload arrives in several UPDATE_WORKLOAD batches (loaders that add to the same Workload on every call)
    if extras and rnd.random() < 0.2:
        w["loader"] = {"kind": "batched", "count": rnd.randint(1, 2)}
        flags["update_interval"] = rnd.choice([-1, -1, 3, 7])
    return w


def max_demand_fits(world):
    """every strategy of every profile fits some empty worker"""
    for p in world["profiles"]:
        for s in p["strats"]:
            ok = False
            for pool in world["pools"]:
                for w in pool:
                    if all(sum(i["cap"] for i in w if i["name"] == e["name"]) >= e["q"] for e in s["dem"]):
                        ok = True
            if not ok:
                return False
    return True


def gen_clockwork_world(rnd: random.Random):
    """Inference-serving world for the Clockwork policy inside simulate(): models (profiles with a loading strategy and
    batch-size execution strategies), single-task request graphs, the policy loads / evicts models itself (run_load)."""
    nmod = rnd.randint(1, 3)
    profiles = []
    for k in range(nmod):
        strats = [{"dem": [R("gpu", "any", 1)], "rt": rnd.randint(2, 4), "bs": 1}]
        if rnd.random() < 0.7:
            strats.append({"dem": [R("gpu", "any", 1)], "rt": strats[0]["rt"] + rnd.randint(1, 3), "bs": 2})
        profiles.append({"name": f"M{k}", "strats": strats,
                         "loading": [{"dem": [R("mem", "any", rnd.randint(1, 2))], "rt": rnd.randint(1, 5), "bs": 1}]})
    graphs = []
    for gi in range(rnd.randint(1, 3)):
        graphs.append({"name": f"G{gi}", "jobs": [{"name": "R", "profile": rnd.randrange(nmod)}],
                       "policy": {"type": "fixed", "period": rnd.randint(1, 4), "n": rnd.randint(2, 6), "start": rnd.randint(0, 6)},
                       "dv": rnd.choice([[0, 0], [50, 200], [100, 400]])})
    pools = [[[I("gpu", f"g{w}", rnd.randint(1, 2)), I("mem", f"m{w}", rnd.randint(2, 4))] for w in range(rnd.randint(1, 2))]]
    return {"profiles": profiles, "graphs": graphs, "pools": pools,
            "sched": {"kind": "clockwork", "runtime": 0, "run_load": True, "cw_goal": rnd.choice(["clockwork", "least_slack"])},
            "flags": {"timeout": 200, "frequency": rnd.choice([-1, 1, 3])}, "seed": rnd.randrange(10**6)}


def gen_feasible_world(rnd: random.Random):
    """Work-conserving policy (EDF/FIFO/LSF without deadline enforcement), finite releases, every
    strategy fits some empty worker, generous timeout: the run must finish everything (C05)."""
    while True:
        w = gen_world(rnd, kinds=("edf", "fifo", "lsf"), closed_loop=True)
        for g in w["graphs"]:
            if g["policy"]["type"] == "periodic":
                g["policy"] = {"type": "fixed", "period": rnd.randint(1, 8), "n": rnd.randint(1, 3), "start": rnd.randint(0, 4)}
        w["sched"]["enforce"] = False
        w["sched"]["runtime"] = 0
        w["flags"].update({"drop_skipped": False, "timeout": 5000, "expect_all_done": True, "variance": rnd.choice([0, 0, 30])})
        if max_demand_fits(w):
            return w


def directed_worlds():
    """Hand-written worlds that force the rare paths regardless of the seed."""
    gpu1 = [R("gpu", "any", 1)]
    P = lambda rt, dem=gpu1: {"name": f"P{rt}", "strats": [{"dem": dem, "rt": rt, "bs": 1}]}  # noqa: E731
    one_gpu = [[[I("gpu", "g1", 1)]]]
    out = []
    # same-microsecond finish / release / placement / scheduler events: unit tasks in a chain + a contender
    out.append({
        "name": "same_us_chain",
        "profiles": [P(1)],
        "graphs": [
            {"name": "G0", "jobs": [{"name": "A", "profile": 0, "children": ["B"]}, {"name": "B", "profile": 0, "children": ["C"]},
                                    {"name": "C", "profile": 0}], "policy": {"type": "fixed", "period": 1, "n": 3, "start": 0}, "dv": [0, 0]},
        ],
        "pools": one_gpu, "sched": {"kind": "edf", "runtime": 0}, "flags": {"timeout": 2000, "expect_all_done": True}, "seed": 1,
    })
    # worker not ready: two tasks planned onto the same single-gpu pool at the same time by a hostile policy
    out.append({
        "name": "worker_not_ready",
        "profiles": [P(3)],
        "graphs": [{"name": "G0", "jobs": [{"name": "A", "profile": 0}, {"name": "B", "profile": 0}, {"name": "C", "profile": 0}],
                    "policy": {"type": "fixed", "period": 1, "n": 2, "start": 0}, "dv": [0, 0]}],
        "pools": one_gpu, "sched": {"kind": "hostile", "runtime": 1, "cancel_rate": 0.0, "lookahead": 0},
        "flags": {"timeout": 200}, "seed": 3,
    })
    # task not ready: children planned before their parents finish (lookahead)
    out.append({
        "name": "task_not_ready",
        "profiles": [P(4)],
        "graphs": [{"name": "G0", "jobs": [{"name": "A", "profile": 0, "children": ["B", "C"]}, {"name": "B", "profile": 0, "children": ["D"]},
                                           {"name": "C", "profile": 0, "children": ["D"]}, {"name": "D", "profile": 0}],
                    "policy": {"type": "fixed", "period": 2, "n": 2, "start": 1}, "dv": [0, 0]}],
        "pools": [[[I("gpu", "g1", 2)], [I("gpu", "g2", 1)]]],
        "sched": {"kind": "hostile", "runtime": 0, "cancel_rate": 0.0, "lookahead": 20, "rtg": True},
        "flags": {"timeout": 200}, "seed": 5,
    })
    # cancellation with pending placements, skip after schedule (retract), cascade through a join
    out.append({
        "name": "cancel_cascade",
        "profiles": [P(2)],
        "graphs": [{"name": "G0", "jobs": shape_jobs("two_cond", random.Random(1), 1), "policy": {"type": "fixed", "period": 3, "n": 3, "start": 0}, "dv": [0, 50]}],
        "pools": [[[I("gpu", "g1", 2)]]],
        "sched": {"kind": "hostile", "runtime": 1, "cancel_rate": 0.3, "lookahead": 0, "retract": True},
        "flags": {"timeout": 300, "drop_skipped": True, "frequency": 2}, "seed": 9,
    })
    # deadline enforcement: EDF cancels hopeless tasks (tight deadlines, contention)
    out.append({
        "name": "edf_enforce",
        "profiles": [P(5), P(2)],
        "graphs": [{"name": "G0", "jobs": [{"name": "A", "profile": 0, "children": ["B"]}, {"name": "B", "profile": 1}],
                    "policy": {"type": "fixed", "period": 1, "n": 4, "start": 0}, "dv": [0, 0]}],
        "pools": one_gpu, "sched": {"kind": "edf", "runtime": 0, "enforce": True}, "flags": {"timeout": 300}, "seed": 2,
    })
    # closed loop refill
    out.append({
        "name": "closed_loop",
        "profiles": [P(2)],
        "graphs": [{"name": "G0", "jobs": [{"name": "A", "profile": 0, "children": ["B"]}, {"name": "B", "profile": 0}],
                    "policy": {"type": "closed_loop", "conc": 2, "n": 5, "start": 1}, "dv": [0, 0]}],
        "pools": [[[I("gpu", "g1", 1)], [I("gpu", "g2", 1)]]], "sched": {"kind": "fifo", "runtime": 0},
        "flags": {"timeout": 3000, "expect_all_done": True}, "seed": 4,
    })
    # runtime variance and scheduler frequency / delay
    out.append({
        "name": "variance_frequency",
        "profiles": [P(6), P(3)],
        "graphs": [{"name": "G0", "jobs": shape_jobs("diamond", random.Random(2), 2), "policy": {"type": "fixed", "period": 4, "n": 3, "start": 2}, "dv": [10, 40]}],
        "pools": [[[I("gpu", "g1", 1), I("gpu", "g2", 1)]]], "sched": {"kind": "lsf", "runtime": 0},
        "flags": {"timeout": 3000, "variance": 50, "frequency": 3, "delay": 1, "expect_all_done": True}, "seed": 6,
    })
    # batch strategies: members join a placed batch, the batch empties and the same strategy object is used again
    out.append({
        "name": "batch_reuse",
        "profiles": [{"name": "P0", "strats": [{"dem": gpu1, "rt": 4, "bs": 2}]}, P(3)],
        "graphs": [{"name": "G0", "jobs": [{"name": "A", "profile": 0}, {"name": "B", "profile": 0}, {"name": "C", "profile": 1}],
                    "policy": {"type": "fixed", "period": 3, "n": 5, "start": 0}, "dv": [0, 0]}],
        "pools": one_gpu, "sched": {"kind": "hostile", "runtime": 0, "cancel_rate": 0.0, "lookahead": 0, "batching": True},
        "flags": {"timeout": 300}, "seed": 21,
    })
    # re-planning of SCHEDULED tasks (retract) for another time / the same time with another strategy or pool
    out.append({
        "name": "replan",
        "profiles": [{"name": "P0", "strats": [{"dem": gpu1, "rt": 5, "bs": 1}, {"dem": [R("gpu", "any", 2)], "rt": 2, "bs": 1}]}],
        "graphs": [{"name": "G0", "jobs": [{"name": "A", "profile": 0, "children": ["B"]}, {"name": "B", "profile": 0}, {"name": "C", "profile": 0}],
                    "policy": {"type": "fixed", "period": 2, "n": 4, "start": 0}, "dv": [0, 0]}],
        "pools": [[[I("gpu", "g1", 2)]], [[I("gpu", "g2", 2), I("gpu", "g3", 1)]]],
        "sched": {"kind": "hostile", "runtime": 1, "cancel_rate": 0.0, "lookahead": 6, "retract": True},
        "flags": {"timeout": 300, "frequency": 1}, "seed": 33,
    })
    # a cancellation racing a pending placement: A -> {X, B}, B -> C -> D; one invocation places A now, plans B for
    # t=5 ahead of its release and cancels the sink X; B's placement fires while A still runs and the graph is
    # cancelled: the simulator itself must cancel B *and its descendants*
    out.append({
        "name": "cancel_races_placement",
        "profiles": [P(10), P(3)],
        "graphs": [{"name": "G0", "jobs": [{"name": "A", "profile": 0, "children": ["X", "B"]}, {"name": "X", "profile": 1},
                                           {"name": "B", "profile": 1, "children": ["C"]}, {"name": "C", "profile": 1, "children": ["D"]},
                                           {"name": "D", "profile": 1}],
                    "policy": {"type": "fixed", "period": 1, "n": 1, "start": 0}, "dv": [0, 0]}],
        "pools": [[[I("gpu", "g1", 3)]]],
        "sched": {"kind": "scripted", "runtime": 0, "lookahead": 50, "rtg": True, "script": [
            {"at": 0, "decs": [{"task": "A@G0@0", "do": "place", "time": 0}, {"task": "B@G0@0", "do": "place", "time": 5},
                               {"task": "X@G0@0", "do": "cancel"}]}]},
        "flags": {"timeout": 100}, "seed": 1,
    })
    # dependents with their own (later) release time: B may only be released at t=50 although A finishes at t=10
    out.append({
        "name": "child_own_release_time",
        "profiles": [P(10), P(3)],
        "graphs": [{"name": "G0", "jobs": [{"name": "A", "profile": 0, "children": ["B"]}, {"name": "B", "profile": 1, "children": ["C"]},
                                           {"name": "C", "profile": 1}],
                    "policy": {"type": "fixed", "period": 1, "n": 1, "start": 0}, "dv": [0, 0]}],
        "task_release": {"G0": {"B": 50}},
        "pools": one_gpu, "sched": {"kind": "edf", "runtime": 0}, "flags": {"timeout": 2000, "expect_all_done": True}, "seed": 1,
    })
    # re-planning for the same time with another strategy (exactly), then the placement fires
    out.append({
        "name": "replan_same_time_scripted",
        "profiles": [{"name": "P0", "strats": [{"dem": gpu1, "rt": 5, "bs": 1}, {"dem": [R("gpu", "any", 2)], "rt": 20, "bs": 1}]}],
        "graphs": [{"name": "G0", "jobs": [{"name": "A", "profile": 0}], "policy": {"type": "fixed", "period": 1, "n": 1, "start": 0}, "dv": [0, 0]}],
        "pools": [[[I("gpu", "g1", 2)]]],
        "sched": {"kind": "scripted", "runtime": 0, "lookahead": 0, "retract": True, "script": [
            {"at": 0, "decs": [{"task": "A@G0@0", "do": "place", "time": 10, "strategy": 1}]},
            {"at": 1, "decs": [{"task": "A@G0@0", "do": "place", "time": 10, "strategy": 2}]}]},
        "flags": {"timeout": 200, "frequency": 2}, "seed": 1,
    })
    # profile loading / eviction by the policy: load a model (loading time 10), evict it while the load is still pending,
    # load it again, evict it when available; a task of the model runs in between
    out.append({
        "name": "load_evict_profile",
        "profiles": [{"name": "M0", "strats": [{"dem": gpu1, "rt": 3, "bs": 1}], "loading": [{"dem": [R("mem", "any", 2)], "rt": 10, "bs": 1}]}],
        "graphs": [{"name": "G0", "jobs": [{"name": "A", "profile": 0}], "policy": {"type": "fixed", "period": 1, "n": 1, "start": 20}, "dv": [0, 0]}],
        "pools": [[[I("gpu", "g1", 1), I("mem", "m1", 3)], [I("gpu", "g2", 1), I("mem", "m2", 2)]]],
        "sched": {"kind": "scripted", "runtime": 0, "lookahead": 0, "script": [
            {"at": 0, "decs": [{"do": "load", "profile": "M0", "pool": 1, "worker": 1, "time": 1}]},
            {"at": 2, "decs": [{"do": "evict", "profile": "M0", "pool": 1, "worker": 1, "time": 5}]},
            {"at": 6, "decs": [{"do": "load", "profile": "M0", "pool": 1, "time": 8}]},
            {"at": 20, "decs": [{"task": "A@G0@0", "do": "place", "time": 21}]},
            {"at": 30, "decs": [{"do": "evict", "profile": "M0", "pool": 1, "time": 31}]}]},
        "flags": {"timeout": 100, "frequency": 2}, "seed": 1,
    })
    # a profile is loaded again, with a larger loading strategy, while its first load is still pending (the worker
    # allocates again under the same profile and records the latest strategy; the eviction releases everything); another
    # model and a task follow on the capacity that is left
    out.append({
        "name": "reload_pending_profile",
        "profiles": [{"name": "M0", "strats": [{"dem": gpu1, "rt": 3, "bs": 1}],
                      "loading": [{"dem": [R("mem", "any", 2)], "rt": 10, "bs": 1}, {"dem": [R("mem", "any", 5)], "rt": 3, "bs": 1}]},
                     {"name": "M1", "strats": [{"dem": gpu1, "rt": 2, "bs": 1}], "loading": [{"dem": [R("mem", "any", 5)], "rt": 2, "bs": 1}]}],
        "graphs": [{"name": "G0", "jobs": [{"name": "A", "profile": 0}], "policy": {"type": "fixed", "period": 1, "n": 1, "start": 12}, "dv": [0, 0]},
                   {"name": "G1", "jobs": [{"name": "B", "profile": 1}], "policy": {"type": "fixed", "period": 1, "n": 1, "start": 12}, "dv": [0, 0]},
                   # releases at 2, 4, 6 wake the scheduler up while the first load is pending
                   {"name": "G2", "jobs": [{"name": "C", "profile": 1}], "policy": {"type": "fixed", "period": 2, "n": 3, "start": 2}, "dv": [0, 0]}],
        "pools": [[[I("gpu", "g1", 2), I("mem", "m1", 12)]]],
        "sched": {"kind": "scripted", "runtime": 0, "lookahead": 0, "script": [
            {"at": 0, "decs": [{"do": "load", "profile": "M0", "pool": 1, "worker": 1, "time": 1, "strategy": 1}]},
            {"at": 2, "decs": [{"do": "load", "profile": "M0", "pool": 1, "worker": 1, "time": 3, "strategy": 2}]},
            {"at": 4, "decs": [{"do": "load", "profile": "M1", "pool": 1, "worker": 1, "time": 5}]},
            {"at": 12, "decs": [{"task": "A@G0@0", "do": "place", "time": 13}, {"task": "B@G1@0", "do": "place", "time": 13}]},
            {"at": 20, "decs": [{"do": "evict", "profile": "M0", "pool": 1, "time": 21}]}]},
        "flags": {"timeout": 100, "frequency": 2}, "seed": 1,
    })
    # a worker that registers a resource under the wildcard id `any` and tasks that ask for a concrete id of that name (and
    # the other way round on a second worker): the wildcard matches, the quantity is really taken, the tasks serialise
    out.append({
        "name": "wildcard_instance_specific_request",
        "profiles": [{"name": "P0", "strats": [{"dem": [R("gpu", "g0", 1)], "rt": 4, "bs": 1}]},
                     {"name": "P1", "strats": [{"dem": [R("gpu", "any", 1), R("cpu", "c7", 1)], "rt": 3, "bs": 1}]}],
        "graphs": [{"name": "G0", "jobs": [{"name": "A", "profile": 0}, {"name": "B", "profile": 0}, {"name": "C", "profile": 1}],
                    "policy": {"type": "fixed", "period": 2, "n": 3, "start": 0}, "dv": [0, 0]}],
        "pools": [[[I("gpu", "any", 1), I("cpu", "any", 1)]], [[I("gpu", "g0", 1), I("cpu", "c7", 2)]]],
        "sched": {"kind": "edf", "runtime": 0}, "flags": {"timeout": 2000, "expect_all_done": True}, "seed": 1,
    })
    # two workers of one pool declare their resources under the SAME explicit ids (`gpu:0` on every machine, a wildcard
    # cpu): pool-level totals / availability (WORKER_POOL_UTILIZATION rows) are sums over the workers, not unions
    out.append({
        "name": "same_resource_ids_across_workers",
        "profiles": [{"name": "P0", "strats": [{"dem": [R("gpu", "any", 2)], "rt": 5, "bs": 1}]},
                     {"name": "P1", "strats": [{"dem": [R("gpu", "any", 1), R("cpu", "any", 1)], "rt": 3, "bs": 1}]}],
        "graphs": [{"name": "G0", "jobs": [{"name": "A", "profile": 0}, {"name": "B", "profile": 1}, {"name": "C", "profile": 1}],
                    "policy": {"type": "fixed", "period": 2, "n": 4, "start": 0}, "dv": [0, 0]}],
        "pools": [[[I("gpu", "0", 2), I("cpu", "any", 1)], [I("gpu", "0", 2), I("cpu", "any", 2)], [I("gpu", "0", 1), I("cpu", "c", 1)]]],
        "sched": {"kind": "fifo", "runtime": 0}, "flags": {"timeout": 2000, "expect_all_done": True, "frequency": 3}, "seed": 1,
    })
    # preemptive EDF with deadline enforcement: Long (20us, deadline 22) is preempted by Urgent (5us, deadline 7) at t=2 and
    # is hopeless when Urgent finishes: the policy answers the PREEMPTED task with a cancellation.  A task that has run is
    # never cancelled (C06); the pinned tree refuses it by raising (recorded finding), it must not silently cancel it
    out.append({
        "name": "preempted_task_answered_with_cancel",
        "profiles": [{"name": "PL", "strats": [{"dem": gpu1, "rt": 20, "bs": 1}]}, {"name": "PU", "strats": [{"dem": gpu1, "rt": 5, "bs": 1}]}],
        "graphs": [{"name": "G0", "jobs": [{"name": "Long", "profile": 0}],
                    "policy": {"type": "fixed", "period": 1, "n": 1, "start": 0}, "dv": [10, 10]},
                   {"name": "G1", "jobs": [{"name": "Urgent", "profile": 1}], "policy": {"type": "fixed", "period": 1, "n": 1, "start": 2}, "dv": [100, 100]}],
        "pools": one_gpu, "sched": {"kind": "edf", "runtime": 0, "enforce": True, "preemptive": True}, "flags": {"timeout": 200}, "seed": 1,
    })
    # --scheduler_run_at_worker_free with tasks that straddle the loop timeout: the run ends AT the timeout
    for nm, pol, awf, freq in (("worker_free_straddles_timeout_edf", "edf", True, 5), ("worker_free_straddles_timeout_fifo", "fifo", True, 5),
                               ("straddles_timeout_edf", "edf", False, -1), ("straddles_timeout_lsf_frequency", "lsf", False, 4)):
        out.append({
            "name": nm, "profiles": [P(15), P(4)],
            "graphs": [{"name": "G0", "jobs": [{"name": "A", "profile": 1, "children": ["B"]}, {"name": "B", "profile": 0}],
                        "policy": {"type": "fixed", "period": 6, "n": 3, "start": 0}, "dv": [0, 0]}],
            "pools": one_gpu, "sched": {"kind": pol, "runtime": 0}, "flags": {"timeout": 30, "at_worker_free": awf, "frequency": freq}, "seed": 2,
        })
    # one sink of a fork is cancelled by the policy while the other branch goes on: the tasks of the surviving branch are still
    # released when their parents complete (A -> {B -> D, C}; C cancelled at t=0)
    out.append({
        "name": "sink_cancelled_other_branch_continues", "profiles": [P(3), P(2)],
        "graphs": [{"name": "G0", "jobs": [{"name": "A", "profile": 0, "children": ["B", "C"]}, {"name": "B", "profile": 1, "children": ["D"]},
                                           {"name": "C", "profile": 1}, {"name": "D", "profile": 0}],
                    "policy": {"type": "fixed", "period": 1, "n": 1, "start": 0}, "dv": [0, 0]}],
        "pools": [[[I("gpu", "g1", 2)]]],
        "sched": {"kind": "scripted", "runtime": 0, "lookahead": 50, "rtg": True, "script": [
            {"at": 0, "decs": [{"task": "A@G0@0", "do": "place", "time": 0}, {"task": "C@G0@0", "do": "cancel"}]},
            {"at": 3, "decs": [{"task": "B@G0@0", "do": "place", "time": 3}]},
            {"at": 5, "decs": [{"task": "D@G0@0", "do": "place", "time": 5}]}]},
        "flags": {"timeout": 100, "frequency": 1}, "seed": 1,
    })
    # runtimes given in milliseconds (2 ms, 1 ms) next to a microsecond task: the long tasks are stepped in pieces by the
    # events of the short ones (releases every 300us) and must still hold their resources for exactly their runtime
    for nm, sched in (("ms_runtimes_edf", {"kind": "edf", "runtime": 0}), ("ms_runtimes_lsf_variance", {"kind": "lsf", "runtime": 0})):
        out.append({
            "name": nm,
            "profiles": [{"name": "PA", "strats": [{"dem": gpu1, "rt": 2000, "bs": 1, "unit": "ms"}]},
                         {"name": "PB", "strats": [{"dem": gpu1, "rt": 1000, "bs": 1, "unit": "ms"}, {"dem": [R("gpu", "any", 2)], "rt": 3000, "bs": 1, "unit": "ms"}]},
                         {"name": "PC", "strats": [{"dem": gpu1, "rt": 700, "bs": 1}]}],
            "graphs": [{"name": "G0", "jobs": [{"name": "A", "profile": 0, "children": ["B"]}, {"name": "B", "profile": 1}],
                        "policy": {"type": "fixed", "period": 1500, "n": 2, "start": 0}, "dv": [0, 0]},
                       {"name": "G1", "jobs": [{"name": "C", "profile": 2}], "policy": {"type": "fixed", "period": 300, "n": 6, "start": 100}, "dv": [0, 0]}],
            "pools": [[[I("gpu", "g1", 2)]]], "sched": sched,
            "flags": {"timeout": 20000, "expect_all_done": True, "variance": 30 if "variance" in nm else 0}, "seed": 8,
        })
    # a three-way conditional with one disabled branch (probability 0, none at 1.0): exactly one of the other two runs,
    # the join and everything after it run
    for nm, sd_ in (("cond3_zero_first", 0), ("cond3_zero_mid", 1), ("cond3_zero_last", 5)):
        cz = shape_jobs("cond3_zero", random.Random(sd_), 2)
        out.append({
            "name": nm, "profiles": [P(2), P(3)],
            "graphs": [{"name": "G0", "jobs": cz, "policy": {"type": "fixed", "period": 4, "n": 4, "start": 0}, "dv": [0, 0]}],
            "pools": [[[I("gpu", "g1", 2)]]], "sched": {"kind": "edf", "runtime": 0}, "flags": {"timeout": 600, "expect_all_done": True}, "seed": 11 + sd_,
        })
    # if / else-if / else with one shared join, then another conditional; resolved at submission (several invocations: the
    # alternating resolver takes different arms) and drawn at run time
    for nm, fl in (("cond_elif_resolved", {"resolve_conditionals": True}), ("cond_elif_resolved_b_first", {"resolve_conditionals": True}),
                   ("cond_elif_runtime", {})):
        ce_jobs = shape_jobs("cond_elif", random.Random(6), 2)
        ce_jobs[0]["children"] = ["B", "C"] if nm.endswith("b_first") else ["C", "B"]   # which arm the alternating resolver takes
        out.append({
            "name": nm, "profiles": [P(2), P(3)],
            "graphs": [{"name": "G0", "jobs": ce_jobs, "policy": {"type": "fixed", "period": 5, "n": 4, "start": 0}, "dv": [0, 0]}],
            "pools": [[[I("gpu", "g1", 2)]]], "sched": {"kind": "edf", "runtime": 0}, "flags": dict(fl, timeout=600), "seed": 6,
        })
    # a task on a conditional branch that also has a skip edge from a task BEFORE the conditional: when the branch is not
    # taken the whole branch (B, b2, b3) is cancelled up to but excluding the join J, whatever the traversal order
    sk_jobs = [{"name": "P", "profile": 0, "children": ["C", "b2"]}, {"name": "C", "profile": 0, "children": ["A", "B"], "cond": True},
               {"name": "A", "profile": 1, "children": ["J"], "prob": 0.5}, {"name": "B", "profile": 0, "children": ["b2"], "prob": 0.5},
               {"name": "b2", "profile": 1, "children": ["b3"]}, {"name": "b3", "profile": 0, "children": ["J"]},
               {"name": "J", "profile": 0, "children": ["K"], "term": True}, {"name": "K", "profile": 1}]
    for nm, sched, fl in (("cond_skip_edge_into_branch_edf", {"kind": "edf", "runtime": 0}, {}),
                          ("cond_skip_edge_into_branch_resolved", {"kind": "fifo", "runtime": 0}, {"resolve_conditionals": True}),
                          ("cond_skip_edge_into_branch_planahead", {"kind": "hostile", "runtime": 0, "cancel_rate": 0.0, "lookahead": 15, "rtg": True}, {})):
        out.append({
            "name": nm, "profiles": [P(2), P(3)],
            "graphs": [{"name": "G0", "jobs": sk_jobs, "policy": {"type": "fixed", "period": 3, "n": 6, "start": 0}, "dv": [0, 0]}],
            "pools": [[[I("gpu", "g1", 2)]]], "sched": sched, "flags": dict(fl, timeout=500), "seed": 5,
        })
    # trace-replay style task graphs (no JobGraph): a non-pipelined Camera (15us, a frame every 10us) feeding a Detector
    # over 4 timestamps: Camera@t depends on Camera@t-1 only ("source" in the sense of TaskGraph.is_source_task) and must
    # still wait for it; under EDF, and under a policy that plans the later frames ahead while the earlier ones run
    for nm, sched in (("multi_timestamp_edf", {"kind": "edf", "runtime": 0}),
                      ("multi_timestamp_planahead", {"kind": "hostile", "runtime": 0, "cancel_rate": 0.0, "lookahead": 30, "rtg": True}),
                      ("multi_timestamp_planahead_retract", {"kind": "hostile", "runtime": 1, "cancel_rate": 0.1, "lookahead": 25, "retract": True})):
        out.append({
            "name": nm, "profiles": [P(15), P(4)], "graphs": [],
            "tgraphs": [{"name": "T0", "jobs": [{"name": "Camera", "profile": 0, "children": ["Detector"]}, {"name": "Detector", "profile": 1}],
                         "timestamps": 4, "period": 10, "start": 0, "deadline": 60, "pipelined": False}],
            "pools": [[[I("gpu", "g1", 2)], [I("gpu", "g2", 1)]]], "sched": sched, "flags": {"timeout": 400, "frequency": 5 if sched["kind"] != "edf" else -1}, "seed": 3,
        })
    # a plan for a still-VIRTUAL task that carries its own (future) release time is retracted before that release: the
    # task falls back to VIRTUAL (its earlier state), is planned again and released at its own time
    out.append({
        "name": "retract_plan_of_virtual_task_with_release_time", "profiles": [P(6), P(3)], "graphs": [],
        "tgraphs": [{"name": "T0", "jobs": [{"name": "Cam", "profile": 0, "children": ["Det"]}, {"name": "Det", "profile": 1}],
                     "timestamps": 2, "period": 10, "start": 0, "deadline": 80, "pipelined": False, "own_release": True}],
        "pools": [[[I("gpu", "g1", 2)]]],
        "sched": {"kind": "scripted", "runtime": 0, "lookahead": 40, "retract": True, "script": [
            {"at": 0, "decs": [{"task": "Cam@T0", "do": "place", "time": 0, "ts": 0}]},
            {"at": 2, "decs": [{"task": "Cam@T0", "do": "place", "time": 20, "force": True, "ts": 1}]},
            {"at": 4, "decs": [{"task": "Cam@T0", "do": "unplaced", "force": True, "ts": 1}]},
            {"at": 8, "decs": [{"task": "Cam@T0", "do": "place", "time": 25, "force": True, "ts": 1}]}]},
        "flags": {"timeout": 200, "frequency": 2}, "seed": 1,
    })
    # the frontier's completion estimates through a join reached by paths of unequal length: P1(10) -> M and
    # P2(100) -> X1 -> X2 -> M(20) -> G; an unrelated task O is released at t=50 and triggers an invocation while the
    # long path still runs: G (and M) must not be offered (lookahead 0), and with a lookahead exactly those tasks whose
    # estimate along the LONGER path is inside it
    uj_jobs = [{"name": "P1", "profile": 0, "children": ["M"]}, {"name": "P2", "profile": 1, "children": ["X1"]},
               {"name": "X1", "profile": 0, "children": ["X2"]}, {"name": "X2", "profile": 0, "children": ["M"]},
               {"name": "M", "profile": 2, "children": ["G"]}, {"name": "G", "profile": 0}]
    for nm, sched in (("uneven_join_frontier_edf", {"kind": "edf", "runtime": 0}),
                      ("uneven_join_frontier_lookahead", {"kind": "hostile", "runtime": 0, "cancel_rate": 0.0, "lookahead": 25}),
                      ("uneven_join_frontier_rtg", {"kind": "hostile", "runtime": 1, "cancel_rate": 0.0, "lookahead": 40, "rtg": True, "retract": True})):
        out.append({
            "name": nm, "profiles": [P(10), P(100), P(20)],
            "graphs": [{"name": "G0", "jobs": uj_jobs, "policy": {"type": "fixed", "period": 1, "n": 1, "start": 0}, "dv": [0, 0]},
                       {"name": "G1", "jobs": [{"name": "O", "profile": 0}], "policy": {"type": "fixed", "period": 25, "n": 5, "start": 50}, "dv": [0, 0]}],
            "pools": [[[I("gpu", "g1", 3)]]], "sched": sched, "flags": {"timeout": 400, "frequency": 7 if sched["kind"] != "edf" else -1}, "seed": 1,
        })
    # conditionals resolved at submission: nested conditionals, three invocations (the alternating resolver picks
    # different branches), a plan-ahead policy that is offered the unresolved branches too
    for nm, sched in (("resolved_conditionals_edf", {"kind": "edf", "runtime": 0}),
                      ("resolved_conditionals_planahead", {"kind": "hostile", "runtime": 0, "cancel_rate": 0.0, "lookahead": 12, "rtg": True})):
        out.append({
            "name": nm, "profiles": [P(2), P(3)],
            "graphs": [{"name": "G0", "jobs": shape_jobs("two_cond", random.Random(4), 2), "policy": {"type": "fixed", "period": 4, "n": 3, "start": 0}, "dv": [0, 0]},
                       {"name": "G1", "jobs": shape_jobs("cond_uneven", random.Random(5), 2), "policy": {"type": "fixed", "period": 5, "n": 2, "start": 1}, "dv": [0, 0]}],
            "pools": [[[I("gpu", "g1", 2)]]], "sched": sched, "flags": {"timeout": 400, "resolve_conditionals": True}, "seed": 7,
        })
    # the workload arrives in several UPDATE_WORKLOAD batches: with an update interval (incl. an update that brings
    # nothing new) and without one (next update one microsecond after the latest release)
    for nm, fl in (("batched_updates_interval", {"update_interval": 4}), ("batched_updates_no_interval", {"update_interval": -1})):
        out.append({
            "name": nm, "profiles": [P(2), P(3)],
            "graphs": [{"name": "G0", "jobs": [{"name": "A", "profile": 0, "children": ["B"]}, {"name": "B", "profile": 1}],
                        "policy": {"type": "fixed", "period": 5, "n": 4, "start": 0}, "dv": [0, 0]},
                       {"name": "G1", "jobs": [{"name": "C", "profile": 0}], "policy": {"type": "fixed", "period": 10, "n": 2, "start": 5}, "dv": [0, 0]},
                       {"name": "G2", "jobs": [{"name": "D", "profile": 1}], "policy": {"type": "closed_loop", "conc": 1, "n": 3, "start": 17}, "dv": [0, 0]}],
            "loader": {"kind": "batched", "count": 2},
            "pools": [[[I("gpu", "g1", 1)]]], "sched": {"kind": "fifo", "runtime": 0}, "flags": dict(fl, timeout=2000, expect_all_done=True), "seed": 2,
        })
    for w in out:
        w.setdefault("flags", {})
    return out


FREQ0_WORLD = r'''{"profiles": [{"name": "P0", "strats": [{"dem": [{"name": "gpu", "id": "any", "q": 2}, {"name": "cpu", "id": "any", "q": 2}], "rt": 1, "bs": 1}]}, {"name": "P1", "strats": [{"dem": [{"name": "gpu", "id": "any", "q": 1}, {"name": "cpu", "id": "any", "q": 1}], "rt": 4, "bs": 1}]}, {"name": "P2", "strats": [{"dem": [{"name": "cpu", "id": "any", "q": 2}], "rt": 4, "bs": 1}, {"dem": [{"name": "gpu", "id": "any", "q": 2}, {"name": "cpu", "id": "any", "q": 1}], "rt": 3, "bs": 1}]}], "graphs": [{"name": "G0", "jobs": [{"name": "A", "profile": 2, "children": []}], "policy": {"type": "fixed", "period": 4, "n": 2, "start": 2}, "dv": [10, 50]}, {"name": "G1", "jobs": [{"name": "S", "profile": 1, "children": ["A"]}, {"name": "A", "profile": 1, "children": ["B", "C"], "cond": true}, {"name": "B", "profile": 0, "children": ["D"], "prob": 0.5}, {"name": "C", "profile": 1, "children": ["D"], "prob": 0.5}, {"name": "D", "profile": 2, "children": ["X"], "term": true}, {"name": "X", "profile": 0, "children": ["Y", "Z"], "cond": true}, {"name": "Y", "profile": 1, "children": ["T"], "prob": 0.5}, {"name": "Z", "profile": 2, "children": ["T"], "prob": 0.5}, {"name": "T", "profile": 0, "children": [], "term": true}], "policy": {"type": "fixed", "period": 6, "n": 3, "start": 2}, "dv": [10, 50]}], "pools": [[[{"name": "gpu", "id": "gpu1", "cap": 3}, {"name": "cpu", "id": "cpu2", "cap": 3}], [{"name": "gpu", "id": "gpu3", "cap": 1}, {"name": "cpu", "id": "cpu4", "cap": 2}]], [[{"name": "gpu", "id": "gpu5", "cap": 1}, {"name": "gpu", "id": "gpu6", "cap": 2}, {"name": "cpu", "id": "cpu7", "cap": 2}, {"name": "cpu", "id": "cpu8", "cap": 2}], [{"name": "gpu", "id": "gpu9", "cap": 2}, {"name": "cpu", "id": "cpu10", "cap": 2}, {"name": "cpu", "id": "cpu11", "cap": 2}]]], "sched": {"kind": "fifo", "runtime": 0, "enforce": false}, "flags": {"frequency": 0, "delay": 1, "at_worker_free": false, "drop_skipped": true, "timeout": 300, "variance": 0}, "seed": 171795, "max_recs": 300}'''


def finding_worlds():
    """Worlds that exhibit recorded known findings (see known_findings.json)."""
    gpu1 = [R("gpu", "any", 1)]
    one_gpu = [[[I("gpu", "g1", 1)]]]
    chain = [{"name": "A", "profile": 0, "children": ["B"]}, {"name": "B", "profile": 0}]
    return [
        {   # a policy cancels (or drops) a looked-ahead child of a conditional that has not completed: the
            # probabilities of the conditional's children no longer add up to 1 -> ValueError at completion
            "name": "cond_child_cancelled", "profiles": [{"name": "P0", "strats": [{"dem": gpu1, "rt": 3, "bs": 1}]}],
            "graphs": [{"name": "G0", "jobs": shape_jobs("cond", random.Random(3), 1), "policy": {"type": "fixed", "period": 2, "n": 3, "start": 0}, "dv": [0, 0]}],
            "pools": [[[I("gpu", "g1", 2)]]],
            "sched": {"kind": "hostile", "runtime": 0, "cancel_rate": 0.5, "lookahead": 20, "cancel_cond_children": True},
            "flags": {"timeout": 200, "drop_skipped": True}, "seed": 11,
        },
        # scheduler_frequency=0: while a SCHEDULED task's planned completion is already in the past (deferred
        # placement) the next SCHEDULER_START is created at the current instant for ever (found by the corpus)
        dict(json.loads(FREQ0_WORLD), name="scheduler_frequency_zero"),
        {   # a zero-runtime strategy is never finished by Task.step: simulate() spins at t=0
            "name": "zero_runtime_task", "profiles": [{"name": "P0", "strats": [{"dem": gpu1, "rt": 0, "bs": 1}]}],
            "graphs": [{"name": "G0", "jobs": [{"name": "A", "profile": 0}], "policy": {"type": "fixed", "period": 1, "n": 1, "start": 0}, "dv": [0, 0]}],
            "pools": one_gpu, "sched": {"kind": "edf", "runtime": 0}, "flags": {"timeout": 100}, "seed": 1,
        },
        {   # greedy policies place at the invocation time; with a scheduler runtime > 0 the simulator rejects it
            "name": "greedy_nonzero_runtime", "profiles": [{"name": "P0", "strats": [{"dem": gpu1, "rt": 3, "bs": 1}]}],
            "graphs": [{"name": "G0", "jobs": chain, "policy": {"type": "fixed", "period": 1, "n": 1, "start": 0}, "dv": [0, 0]}],
            "pools": one_gpu, "sched": {"kind": "edf", "runtime": 1}, "flags": {"timeout": 100}, "seed": 1,
        },
    ]
