#!/bin/bash
# usage: reseed.sh <id>...  -- (re)create the scratch worktree /tmp/seed_<id> at /repo's HEAD with seeded/<id>/patch.diff applied
for id in "$@"; do
  git -C /repo worktree remove --force /tmp/seed_$id >/dev/null 2>&1
  rm -rf /tmp/seed_$id
  git -C /repo worktree add --detach /tmp/seed_$id HEAD >/dev/null 2>&1 || { echo "$id: worktree failed"; continue; }
  if git -C /tmp/seed_$id apply /verif/seeded/$id/patch.diff 2>/tmp/reseed_$id.err; then echo "$id: applied"; else echo "$id: PATCH DOES NOT APPLY"; cat /tmp/reseed_$id.err | head -3; fi
  mkdir -p /tmp/seed_out/$id; cp /verif/seeded/$id/demo.py /tmp/seed_out/$id/ 2>/dev/null
done
