// Sequential stand-in for tbb::blocked_range (verification driver only).
#ifndef VERIF_TBB_SHIM_BLOCKED_RANGE_H
#define VERIF_TBB_SHIM_BLOCKED_RANGE_H
#include <cstddef>

namespace tbb {
template <typename T>
class blocked_range {
  T b_, e_;

 public:
  using const_iterator = T;
  blocked_range(T b, T e, size_t /*grainsize*/ = 1) : b_(b), e_(e) {}
  T begin() const { return b_; }
  T end() const { return e_; }
  size_t size() const { return static_cast<size_t>(e_ - b_); }
  bool empty() const { return !(b_ < e_); }
  bool is_divisible() const { return false; }
};
}  // namespace tbb
#endif
